/-
  C05 — helper lemmas (core Lean only): `strings.Cut`, the PAC entry parser in closed form,
  `DialRedirectFromHostPortPairs` as first-match search; the direct-domains verdict as C17's
  per-rule evaluation.
-/
import FwdVerif.Model.C05
import FwdVerif.Lemmas.C17Main

namespace FwdVerif
namespace C05

open Ascii Req

deriving instance DecidableEq for Except

/-! ## `strings.Cut` on a one-byte separator -/

theorem indexOfByte_append_of_not_mem {c : UInt8} {a : Bytes} (b : Bytes) (h : c ∉ a) :
    indexOfByte c (a ++ c :: b) = some a.length := by
  induction a with
  | nil => simp [indexOfByte]
  | cons x xs ih =>
    have hx : (x == c) = false := by
      simp only [beq_eq_false_iff_ne, ne_eq]
      intro e; exact h (by simp [e])
    have hxs : c ∉ xs := fun hm => h (List.mem_cons_of_mem _ hm)
    simp only [List.cons_append, indexOfByte, hx, Bool.false_eq_true, if_false, ih hxs, Option.map_some,
      List.length_cons]

theorem indexOfByte_none_of_not_mem {c : UInt8} {a : Bytes} (h : c ∉ a) : indexOfByte c a = none := by
  induction a with
  | nil => rfl
  | cons x xs ih =>
    have hx : (x == c) = false := by
      simp only [beq_eq_false_iff_ne, ne_eq]
      intro e; exact h (by simp [e])
    have hxs : c ∉ xs := fun hm => h (List.mem_cons_of_mem _ hm)
    simp only [indexOfByte, hx, Bool.false_eq_true, if_false, ih hxs, Option.map_none]

/-- the cut happens at the FIRST separator -/
theorem cutByte_append {c : UInt8} {a : Bytes} (b : Bytes) (h : c ∉ a) : cutByte c (a ++ c :: b) = some (a, b) := by
  unfold cutByte
  rw [indexOfByte_append_of_not_mem b h]
  simp

theorem cutByte_none {c : UInt8} {a : Bytes} (h : c ∉ a) : cutByte c a = none := by
  unfold cutByte
  rw [indexOfByte_none_of_not_mem h]

/-! ## PAC entries in closed form -/

/-- an entry `<keyword> <host:port>` -/
theorem parseProxy_entry {s kw hp : Bytes} (hs : trimSpace s = kw ++ 32 :: hp) (hkw : (32 : UInt8) ∉ kw) :
    parseProxy s =
      if kw ++ 32 :: hp = bs "DIRECT" then some none
      else (netSplitHostPort hp).bind fun x =>
        if validHost x.1 && validPort x.2 then some (some { mode := parseMode kw, host := x.1, port := x.2 }) else none := by
  unfold parseProxy
  simp only [hs]
  have hne : (kw ++ 32 :: hp).isEmpty = false := by cases kw <;> rfl
  simp only [hne, Bool.false_eq_true, if_false, beq_iff_eq, cutByte_append hp hkw]
  split
  · rfl
  · cases netSplitHostPort hp with
    | none => rfl
    | some x =>
      obtain ⟨h, p⟩ := x
      cases hh : validHost h <;> cases hp' : validPort p <;> simp [hh, hp']

/-- a keyword without host:port (other than DIRECT) is an error -/
theorem parseProxy_keyword_alone {s : Bytes} (hne : trimSpace s ≠ []) (hd : trimSpace s ≠ bs "DIRECT")
    (hsp : (32 : UInt8) ∉ trimSpace s) : parseProxy s = none := by
  unfold parseProxy
  have h1 : (trimSpace s).isEmpty = false := by
    cases h : trimSpace s with
    | nil => exact absurd h hne
    | cons _ _ => rfl
  have h2 : (trimSpace s == bs "DIRECT") = false := by simpa using hd
  simp only [h1, h2, Bool.false_eq_true, if_false, cutByte_none hsp]

/-- what follows the first `;` is never looked at -/
theorem pacFirst_first_entry (a b : Bytes) (ha : (59 : UInt8) ∉ a) : pacFirst (a ++ 59 :: b) = parseProxy a := by
  unfold pacFirst
  have hne : (a ++ 59 :: b).isEmpty = false := by cases a <;> rfl
  simp only [hne, Bool.false_eq_true, if_false, cutByte_append b ha, Option.map_some, Option.getD_some]

theorem pacFirst_single (a : Bytes) (ha : (59 : UInt8) ∉ a) (hne : a ≠ []) : pacFirst a = parseProxy a := by
  unfold pacFirst
  have h1 : a.isEmpty = false := by cases a with | nil => exact absurd rfl hne | cons _ _ => rfl
  simp only [h1, Bool.false_eq_true, if_false, cutByte_none ha, Option.map_none, Option.getD_none]

/-! ## `--connect-to` -/

theorem redirect_of_split_none {rules : List HostPortPair} {addr : Bytes} (h : netSplitHostPort addr = none) :
    redirect rules addr = addr := by
  unfold redirect; rw [h]

theorem find?_append_of_none {α : Type} {p : α → Bool} {pre : List α} (s : α) (post : List α)
    (hpre : ∀ x ∈ pre, p x = false) (hs : p s = true) : (pre ++ s :: post).find? p = some s := by
  induction pre with
  | nil => simp [List.find?, hs]
  | cons x xs ih =>
    have hx := hpre x List.mem_cons_self
    simp only [List.cons_append, List.find?, hx]
    exact ih (fun y hy => hpre y (List.mem_cons_of_mem _ hy))

/-! ## scheme constants -/

theorem schemeTests :
    ((bs "http" == bs "http") = true ∧ (bs "http" == bs "https") = false ∧ (bs "http" == bs "socks5") = false ∧ (bs "http" == bs "socks5h") = false) ∧
    ((bs "https" == bs "http") = false ∧ (bs "https" == bs "https") = true ∧ (bs "https" == bs "socks5") = false ∧ (bs "https" == bs "socks5h") = false) ∧
    ((bs "socks5" == bs "http") = false ∧ (bs "socks5" == bs "https") = false ∧ (bs "socks5" == bs "socks5") = true ∧ (bs "socks5" == bs "socks5h") = false) := by
  with_unfolding_all decide

theorem socksTests :
    ((bs "socks" == bs "http") = false ∧ (bs "socks" == bs "https") = false ∧ (bs "socks" == bs "socks5") = false) ∧
    ((bs "socks4" == bs "http") = false ∧ (bs "socks4" == bs "https") = false ∧ (bs "socks4" == bs "socks5") = false) := by
  with_unfolding_all decide

/-! ## bridge: the address the pipeline dials for a selected proxy -/

/-- whatever the proxy URL, the transport dials `canonicalAddr` of it -/
theorem transportAction_hop_of_proxy (cfg : Cfg) (u : ProxyURL) (scheme urlHost : Bytes) (out : OutMsg) :
    (transportAction { cfg with upstream := proxyUpstream u } scheme urlHost out).hopAddr = canonicalAddr u.scheme u.host := by
  unfold proxyUpstream
  split
  · rename_i h
    have : u.scheme = bs "http" := by simpa using h
    unfold transportAction
    simp only [this]
    split <;> rfl
  · split
    · rename_i h
      have : u.scheme = bs "https" := by simpa using h
      unfold transportAction
      simp only [this]
      split <;> rfl
    · split
      · rename_i h
        have : u.scheme = bs "socks5" := by simpa using h
        unfold transportAction
        simp only [this]
      · unfold transportAction
        simp only []
        split <;> rfl

theorem transportAction_hop_direct (cfg : Cfg) (scheme urlHost : Bytes) (out : OutMsg) :
    (transportAction { cfg with upstream := toUpstream (.ok none) } scheme urlHost out).hopAddr = canonicalAddr scheme urlHost := rfl

/-! ## the proxy types nothing can speak (`socks`, `socks4`) are never selected -/

theorem mode_url_not_legacy (m : Mode) (h p : Bytes) (hu : m.unsupported = false) (u : ProxyURL)
    (he : PacProxy.url ⟨m, h, p⟩ = some u) : legacySocks u = false := by
  cases m
  case socks => cases hu
  case socks4 => cases hu
  case direct => simp [PacProxy.url] at he
  all_goals
    simp only [PacProxy.url, Mode.scheme] at he
    have he' := Option.some.inj (by simpa using he)
    rw [← he']
    unfold legacySocks
    dsimp only
    with_unfolding_all decide

theorem pacProxy_not_legacy {p : PacScript} {host : Bytes} {u : ProxyURL}
    (h : pacProxy p host = .ok (some u)) : legacySocks u = false := by
  unfold pacProxy at h
  split at h
  · cases h
  · split at h
    · cases h
    · split at h
      · cases h
      · cases h
      · rename_i e _
        split at h
        · cases h
        · rename_i hu
          obtain ⟨m, hh, pp⟩ := e
          have : PacProxy.url ⟨m, hh, pp⟩ = some u := by simpa using h
          exact mode_url_not_legacy m hh pp (by simpa using hu) u this

theorem baseFn_not_legacy {b : Base} {f : ProxyFn} {host : Bytes} {u : ProxyURL}
    (hv : b.validated = true) (hb : baseFn b = some f) (h : f host = .ok (some u)) :
    legacySocks u = false := by
  cases b with
  | none => cases hb
  | pac p =>
    simp only [baseFn, Option.some.injEq] at hb
    subst hb
    exact pacProxy_not_legacy h
  | static u' =>
    simp only [baseFn, Option.some.injEq] at hb
    subst hb
    simp only [Except.ok.injEq, Option.some.injEq] at h
    subst h
    simpa [Base.validated] using hv
  | custom t d =>
    simp only [baseFn, Option.some.injEq] at hb
    subst hb
    simp only [Base.validated, Bool.and_eq_true, List.all_eq_true] at hv
    simp only at h
    split at h
    · rename_i e he
      have hm := List.mem_of_find?_eq_some he
      have := hv.1 e hm
      simp only [Except.ok.injEq] at h
      rw [h] at this
      simpa using this
    · simp only [Except.ok.injEq] at h
      have := hv.2
      rw [h] at this
      simpa using this

/-- the transport path agrees with the specification whenever the selected proxy is not of the
    `socks`/`socks4` kind -/
theorem routeRequest_eq_spec_of_not_legacy (rc : RouteCfg) (scheme urlHost : Bytes)
    (h : ∀ u, selectProxy rc (hostname urlHost) = .ok (some u) → legacySocks u = false) :
    routeRequest rc scheme urlHost = routeRequestSpec rc scheme urlHost := by
  unfold routeRequestSpec
  cases hsel : selectProxy rc (hostname urlHost) with
  | error e => rfl
  | ok o =>
    cases o with
    | none => rfl
    | some u =>
      have := h u hsel
      unfold legacySocks at this
      simp only [this]
      simp

/-! ## URL scripts, the instance fold, the memoising counter-model -/

theorem pacProxy_eq_pacAnswer (p : PacScript) (host : Bytes) : pacProxy p host = pacAnswer (p.eval host) := by
  unfold pacProxy pacAnswer
  cases p.eval host <;> rfl

theorem ofTable_find? (tbl : List (Bytes × PacResult)) (url host : Bytes) :
    ((tbl.map fun e => ({ cond := .hostIs e.1, result := e.2 } : UrlRule)).find? (fun r => r.cond.holds url host)).map (·.result) =
      (tbl.find? (fun e => e.1 == host)).map (·.2) := by
  induction tbl with
  | nil => rfl
  | cons e t ih =>
    have hc : UrlCond.holds url host (.hostIs e.1) = (e.1 == host) := by
      unfold UrlCond.holds
      cases h : (e.1 == host)
      · have : e.1 ≠ host := by simpa using h
        simpa using fun h' => this h'.symm
      · have : e.1 = host := by simpa using h
        simp [this]
    cases hb : (e.1 == host) with
    | true =>
      rw [List.map_cons, List.find?_cons_of_pos (by simp only [hc, hb]), List.find?_cons_of_pos (by simp only [hb])]
      rfl
    | false =>
      rw [List.map_cons, List.find?_cons_of_neg (by simp only [hc, hb]; decide), List.find?_cons_of_neg (by simp only [hb]; decide)]
      exact ih

theorem at_directDomains (c : InstCfg) (q : RouteReq) : (c.at q).directDomains = c.rc.directDomains := by
  unfold InstCfg.at; cases c.script <;> rfl

theorem at_localhostDirect (c : InstCfg) (q : RouteReq) : (c.at q).localhostDirect = c.rc.localhostDirect := by
  unfold InstCfg.at; cases c.script <;> rfl

theorem at_localhostNames (c : InstCfg) (q : RouteReq) : (c.at q).localhostNames = c.rc.localhostNames := by
  unfold InstCfg.at; cases c.script <;> rfl

theorem at_connectTo (c : InstCfg) (q : RouteReq) : (c.at q).connectTo = c.rc.connectTo := by
  unfold InstCfg.at; cases c.script <;> rfl

theorem at_base_of_script {c : InstCfg} {s : UrlScript} (h : c.script = some s) (q : RouteReq) :
    (c.at q).base = .pac { table := [], dflt := s.eval q.url q.host } := by
  unfold InstCfg.at; rw [h]

theorem runSeq_eq_map (c : InstCfg) (st : InstState) (qs : List RouteReq) : runSeq c st qs = qs.map (route c) := by
  induction qs generalizing st with
  | nil => rfl
  | cons q qs ih => simp only [runSeq, step, List.map_cons, ih]

theorem assoc_some_mem {κ β : Type} [DecidableEq κ] {k : κ} {l : List (κ × β)} {b : β} (h : assoc k l = some b) :
    (k, b) ∈ l := by
  induction l with
  | nil => cases h
  | cons e t ih =>
    obtain ⟨k', b'⟩ := e
    unfold assoc at h
    split at h
    · rename_i hk
      simp only [Option.some.injEq] at h
      subst hk h
      exact List.mem_cons_self
    · exact List.mem_cons_of_mem _ (ih h)

/-- cache entries are answers `f` gave for some request with that key, and were admitted -/
def CacheInv {α β κ : Type} (key : α → κ) (keep : β → Bool) (f : α → β) (cache : List (κ × β)) : Prop :=
  ∀ e ∈ cache, ∃ q, key q = e.1 ∧ f q = e.2 ∧ keep e.2 = true

theorem memoRun_eq_map {α β κ : Type} [DecidableEq κ] {key : α → κ} {keep : β → Bool} {f : α → β}
    (hs : ∀ q q', key q = key q' → keep (f q) = true → f q' = f q)
    (cache : List (κ × β)) (hinv : CacheInv key keep f cache) (qs : List α) :
    memoRun key keep f cache qs = qs.map f := by
  induction qs generalizing cache with
  | nil => rfl
  | cons q qs ih =>
    unfold memoRun
    cases ha : assoc (key q) cache with
    | some b =>
      simp only [List.map_cons]
      obtain ⟨q0, hk, hf, hkeep⟩ := hinv _ (assoc_some_mem ha)
      simp only at hk hf hkeep
      have : f q = b := by
        rw [← hf]
        exact hs q0 q hk (by rw [hf]; exact hkeep)
      rw [this, ih cache hinv]
    | none =>
      simp only [List.map_cons]
      congr 1
      apply ih
      cases hk : keep (f q) with
      | false => simpa using hinv
      | true =>
        simp only [if_true]
        intro e he
        rcases List.mem_cons.mp he with he | he
        · subst he; exact ⟨q, rfl, rfl, hk⟩
        · exact hinv e he

/-! ## dial attempts -/

theorem attemptLoop_const_addr (t : Bytes) (i n : Nat) (os : List Bool) :
    ∀ a ∈ attemptLoop (fun _ => t) i n os, a.addr = t := by
  induction n generalizing i os with
  | zero => intro a h; simp [attemptLoop] at h
  | succ n ih =>
    intro a h
    cases os with
    | nil =>
      simp only [attemptLoop, List.mem_cons] at h
      rcases h with h | h
      · rw [h]
      · exact ih _ _ a h
    | cons o os =>
      simp only [attemptLoop] at h
      split at h
      · simp only [List.mem_singleton] at h; rw [h]
      · simp only [List.mem_cons] at h
        rcases h with h | h
        · rw [h]
        · exact ih _ _ a h

theorem attemptLoop_length_le (f : Nat → Bytes) (i n : Nat) (os : List Bool) :
    (attemptLoop f i n os).length ≤ n := by
  induction n generalizing i os with
  | zero => simp [attemptLoop]
  | succ n ih =>
    cases os with
    | nil => simp only [attemptLoop, List.length_cons]; have := ih (i + 1) []; omega
    | cons o os =>
      simp only [attemptLoop]
      split
      · simp
      · simp only [List.length_cons]; have := ih (i + 1) os; omega

theorem attemptLoop_length_pos (f : Nat → Bytes) (i n : Nat) (os : List Bool) (h : 1 ≤ n) :
    1 ≤ (attemptLoop f i n os).length := by
  cases n with
  | zero => omega
  | succ n =>
    cases os with
    | nil => simp [attemptLoop]
    | cons o os => simp only [attemptLoop]; split <;> simp

theorem attemptLoop_dropLast_failed (f : Nat → Bytes) (i n : Nat) (os : List Bool) :
    ∀ a ∈ (attemptLoop f i n os).dropLast, a.ok = false := by
  induction n generalizing i os with
  | zero => intro a h; simp [attemptLoop] at h
  | succ n ih =>
    intro a h
    cases os with
    | nil =>
      simp only [attemptLoop] at h
      cases hr : attemptLoop f (i + 1) n [] with
      | nil => rw [hr] at h; simp at h
      | cons b bs =>
        rw [hr, List.dropLast_cons₂] at h
        simp only [List.mem_cons] at h
        rcases h with h | h
        · rw [h]
        · exact ih (i + 1) [] a (by rw [hr]; exact h)
    | cons o os =>
      simp only [attemptLoop] at h
      split at h
      · simp at h
      · cases hr : attemptLoop f (i + 1) n os with
        | nil => rw [hr] at h; simp at h
        | cons b bs =>
          rw [hr, List.dropLast_cons₂] at h
          simp only [List.mem_cons] at h
          rcases h with h | h
          · rw [h]
          · exact ih (i + 1) os a (by rw [hr]; exact h)

theorem attemptLoop_success (t : Bytes) (i n k : Nat) (rest : List Bool) (h : k < n) :
    attemptLoop (fun _ => t) i n (List.replicate k false ++ true :: rest) =
      List.replicate k { addr := t, ok := false } ++ [{ addr := t, ok := true }] := by
  induction k generalizing i n with
  | zero =>
    cases n with
    | zero => omega
    | succ n => simp [attemptLoop]
  | succ k ih =>
    cases n with
    | zero => omega
    | succ n =>
      simp only [List.replicate_succ, List.cons_append, attemptLoop]
      simp only [Bool.false_eq_true, if_false]
      rw [ih (i + 1) n (by omega)]

theorem attemptLoop_all_fail (t : Bytes) (i n k : Nat) (rest : List Bool) (h : n ≤ k) :
    attemptLoop (fun _ => t) i n (List.replicate k false ++ rest) = List.replicate n { addr := t, ok := false } := by
  induction n generalizing i k with
  | zero => simp [attemptLoop]
  | succ n ih =>
    cases k with
    | zero => omega
    | succ k =>
      simp only [List.replicate_succ, List.cons_append, attemptLoop]
      simp only [Bool.false_eq_true, if_false]
      rw [ih (i + 1) k (by omega)]

/-! ## direct-domains: the verdict of a list is C17's union of includes minus excludes -/

/-- whenever a matcher can be built from the list, its verdict is `specMatch`: every rule on its own -/
theorem directMatch_of_fromList {rules : List C17.Rule} {m : C17.Matcher} (h : C17.fromList rules = .ok m)
    (host : Bytes) : directMatch rules host = C17.specMatch rules host := by
  obtain ⟨hi, hr⟩ := C17.fromList_spec h host
  simp [directMatch, C17.matchesOf, h, C17.Matcher.matches, hi, hr]

/-- a list without include rule (no matcher) matches nothing -/
theorem directMatch_no_include {rules : List C17.Rule} (h : C17.includes rules = []) (host : Bytes) :
    directMatch rules host = false := by
  simp [directMatch, C17.matchesOf, (C17.fromList_noInclude rules).mpr h]

/-- `specMatch` looks at the rules as a set -/
theorem specMatch_of_mem_iff {l l' : List C17.Rule} (h : ∀ r, r ∈ l ↔ r ∈ l') (s : Bytes) :
    C17.specMatch l s = C17.specMatch l' s := by
  have h1 : (C17.includes l).any (·.search s) = (C17.includes l').any (·.search s) := by
    rw [Bool.eq_iff_iff]; simp only [List.any_eq_true, C17.includes, List.mem_filter]
    exact ⟨fun ⟨x, ⟨hx, hm⟩, hs⟩ => ⟨x, ⟨(h x).mp hx, hm⟩, hs⟩, fun ⟨x, ⟨hx, hm⟩, hs⟩ => ⟨x, ⟨(h x).mpr hx, hm⟩, hs⟩⟩
  have h2 : (C17.excludes l).any (·.search s) = (C17.excludes l').any (·.search s) := by
    rw [Bool.eq_iff_iff]; simp only [List.any_eq_true, C17.excludes, List.mem_filter]
    exact ⟨fun ⟨x, ⟨hx, hm⟩, hs⟩ => ⟨x, ⟨(h x).mp hx, hm⟩, hs⟩, fun ⟨x, ⟨hx, hm⟩, hs⟩ => ⟨x, ⟨(h x).mpr hx, hm⟩, hs⟩⟩
  simp only [C17.specMatch, h1, h2]

/-- the selection reads the direct-domains list through its verdicts only -/
theorem selectProxy_congr_direct (rc : RouteCfg) {l l' : List C17.Rule} (host : Bytes)
    (h : directMatch l host = directMatch l' host) :
    selectProxy { rc with directDomains := some l } host = selectProxy { rc with directDomains := some l' } host := by
  unfold selectProxy proxyFunc wrapDirectLocalhost wrapDirectDomains
  cases baseFn rc.base with
  | none => rfl
  | some f =>
    simp only []
    cases rc.localhostDirect <;> simp [h]

/-- a host the list does not match is routed as if `--direct-domains` were not given -/
theorem selectProxy_direct_no_match {rc : RouteCfg} {l : List C17.Rule} (hd : rc.directDomains = some l) {host : Bytes}
    (h : directMatch l host = false) :
    selectProxy rc host = selectProxy { rc with directDomains := none } host := by
  unfold selectProxy proxyFunc wrapDirectLocalhost wrapDirectDomains
  simp only [hd]
  cases baseFn rc.base with
  | none => rfl
  | some f =>
    simp only []
    cases rc.localhostDirect <;> simp [h]

theorem at_without_direct (c : InstCfg) (q : RouteReq) :
    ({ c with rc := { c.rc with directDomains := none } } : InstCfg).at q = { c.at q with directDomains := none } := by
  unfold InstCfg.at; cases c.script <;> rfl

end C05
end FwdVerif
