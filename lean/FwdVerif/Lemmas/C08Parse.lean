/-
  C08 helper lemmas, part 4: `split`, the v1 field callback, `strconv.Atoi` / `net.ParseIP`
  character classes and minimum lengths, the closed form of the v2 reader.
-/
import FwdVerif.Lemmas.C08Line

namespace FwdVerif
namespace C08

/-- no space and no CR -/
def Clean (f : Bytes) : Prop := ∀ c ∈ f, c ≠ 32 ∧ c ≠ 13

/-! ### `split` -/

theorem splitSp_clean {f : Bytes} (h : ∀ c ∈ f, c ≠ 32) : splitSp f = [f] := by
  induction f with
  | nil => rfl
  | cons c cs ih =>
    have hc : c ≠ 32 := h c (by simp)
    have ih' := ih (fun x hx => h x (by simp [hx]))
    simp [splitSp, hc, ih']

theorem splitSp_append {f : Bytes} (h : ∀ c ∈ f, c ≠ 32) (r : Bytes) :
    splitSp (f ++ 32 :: r) = f :: splitSp r := by
  induction f with
  | nil => simp [splitSp]
  | cons c cs ih =>
    have hc : c ≠ 32 := h c (by simp)
    have ih' := ih (fun x hx => h x (by simp [hx]))
    simp [splitSp, hc, ih']

/-! ### `strconv.Atoi` -/

theorem isDigit_clean {c : UInt8} (h : isDigit c = true) : c ≠ 32 ∧ c ≠ 13 := by
  constructor <;> (intro e; subst e; revert h; decide)

theorem digitsVal_all : ∀ {ds : Bytes} {acc v : Nat}, digitsVal ds acc = some v → ∀ c ∈ ds, isDigit c = true := by
  intro ds
  induction ds with
  | nil => intro _ _ _ c hc; cases hc
  | cons d ds ih =>
    intro acc v h c hc
    unfold digitsVal at h
    split at h
    · rename_i hd
      cases hc with
      | head => exact hd
      | tail _ hc' => exact ih h c hc'
    · cases h

theorem atoiDigits_clean {neg : Bool} {ds : Bytes} {n : Int} (h : atoiDigits neg ds = some n) : Clean ds := by
  unfold atoiDigits at h
  split at h
  · cases h
  · split at h
    · cases h
    · rename_i v hv
      intro c hc
      exact isDigit_clean (digitsVal_all hv c hc)

theorem atoi_clean {f : Bytes} {n : Int} (h : atoi f = some n) : Clean f := by
  unfold atoi at h
  split at h
  · cases h
  · rename_i c r
    split at h
    · rename_i hc
      have := atoiDigits_clean h
      intro x hx
      cases hx with
      | head => have : c = 45 := by simpa using hc
                subst this; decide
      | tail _ hx' => exact this x hx'
    · split at h
      · rename_i _ hc
        have := atoiDigits_clean h
        intro x hx
        cases hx with
        | head => have : c = 43 := by simpa using hc
                  subst this; decide
        | tail _ hx' => exact this x hx'
      · exact atoiDigits_clean h

theorem atoi_length {f : Bytes} {n : Int} (h : atoi f = some n) : 1 ≤ f.length := by
  cases f with
  | nil => simp [atoi] at h
  | cons c r => simp

/-! ### `net.ParseIP` -/

/-- bytes `net.ParseIP` can accept -/
def ipChar (c : UInt8) : Prop := isDigit c = true ∨ (hexVal c).isSome = true ∨ c = 46 ∨ c = 58

theorem ipChar_clean {c : UInt8} (h : ipChar c) : c ≠ 32 ∧ c ≠ 13 := by
  rcases h with h | h | h | h
  · exact isDigit_clean h
  · constructor <;> (intro e; subst e; revert h; decide)
  · subst h; decide
  · subst h; decide

theorem v4Loop_chars : ∀ {s : Bytes} {val pos digLen : Nat} {acc r : Bytes},
    v4Loop s val pos digLen acc = some r → ∀ c ∈ s, ipChar c := by
  intro s
  induction s with
  | nil => intro _ _ _ _ _ _ c hc; cases hc
  | cons d ds ih =>
    intro val pos digLen acc r h c hc
    unfold v4Loop at h
    split at h
    · rename_i hd
      split at h
      · cases h
      · dsimp only at h
        split at h
        · cases h
        · cases hc with
          | head => exact Or.inl hd
          | tail _ hc' => exact ih h c hc'
    · split at h
      · rename_i hdot
        split at h
        · cases h
        · split at h
          · cases h
          · cases hc with
            | head => exact Or.inr (Or.inr (Or.inl (by simpa using hdot)))
            | tail _ hc' => exact ih h c hc'
      · cases h

/-- a dotted quad has at least 7 characters -/
theorem v4Loop_length : ∀ {s : Bytes} {val pos digLen : Nat} {acc r : Bytes},
    v4Loop s val pos digLen acc = some r → pos ≤ 3 → (digLen = 0 → s ≠ [] ∨ pos = 0) →
      2 * (3 - pos) + (if digLen = 0 then 1 else 0) ≤ s.length := by
  intro s
  induction s with
  | nil =>
    intro val pos digLen acc r h hp hd
    unfold v4Loop at h
    split at h
    · cases h
    · have : pos = 3 := by omega
      subst this
      by_cases h0 : digLen = 0
      · rcases hd h0 with h | h
        · exact absurd rfl h
        · cases h
      · simp [h0]
  | cons d ds ih =>
    intro val pos digLen acc r h hp hd
    unfold v4Loop at h
    split at h
    · split at h
      · cases h
      · dsimp only at h
        split at h
        · cases h
        · have := ih h hp (by intro h0; omega)
          simp at this ⊢
          split <;> omega
    · split at h
      · split at h
        · cases h
        · rename_i hchk
          split at h
          · cases h
          · rename_i hp3
            have hne : ds ≠ [] := by
              intro e; subst e; simp at hchk
            have hdl : digLen ≠ 0 := by
              intro e; subst e; simp at hchk
            have hp' : pos + 1 ≤ 3 := by
              have : pos ≠ 3 := by simpa using hp3
              omega
            have := ih h hp' (fun _ => Or.inl hne)
            simp at this ⊢
            simp [hdl]
            omega
      · cases h

theorem parseV4Fields_length {s r : Bytes} (h : parseV4Fields s = some r) : 7 ≤ s.length := by
  have := v4Loop_length h (by omega) (fun _ => Or.inr rfl)
  simpa using this

theorem hexGroup_split : ∀ {s : Bytes} {off acc a o : Nat} {rest : Bytes},
    hexGroup s off acc = some (a, o, rest) → ∃ ds, s = ds ++ rest ∧ ∀ c ∈ ds, (hexVal c).isSome = true := by
  intro s
  induction s with
  | nil =>
    intro off acc a o rest h
    simp [hexGroup] at h
    exact ⟨[], by simp [h.2.2], by simp⟩
  | cons d ds ih =>
    intro off acc a o rest h
    unfold hexGroup at h
    split at h
    · injection h with h
      injection h with _ h
      injection h with _ h
      exact ⟨[], by simp [h], by simp⟩
    · rename_i v hv
      dsimp only at h
      split at h
      · cases h
      · split at h
        · cases h
        · obtain ⟨ds', he, hall⟩ := ih h
          refine ⟨d :: ds', by simp [he], ?_⟩
          intro c hc
          cases hc with
          | head => simp [hv]
          | tail _ hc' => exact hall c hc'

theorem v6Loop_chars : ∀ {fuel : Nat} {s ip : Bytes} {ell : Option Nat} {ip' : Bytes} {ell' : Option Nat},
    v6Loop fuel s ip ell = some (ip', ell', []) → ∀ c ∈ s, ipChar c := by
  intro fuel
  induction fuel with
  | zero =>
    intro s ip ell ip' ell' h c hc
    simp [v6Loop] at h
    rw [h.2.2] at hc; cases hc
  | succ n ih =>
    intro s ip ell ip' ell' h c hc
    unfold v6Loop at h
    by_cases h16 : ip.length ≥ 16
    · rw [if_pos h16] at h
      simp at h
      rw [h.2.2] at hc; cases hc
    · rw [if_neg h16] at h
      cases hg : hexGroup s 0 0 with
      | none => rw [hg] at h; cases h
      | some t =>
        obtain ⟨acc, off, rest⟩ := t
        rw [hg] at h
        dsimp only at h
        obtain ⟨ds, hs, hds⟩ := hexGroup_split hg
        by_cases ho : (off == 0) = true
        · rw [if_pos ho] at h; cases h
        · rw [if_neg ho] at h
          by_cases hdot : (rest.head? == some 46) = true
          · rw [if_pos hdot] at h
            split at h
            · cases h
            · split at h
              · cases h
              · cases hf4 : parseV4Fields s with
                | none => rw [hf4] at h; cases h
                | some f4 => exact v4Loop_chars hf4 c hc
          · rw [if_neg hdot] at h
            have hin : c ∈ ds ∨ c ∈ rest := by
              rw [hs] at hc; simpa using hc
            rcases hin with hin | hin
            · exact Or.inr (Or.inl (hds c hin))
            · have colon : ipChar 58 := Or.inr (Or.inr (Or.inr rfl))
              cases rest with
              | nil => cases hin
              | cons c1 s1 =>
                dsimp only at h
                by_cases hc1 : (c1 != 58) = true
                · rw [if_pos hc1] at h; cases h
                · rw [if_neg hc1] at h
                  have hc1' : c1 = 58 := by simpa using hc1
                  cases s1 with
                  | nil => cases h
                  | cons c2 s2 =>
                    dsimp only at h
                    by_cases hc2 : (c2 == 58) = true
                    · rw [if_pos hc2] at h
                      have hc2' : c2 = 58 := by simpa using hc2
                      split at h
                      · cases h
                      · split at h
                        · rename_i he
                          have : s2 = [] := by simpa using he
                          subst this
                          simp at hin
                          rcases hin with e | e
                          · rw [e, hc1']; exact colon
                          · rw [e, hc2']; exact colon
                        · simp at hin
                          rcases hin with e | e | e
                          · rw [e, hc1']; exact colon
                          · rw [e, hc2']; exact colon
                          · exact ih h c e
                    · rw [if_neg hc2] at h
                      simp at hin
                      rcases hin with e | e
                      · rw [e, hc1']; exact colon
                      · exact ih h c (by simpa using e)


theorem parseV6_chars {s r : Bytes} (h : parseV6 s = some r) : ∀ c ∈ s, ipChar c := by
  have colon : ipChar 58 := Or.inr (Or.inr (Or.inr rfl))
  unfold parseV6 at h
  split at h
  · -- leading "::"
    rename_i r0
    dsimp only at h
    split at h
    · rename_i he
      have : r0 = [] := by simpa using he
      subst this
      intro c hc
      rcases List.mem_cons.mp hc with e | hc
      · rw [e]; exact colon
      · rcases List.mem_cons.mp hc with e | hc
        · rw [e]; exact colon
        · cases hc
    · cases hl : v6Loop 8 r0 [] (some 0) with
      | none => rw [hl] at h; cases h
      | some t =>
        obtain ⟨ip, ell, rest⟩ := t
        rw [hl] at h
        dsimp only at h
        cases rest with
        | cons x xs => simp at h
        | nil =>
          intro c hc
          rcases List.mem_cons.mp hc with e | hc
          · rw [e]; exact colon
          · rcases List.mem_cons.mp hc with e | hc
            · rw [e]; exact colon
            · exact v6Loop_chars hl c hc
  · dsimp only at h
    split at h
    · rename_i he
      simp at he
    · cases hl : v6Loop 8 s [] none with
      | none => rw [hl] at h; cases h
      | some t =>
        obtain ⟨ip, ell, rest⟩ := t
        rw [hl] at h
        dsimp only at h
        cases rest with
        | cons x xs => simp at h
        | nil => exact v6Loop_chars hl

theorem parseIP_chars {s a : Bytes} (h : parseIP s = some a) : ∀ c ∈ s, ipChar c := by
  unfold parseIP at h
  split at h
  · cases hf : parseV4Fields s with
    | none => simp [hf] at h
    | some f => exact v4Loop_chars hf
  · split at h
    · cases h
    · exact parseV6_chars h
  · cases h

theorem parseIP_clean {s a : Bytes} (h : parseIP s = some a) : Clean s :=
  fun c hc => ipChar_clean (parseIP_chars h c hc)

theorem parseIP_v4_length {s a : Bytes} (hv : isV4Text s = true) (h : parseIP s = some a) : 7 ≤ s.length := by
  unfold isV4Text at hv
  have hf : firstSpecial s = some 46 := by simpa using hv
  unfold parseIP at h
  rw [hf] at h
  cases hp : parseV4Fields s with
  | none => simp [hp] at h
  | some f => exact parseV4Fields_length hp

theorem firstSpecial_single {c x : UInt8} (h : firstSpecial [c] = some x) : c = x := by
  unfold firstSpecial at h
  split at h
  · exact Option.some.inj h
  · simp [firstSpecial] at h

/-- whatever `net.ParseIP` accepts has at least two characters (`::`) -/
theorem parseIP_length {s a : Bytes} (h : parseIP s = some a) : 2 ≤ s.length := by
  match s, h with
  | [], h => simp [parseIP, firstSpecial] at h
  | [c], h =>
    exfalso
    unfold parseIP at h
    split at h
    · rename_i hf
      have := firstSpecial_single hf
      subst this
      have e : Option.map (fun x => v4InV6Prefix ++ x) (parseV4Fields [46]) = none := by decide
      rw [e] at h; cases h
    · rename_i hf
      have := firstSpecial_single hf
      subst this
      have e : (if ([58] : Bytes).contains 37 = true then none else parseV6 [58]) = none := by decide
      rw [e] at h; cases h
    · cases h
  | _ :: _ :: _, _ => simp

end C08
end FwdVerif
