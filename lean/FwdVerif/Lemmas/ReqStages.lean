/-
  Request pipeline — helper lemmas, part 2 (core Lean only): the stages of `processRequest`.

  §1 closed facts about the literal names of the model (`bs "…"` reduces in the kernel only).
  §2 `readRequest`: what a successfully read request looks like (`ReadSpec`).
  §3 the modifiers: hop-by-hop removal, forwarded, bad framing, Via, the tail (`finish`).
  §4 decomposition of `processRequest` into these stages.
-/
import FwdVerif.Lemmas.Req

namespace FwdVerif
namespace Req

open Ascii
open C16

/-! ## §1 literal names -/

/-- keys `ReadRequest` may change -/
def readKeys : List Bytes :=
  [bs "Cache-Control", bs "Transfer-Encoding", bs "Content-Length", bs "Trailer"]
/-- keys the forwarded modifier sets -/
def fwdKeys : List Bytes :=
  [bs "X-Forwarded-Proto", bs "X-Forwarded-Host", bs "X-Forwarded-Url", bs "X-Forwarded-For"]
/-- keys the tail of the pipeline sets (site credentials, empty User-Agent, upgrade re-add) -/
def tailKeys : List Bytes :=
  [bs "Authorization", bs "User-Agent", bs "Connection", bs "Upgrade"]
/-- header keys the writer does not copy -/
def writerExcluded : List Bytes :=
  [bs "Host", bs "User-Agent", bs "Content-Length", bs "Transfer-Encoding", bs "Trailer"]
/-- names of the field lines the writer produces itself -/
def writerNames : List Bytes :=
  [bs "host", bs "user-agent", bs "connection", bs "transfer-encoding", bs "trailer",
   bs "content-length", bs "accept-encoding", bs "proxy-authorization"]

theorem rk_cc : canonicalKey (bs "Cache-Control") ∈ readKeys := by decide +kernel
theorem rk_te : canonicalKey (bs "Transfer-Encoding") ∈ readKeys := by decide +kernel
theorem rk_cl : canonicalKey (bs "Content-Length") ∈ readKeys := by decide +kernel
theorem rk_tr : canonicalKey (bs "Trailer") ∈ readKeys := by decide +kernel

theorem fk_proto : canonicalKey (bs "X-Forwarded-Proto") ∈ fwdKeys := by decide +kernel
theorem fk_host : canonicalKey (bs "X-Forwarded-Host") ∈ fwdKeys := by decide +kernel
theorem fk_url : canonicalKey (bs "X-Forwarded-Url") ∈ fwdKeys := by decide +kernel
theorem fk_for : canonicalKey (bs "X-Forwarded-For") ∈ fwdKeys := by decide +kernel

theorem tk_auth : canonicalKey (bs "Authorization") ∈ tailKeys := by decide +kernel
theorem tk_ua : canonicalKey (bs "User-Agent") ∈ tailKeys := by decide +kernel
theorem tk_conn : canonicalKey (bs "Connection") ∈ tailKeys := by decide +kernel
theorem tk_upg : canonicalKey (bs "Upgrade") ∈ tailKeys := by decide +kernel

theorem hopByHopNames_canon : ∀ n ∈ hopByHopNames, canonicalKey n = n := by decide +kernel

theorem hopByHopNames_lower : hopByHopNames.map lower = hopByHopLower := by decide +kernel

/-- every key some stage may change folds to a static hop-by-hop or a managed name -/
theorem stageKeys_lower :
    ∀ k ∈ readKeys ++ hopByHopNames ++ fwdKeys ++ [bs "Content-Length", bs "Via"] ++ tailKeys ++
        writerExcluded,
      lower k ∈ hopByHopLower ++ managedLower := by decide +kernel

theorem writerNames_managed : ∀ n ∈ writerNames, n ∈ managedLower := by decide +kernel

theorem ck_connection : canonicalKey (bs "connection") = bs "Connection" := by decide +kernel
theorem ck_Connection : canonicalKey (bs "Connection") = bs "Connection" := by decide +kernel
theorem tok_connection : (bs "connection").all isTokenByte = true := by decide +kernel
theorem low_connection : lower (bs "connection") = bs "connection" := by decide +kernel

/-! ## §2 `readRequest` -/

/-- scheme and authority of the request-target as `ReadRequest` sees them -/
def targetParts : Target → Bytes × Bytes
  | .origin => ([], [])
  | .absolute s a => (s, a)

/-- what `readRequest` guarantees when it succeeds -/
structure ReadSpec (r : Request) (g : GoReq) : Prop where
  method : g.method = r.method
  minor : g.minor = r.minor
  path : g.path = r.path
  query : g.query = r.query
  scheme : g.scheme = (targetParts r.target).1
  urlHost : g.urlHost = (targetParts r.target).2
  host : g.host = if (targetParts r.target).2.isEmpty then goGet (toHeader r.fields) (bs "Host")
                  else (targetParts r.target).2
  hostOnce : (hget (toHeader r.fields) (bs "Host")).length ≤ 1
  header : Agree (· ∈ readKeys) (toHeader r.fields) g.header

theorem ite_throw_ok {ε α β : Type} {c : Prop} [Decidable c] {e : ε} {x : Except ε β}
    {f : α → Except ε β} {g : β} (h : (if c then (throw e >>= f) else x) = .ok g) :
    ¬ c ∧ x = .ok g := by
  split at h
  · cases h
  · exact ⟨by assumption, h⟩

theorem pure_bind_ok {ε α β : Type} {x : α} {f : α → Except ε β} {g : β}
    (h : (pure x >>= f) = Except.ok g) : f x = .ok g := h

theorem targetParts_eq (t : Target) :
    (match t with
      | Target.origin => (([] : Bytes), ([] : Bytes))
      | Target.absolute s a => (s, a)) = targetParts t := by
  cases t <;> rfl

theorem readRequest_ok {r : Request} {g : GoReq} (h : readRequest r = .ok g) : ReadSpec r g := by
  unfold readRequest at h
  extract_lets h0 h1 conn hasClose close te h2 cls jpA jpB at h
  have a1 : Agree (· ∈ readKeys) h0 h1 := by
    simp only [h1]
    split
    · split
      · exact (Agree.refl _ _).set _ _ rk_cc
      · exact Agree.refl _ _
    · exact Agree.refl _ _
  have a2 : Agree (· ∈ readKeys) h0 h2 := a1.del _ rk_te
  obtain ⟨hHost, h⟩ := ite_throw_ok h
  dsimp -zeta only [jpB] at h
  obtain ⟨_, h⟩ := ite_throw_ok h
  dsimp -zeta only [jpA] at h
  extract_lets host jpC at h
  clear_value te cls
  have h' : ∃ b, jpC b = .ok g := by
    split at h
    · exact ⟨_, h⟩
    · split at h
      · exact ⟨_, h⟩
      · split at h
        · split at h
          · exact ⟨_, h⟩
          · cases h
        · cases h
  clear h
  obtain ⟨chunked, h⟩ := h'
  dsimp -zeta only [jpC] at h
  extract_lets jpD at h
  have h' : ∃ x : HMap × List Bytes, jpD x = .ok g ∧ Agree (· ∈ readKeys) h0 x.1 := by
    split at h
    · exact ⟨_, pure_bind_ok h, a2⟩
    · exact ⟨_, pure_bind_ok h, a2⟩
    · split at h
      · exact ⟨_, pure_bind_ok h, (a2.del _ rk_cl).set _ _ rk_cl⟩
      · cases h
  clear h
  obtain ⟨⟨h3, cls'⟩, h, a3⟩ := h'
  dsimp -zeta only [jpD] at h
  extract_lets jpE at h
  have h' : ∃ n, jpE n = .ok g := by
    split at h
    · exact ⟨_, h⟩
    · split at h
      · exact ⟨_, h⟩
      · cases h
  clear h
  obtain ⟨n, h⟩ := h'
  dsimp -zeta only [jpE] at h
  extract_lets jpF at h
  replace h := (ite_throw_ok h).2
  dsimp -zeta only [jpF] at h
  cases h
  have hHost' : (hget (toHeader r.fields) (bs "Host")).length ≤ 1 := Nat.le_of_not_gt hHost
  refine ⟨rfl, rfl, rfl, rfl, ?_, ?_, ?_, hHost', ?_⟩
  · generalize r.target = t; cases t <;> rfl
  · generalize r.target = t; cases t <;> rfl
  · show host = _
    simp only [host, h0]
    generalize r.target = t; cases t <;> rfl
  · dsimp only
    cases chunked
    · simp only [Bool.false_eq_true, if_false, Bool.not_false, if_true]
      split <;> split <;> first | exact a3 | exact a3.del _ rk_cl
    · simp only [if_true, Bool.not_true, Bool.false_eq_true, if_false]
      split
      · exact a3.del _ rk_cl
      · exact (a3.del _ rk_cl).del _ rk_tr

/-! ## §3 the modifiers -/

/-- `Agree` specialised to one key: the invariant is kept and the key's entry is unchanged -/
theorem Agree.get {T : Bytes → Prop} {a b : HMap} (h : Agree T a b) (hi : Inv a) {k : Bytes}
    (hk : ¬ T k) : HMap.get b k = HMap.get a k := (h hi).2 k hk

theorem Agree.inv {T : Bytes → Prop} {a b : HMap} (h : Agree T a b) (hi : Inv a) : Inv b :=
  (h hi).1

/-- canonical keys nominated by the `Connection` values of a header map -/
def nominatedKeys (h : HMap) : List Bytes :=
  (hget h (bs "Connection")).flatMap fun vs => (splitComma vs).map fun v => canonicalKey (trimSpace v)

theorem removeHopByHop_eq (h : HMap) :
    removeHopByHop h = hopByHopNames.foldl (fun h k => goDel h k)
      ((nominatedKeys h).foldl (fun h k => goDel h k) h) := rfl

theorem nominatedKeys_canon (h : HMap) : ∀ n ∈ nominatedKeys h, canonicalKey n = n := by
  intro n hn
  unfold nominatedKeys at hn
  obtain ⟨vs, _, hn⟩ := List.mem_flatMap.mp hn
  obtain ⟨v, _, rfl⟩ := List.mem_map.mp hn
  exact canonicalKey_idem _

theorem removeHopByHop_agree (h : HMap) :
    Agree (fun k => k ∈ nominatedKeys h ∨ k ∈ hopByHopNames) h (removeHopByHop h) := by
  rw [removeHopByHop_eq]
  apply Agree.foldDel
  · intro n hn; right; rw [hopByHopNames_canon n hn]; exact hn
  apply Agree.foldDel
  · intro n hn; left; rw [nominatedKeys_canon h n hn]; exact hn
  exact Agree.refl _ _

theorem get_foldDel_none (ns : List Bytes) {k : Bytes} :
    ∀ (c : HMap), HMap.get c k = none → HMap.get (ns.foldl (fun h k => goDel h k) c) k = none := by
  induction ns with
  | nil => intro c hc; exact hc
  | cons x ns ih =>
    intro c hc
    apply ih
    by_cases hx : k = canonicalKey x
    · rw [hx]; exact get_goDel_self c x
    · rw [get_goDel_ne c hx]; exact hc

/-- every nominated and every static hop-by-hop key is gone after the removal -/
theorem get_removeHopByHop_none (h : HMap) {k : Bytes}
    (hk : k ∈ nominatedKeys h ∨ k ∈ hopByHopNames) : HMap.get (removeHopByHop h) k = none := by
  rw [removeHopByHop_eq]
  rcases hk with hk | hk
  · apply get_foldDel_none
    have := get_foldDel_mem (nominatedKeys h) hk h
    rwa [nominatedKeys_canon h k hk] at this
  · have := get_foldDel_mem hopByHopNames hk ((nominatedKeys h).foldl (fun h k => goDel h k) h)
    rwa [hopByHopNames_canon k hk] at this

/-! ### forwarded -/

theorem forwarded_agree (ctx : Ctx) (g : GoReq) : Agree (· ∈ fwdKeys) g.header (forwarded ctx g) := by
  unfold forwarded
  extract_lets h ha hb hc v xff
  have a1 : Agree (· ∈ fwdKeys) g.header ha :=
    Agree.ite _ ((Agree.refl _ _).set _ _ fk_proto) (Agree.refl _ _)
  have a2 : Agree (· ∈ fwdKeys) g.header hb := Agree.ite _ (a1.set _ _ fk_host) a1
  have a3 : Agree (· ∈ fwdKeys) g.header hc := Agree.ite _ (a2.set _ _ fk_url) a2
  exact a3.set _ _ fk_for

theorem ne_xff_proto : canonicalKey (bs "X-Forwarded-For") ≠ canonicalKey (bs "X-Forwarded-Proto") := by
  decide +kernel
theorem ne_xff_host : canonicalKey (bs "X-Forwarded-For") ≠ canonicalKey (bs "X-Forwarded-Host") := by
  decide +kernel
theorem ne_xff_url : canonicalKey (bs "X-Forwarded-For") ≠ canonicalKey (bs "X-Forwarded-Url") := by
  decide +kernel
theorem ne_proto_host : canonicalKey (bs "X-Forwarded-Proto") ≠ canonicalKey (bs "X-Forwarded-Host") := by
  decide +kernel
theorem ne_proto_url : canonicalKey (bs "X-Forwarded-Proto") ≠ canonicalKey (bs "X-Forwarded-Url") := by
  decide +kernel
theorem ne_proto_xff : canonicalKey (bs "X-Forwarded-Proto") ≠ canonicalKey (bs "X-Forwarded-For") := by
  decide +kernel
theorem ne_host_proto : canonicalKey (bs "X-Forwarded-Host") ≠ canonicalKey (bs "X-Forwarded-Proto") := by
  decide +kernel
theorem ne_host_url : canonicalKey (bs "X-Forwarded-Host") ≠ canonicalKey (bs "X-Forwarded-Url") := by
  decide +kernel
theorem ne_host_xff : canonicalKey (bs "X-Forwarded-Host") ≠ canonicalKey (bs "X-Forwarded-For") := by
  decide +kernel
theorem ne_url_proto : canonicalKey (bs "X-Forwarded-Url") ≠ canonicalKey (bs "X-Forwarded-Proto") := by
  decide +kernel
theorem ne_url_host : canonicalKey (bs "X-Forwarded-Url") ≠ canonicalKey (bs "X-Forwarded-Host") := by
  decide +kernel
theorem ne_url_xff : canonicalKey (bs "X-Forwarded-Url") ≠ canonicalKey (bs "X-Forwarded-For") := by
  decide +kernel

theorem get_ite_goSet_ne (c : Prop) [Decidable c] (h : HMap) {n k : Bytes} (v : Bytes)
    (hne : k ≠ canonicalKey n) : HMap.get (if c then goSet h n v else h) k = HMap.get h k := by
  split
  · exact get_goSet_ne h v hne
  · rfl

theorem ck_xff : canonicalKey (bs "X-Forwarded-For") = bs "X-Forwarded-For" := by decide +kernel
theorem ck_via : canonicalKey (bs "Via") = bs "Via" := by decide +kernel

/-- the client's X-Forwarded-For chain: all values, combined with ", " -/
def xffChainOf (h : HMap) : Bytes := joinWith (bs ", ") (hget h (bs "X-Forwarded-For"))

/-- X-Forwarded-For: the whole client chain, a comma, the client address -/
theorem hget_forwarded_xff (ctx : Ctx) (g : GoReq) :
    hget (forwarded ctx g) (canonicalKey (bs "X-Forwarded-For")) =
      [if (xffChainOf g.header).isEmpty then ctx.clientIP
       else xffChainOf g.header ++ bs ", " ++ ctx.clientIP] := by
  unfold forwarded
  extract_lets h ha hb hc v xff
  rw [hget_goSet_self]
  have e1 : HMap.get ha (canonicalKey (bs "X-Forwarded-For")) = HMap.get h _ :=
    get_ite_goSet_ne _ _ _ ne_xff_proto
  have e2 : HMap.get hb (canonicalKey (bs "X-Forwarded-For")) = HMap.get ha _ :=
    get_ite_goSet_ne _ _ _ ne_xff_host
  have e3 : HMap.get hc (canonicalKey (bs "X-Forwarded-For")) = HMap.get hb _ :=
    get_ite_goSet_ne _ _ _ ne_xff_url
  have : v = xffChainOf g.header := by
    have e := hget_congr (e3.trans (e2.trans e1))
    rw [ck_xff] at e
    simp only [v, xffChainOf, e, h]
  simp only [xff, this]

theorem hget_ite_goSet_self (h : HMap) (n v : Bytes) :
    hget (if (goGet h n).isEmpty then goSet h n v else h) (canonicalKey n) =
      if (goGet h n).isEmpty then [v] else hget h (canonicalKey n) := by
  split
  · exact hget_goSet_self h n v
  · rfl

theorem hget_forwarded_proto (ctx : Ctx) (g : GoReq) :
    hget (forwarded ctx g) (canonicalKey (bs "X-Forwarded-Proto")) =
      if (goGet g.header (bs "X-Forwarded-Proto")).isEmpty then [g.scheme]
      else hget g.header (canonicalKey (bs "X-Forwarded-Proto")) := by
  unfold forwarded
  extract_lets h ha hb hc v xff
  rw [hget_congr (get_goSet_ne hc xff ne_proto_xff),
    hget_congr (get_ite_goSet_ne _ hb _ ne_proto_url),
    hget_congr (get_ite_goSet_ne _ ha _ ne_proto_host)]
  exact hget_ite_goSet_self h _ _

theorem hget_forwarded_host (ctx : Ctx) (g : GoReq) :
    hget (forwarded ctx g) (canonicalKey (bs "X-Forwarded-Host")) =
      if (goGet g.header (bs "X-Forwarded-Host")).isEmpty then [g.host]
      else hget g.header (canonicalKey (bs "X-Forwarded-Host")) := by
  unfold forwarded
  extract_lets h ha hb hc v xff
  rw [hget_congr (get_goSet_ne hc xff ne_host_xff),
    hget_congr (get_ite_goSet_ne _ hb _ ne_host_url)]
  have e1 : HMap.get ha (canonicalKey (bs "X-Forwarded-Host")) = HMap.get h _ :=
    get_ite_goSet_ne _ _ _ ne_host_proto
  simp only [hb]
  rw [hget_ite_goSet_self, goGet_congr e1, hget_congr e1]

theorem hget_forwarded_url (ctx : Ctx) (g : GoReq) :
    hget (forwarded ctx g) (canonicalKey (bs "X-Forwarded-Url")) =
      if (goGet g.header (bs "X-Forwarded-Url")).isEmpty then [fullURL g]
      else hget g.header (canonicalKey (bs "X-Forwarded-Url")) := by
  unfold forwarded
  extract_lets h ha hb hc v xff
  rw [hget_congr (get_goSet_ne hc xff ne_url_xff)]
  have e1 : HMap.get ha (canonicalKey (bs "X-Forwarded-Url")) = HMap.get h _ :=
    get_ite_goSet_ne _ _ _ ne_url_proto
  have e2 : HMap.get hb (canonicalKey (bs "X-Forwarded-Url")) = HMap.get ha _ :=
    get_ite_goSet_ne _ _ _ ne_url_host
  simp only [hc]
  rw [hget_ite_goSet_self, goGet_congr (e2.trans e1), hget_congr (e2.trans e1)]

/-! ### bad framing, Via -/

theorem badFraming_agree {h h3 : HMap} (hb : badFraming h = some h3) :
    Agree (· = canonicalKey (bs "Content-Length")) h h3 := by
  unfold badFraming at hb
  split at hb
  · cases hb; exact Agree.refl _ _
  · dsimp only at hb
    split at hb
    · cases hb; exact Agree.refl _ _
    · split at hb
      · cases hb; exact (Agree.refl _ _).set _ _ rfl
      · cases hb

/-- the value the Via modifier writes -/
def viaValue (cfg : Cfg) (minor : Nat) (via : Bytes) : Bytes :=
  (if via.isEmpty then [] else via ++ bs ", ") ++ protoText minor ++ [32] ++ cfg.tag

theorem viaStep_some {cfg : Cfg} {minor : Nat} {h h4 : HMap} (hv : viaStep cfg minor h = some h4) :
    h4 = goSet h (bs "Via") (viaValue cfg minor (viaChainOf h)) := by
  unfold viaStep at hv
  extract_lets via at hv
  split at hv
  · cases hv
  · cases hv; rfl

theorem viaStep_agree {cfg : Cfg} {minor : Nat} {h h4 : HMap} (hv : viaStep cfg minor h = some h4) :
    Agree (· = canonicalKey (bs "Via")) h h4 := by
  rw [viaStep_some hv]
  exact (Agree.refl _ _).set _ _ rfl

/-! ### the tail: user rules, site credentials, empty User-Agent, upgrade re-add -/

/-- the header given to the writer, from the header the Via modifier leaves -/
def finish (cfg : Cfg) (upType : Bytes) (h4 : HMap) : HMap :=
  let h5 := applyRules cfg.rules h4
  let h6 := match cfg.siteCred with
    | some a => if (goGet h5 (bs "Authorization")).isEmpty then goSet h5 (bs "Authorization") a else h5
    | none => h5
  let h7 := if (HMap.get h6 (bs "User-Agent")).isNone then goSet h6 (bs "User-Agent") [] else h6
  if upType.isEmpty then h7
  else goSet (goSet h7 (bs "Connection") (bs "Upgrade")) (bs "Upgrade") upType

/-- the steps after the user rules -/
def finishTail (cfg : Cfg) (upType : Bytes) (h5 : HMap) : HMap :=
  let h6 := match cfg.siteCred with
    | some a => if (goGet h5 (bs "Authorization")).isEmpty then goSet h5 (bs "Authorization") a else h5
    | none => h5
  let h7 := if (HMap.get h6 (bs "User-Agent")).isNone then goSet h6 (bs "User-Agent") [] else h6
  if upType.isEmpty then h7
  else goSet (goSet h7 (bs "Connection") (bs "Upgrade")) (bs "Upgrade") upType

theorem finish_eq (cfg : Cfg) (upType : Bytes) (h4 : HMap) :
    finish cfg upType h4 = finishTail cfg upType (applyRules cfg.rules h4) := rfl

theorem finishTail_agree (cfg : Cfg) (upType : Bytes) (h5 : HMap) :
    Agree (· ∈ tailKeys) h5 (finishTail cfg upType h5) := by
  unfold finishTail
  extract_lets h6 h7
  have a6 : Agree (· ∈ tailKeys) h5 h6 := by
    simp only [h6]
    split
    · exact Agree.ite _ ((Agree.refl _ _).set _ _ tk_auth) (Agree.refl _ _)
    · exact Agree.refl _ _
  have a7 : Agree (· ∈ tailKeys) h5 h7 := Agree.ite _ (a6.set _ _ tk_ua) a6
  exact Agree.ite _ a7 ((a7.set _ _ tk_conn).set _ _ tk_upg)

end Req
end FwdVerif
