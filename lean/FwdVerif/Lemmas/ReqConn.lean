/-
  C02 — lemmas about the connection-level request reader (`Model/ReqConn.lean`): the connection loop
  with the deferred body drain acts on exactly the client's framing; a client's requests written one
  after the other are read back one by one.

  Core-only.
-/
import FwdVerif.Model.ReqConn
import FwdVerif.Lemmas.RespParse

namespace FwdVerif
namespace ReqConn

open Ascii
open Resp (splitLine parseFields fieldValues parseDec decodeChunked crlf fieldLines encodeChunked digit
  normField LineWF splitLine_append parseFields_fieldLines decodeChunked_encode)

/-! ### the loop and the client's framing -/

theorem consumed_always (d : Disp) (fr : Framing) (r : Bytes) :
    consumed .always d fr r = readBody fr r := by
  unfold consumed
  cases d.refused <;> rfl

theorem consumed_forwarded (m : Drain) (d : Disp) (fr : Framing) (r : Bytes) (h : d.refused = none) :
    consumed m d fr r = readBody fr r := by
  unfold consumed
  rw [h]
  cases m <;> rfl

theorem serveAux_always (d : ReqHead → Disp) (fuel : Nat) (inp : Bytes) :
    serveAux .always d fuel inp = cut d (framesAux fuel inp).1 (framesAux fuel inp).2 := by
  induction fuel generalizing inp with
  | zero => simp [serveAux, framesAux, cut]
  | succ fuel ih =>
    unfold serveAux framesAux
    cases hh : readHead inp with
    | eof => simp [cut]
    | bad => simp [cut]
    | ok h fr r =>
      simp only [consumed_always]
      cases hb : readBody fr r with
      | none => simp [cut]
      | some x =>
        obtain ⟨b, tr, rest⟩ := x
        simp only [cut]
        by_cases hc : (d h).close = true
        · simp [hc]
        · simp only [hc, Bool.false_eq_true, if_false]
          rw [ih rest]

/-- a loop whose decisions never refuse behaves the same with and without the deferred drain -/
theorem serveAux_no_refusal (m : Drain) (d : ReqHead → Disp) (hd : ∀ h, (d h).refused = none)
    (fuel : Nat) (inp : Bytes) : serveAux m d fuel inp = serveAux .always d fuel inp := by
  induction fuel generalizing inp with
  | zero => rfl
  | succ fuel ih =>
    unfold serveAux
    cases hh : readHead inp with
    | eof => rfl
    | bad => rfl
    | ok h fr r =>
      simp only [consumed_forwarded _ _ _ _ (hd h)]
      cases hb : readBody fr r with
      | none => rfl
      | some x =>
        obtain ⟨b, tr, rest⟩ := x
        simp only [ih rest]

/-! ### `cut` -/

theorem cut_items (d : ReqHead → Disp) (is : List Item) (e : End) :
    ((cut d is e).1.map Acted.item) = is.take (cut d is e).1.length := by
  induction is with
  | nil => simp [cut]
  | cons i is ih =>
    unfold cut
    cases hb : i.body with
    | none =>
      simp only [List.map_cons, List.map_nil, List.length_cons, List.length_nil, Nat.zero_add,
        List.take_succ_cons, List.take_zero, Acted.item]
      congr 1
      cases i; simp_all
    | some b =>
      by_cases hc : (d i.head).close = true
      · simp only [hc, if_true, List.map_cons, List.map_nil, List.length_cons, List.length_nil, Nat.zero_add,
          List.take_succ_cons, List.take_zero, Acted.item]
        congr 1
        cases i; simp_all
      · simp only [hc, Bool.false_eq_true, if_false, List.map_cons, List.length_cons, List.take_succ_cons]
        rw [← ih]
        congr 1
        cases i; simp_all [Acted.item]

theorem cut_disp (d : ReqHead → Disp) (is : List Item) (e : End) :
    ∀ a ∈ (cut d is e).1, a.disp = d a.head := by
  induction is with
  | nil => simp [cut]
  | cons i is ih =>
    unfold cut
    cases hb : i.body with
    | none => simp
    | some b =>
      by_cases hc : (d i.head).close = true
      · simp [hc]
      · simp only [hc, Bool.false_eq_true, if_false, List.mem_cons]
        rintro a (rfl | ha)
        · rfl
        · exact ih a ha

theorem cut_length_le (d : ReqHead → Disp) (is : List Item) (e : End) :
    (cut d is e).1.length ≤ is.length := by
  induction is with
  | nil => simp [cut]
  | cons i is ih =>
    unfold cut
    cases hb : i.body with
    | none => simp
    | some b =>
      by_cases hc : (d i.head).close = true
      · simp [hc]
      · simp only [hc, Bool.false_eq_true, if_false, List.length_cons]
        omega

/-- decisions that never close: every framed request is acted on, the end state is the client's -/
theorem cut_no_close (d : ReqHead → Disp) (hd : ∀ h, (d h).close = false) (is : List Item) (e : End)
    (hi : ∀ i ∈ is, i.body ≠ none) :
    (cut d is e).1.map Acted.item = is ∧ (cut d is e).2 = e := by
  induction is with
  | nil => simp [cut]
  | cons i is ih =>
    have h1 := hi i List.mem_cons_self
    have ih' := ih fun j hj => hi j (List.mem_cons_of_mem _ hj)
    unfold cut
    cases hb : i.body with
    | none => exact absurd hb h1
    | some b =>
      simp only [hd, Bool.false_eq_true, if_false, List.map_cons, ih'.1, ih'.2, and_true]
      congr 1
      cases i; simp_all [Acted.item]


theorem cut_congr_close (d d' : ReqHead → Disp) (hc : ∀ h, (d h).close = (d' h).close) (is : List Item) (e : End) :
    (cut d is e).1.map Acted.item = (cut d' is e).1.map Acted.item ∧ (cut d is e).2 = (cut d' is e).2 := by
  induction is with
  | nil => simp [cut]
  | cons i is ih =>
    unfold cut
    cases hb : i.body with
    | none => simp [Acted.item]
    | some b =>
      rw [← hc i.head]
      by_cases hcl : (d i.head).close = true
      · simp [hcl, Acted.item]
      · simp only [hcl, Bool.false_eq_true, if_false, List.map_cons, ih.1, ih.2, and_true]
        simp [Acted.item]

/-! ### reading back what a client wrote -/

private theorem takeWhile_append_stop {α : Type} (p : α → Bool) (l : List α) (b : α) (r : List α)
    (hl : ∀ a ∈ l, p a = true) (hb : p b = false) : (l ++ b :: r).takeWhile p = l := by
  induction l with
  | nil => simp [hb]
  | cons a l ih =>
    have ha : p a = true := hl a List.mem_cons_self
    simp only [List.cons_append, List.takeWhile_cons, ha, if_true]
    rw [ih (fun x hx => hl x (List.mem_cons_of_mem _ hx))]

private theorem digit_props (n : Nat) (h : n < 10) :
    isDigit (digit n) = true ∧ (digit n).toNat - 48 = n ∧ digit n ≠ 10 ∧ digit n ≠ 32 := by
  have hk : ∀ k : Fin 10, isDigit (UInt8.ofNat (48 + k.val % 10)) = true ∧
      (UInt8.ofNat (48 + k.val % 10)).toNat - 48 = k.val ∧ UInt8.ofNat (48 + k.val % 10) ≠ 10 ∧
      UInt8.ofNat (48 + k.val % 10) ≠ 32 := by decide
  exact hk ⟨n, h⟩

private theorem token_ne_sp {c : UInt8} (h : isTokenByte c = true) : c ≠ 32 := by
  intro hc; subst hc; revert h; decide

private theorem token_ne_lf {c : UInt8} (h : isTokenByte c = true) : c ≠ 10 := by
  intro hc; subst hc; revert h; decide

theorem parseRequestLine_requestLine (h : ReqHead) (hm : h.method ≠ []) (ht : h.method.all isTokenByte = true)
    (htn : h.target ≠ []) (hts : (32 : UInt8) ∉ h.target) (hmin : h.minor < 10) :
    parseRequestLine (requestLine h) = some (h.method, h.target, h.minor) := by
  have hd := digit_props h.minor hmin
  have htok : ∀ a ∈ h.method, isTokenByte a = true := by simpa using ht
  have e1 : (requestLine h).takeWhile (fun c => c != 32) = h.method := by
    unfold requestLine
    apply takeWhile_append_stop
    · intro a ha
      simpa using token_ne_sp (htok a ha)
    · simp
  have e2 : (h.target ++ 32 :: (httpPrefix ++ [digit h.minor])).takeWhile (fun c => c != 32) = h.target := by
    apply takeWhile_append_stop
    · intro a ha
      have : a ≠ 32 := fun hc => hts (hc ▸ ha)
      simpa using this
    · simp
  have hme : h.method.isEmpty = false := by
    cases hmm : h.method with
    | nil => exact absurd hmm hm
    | cons a l => rfl
  have hte : h.target.isEmpty = false := by
    cases htt : h.target with
    | nil => exact absurd htt htn
    | cons a l => rfl
  have d1 : (requestLine h).drop h.method.length = 32 :: (h.target ++ 32 :: (httpPrefix ++ [digit h.minor])) := by
    unfold requestLine
    exact List.drop_left
  have d2 : (h.target ++ 32 :: (httpPrefix ++ [digit h.minor])).drop h.target.length =
      32 :: (httpPrefix ++ [digit h.minor]) := List.drop_left
  unfold parseRequestLine
  simp only [e1, hme, ht, d1, e2, hte, d2]
  simp [httpPrefix, hd.1, hd.2.1]

theorem requestLine_nolf (h : ReqHead) (ht : h.method.all isTokenByte = true)
    (htl : (10 : UInt8) ∉ h.target) (hmin : h.minor < 10) : (10 : UInt8) ∉ requestLine h := by
  have hd := digit_props h.minor hmin
  have htok : ∀ a ∈ h.method, isTokenByte a = true := by simpa using ht
  unfold requestLine
  simp only [List.mem_append, List.mem_cons, httpPrefix, List.not_mem_nil, or_false, not_or]
  refine ⟨fun hm => token_ne_lf (htok _ hm) rfl, by decide, htl, by decide, ?_, ?_⟩
  · decide
  · exact fun hc => hd.2.2.1 hc.symm

theorem wire_ne_nil (c : ClientReq) : (c.wire).isEmpty = false := by
  unfold ClientReq.wire
  simp [crlf]

theorem readHead_wire (c : ClientReq) (hwf : c.WF) (rest : Bytes) :
    readHead (c.wire ++ rest) =
      .ok { c.head with fields := c.head.fields.map normField } c.framing (c.bodyWire ++ rest) := by
  have e : c.wire ++ rest = requestLine c.head ++ 13 :: 10 ::
      (fieldLines c.head.fields ++ crlf ++ (c.bodyWire ++ rest)) := by
    simp [ClientReq.wire, crlf]
  have hne : (c.wire ++ rest).isEmpty = false := by
    have := wire_ne_nil c
    cases hw : c.wire with
    | nil => simp [hw] at this
    | cons a l => rfl
  unfold readHead
  rw [hne, e]
  simp only [Bool.false_eq_true, if_false,
    splitLine_append _ _ (requestLine_nolf c.head hwf.method_tok hwf.target_nolf hwf.minor_lt),
    parseRequestLine_requestLine c.head hwf.method_ne hwf.method_tok hwf.target_ne hwf.target_nosp hwf.minor_lt,
    parseFields_fieldLines _ _ hwf.lines, hwf.declared]

theorem readBody_bodyWire (c : ClientReq) (hwf : c.WF) (rest : Bytes) :
    readBody c.framing (c.bodyWire ++ rest) =
      some ((c.expected.body.getD ([], [])).1, (c.expected.body.getD ([], [])).2, rest) := by
  have hf := hwf.fits
  unfold ClientReq.bodyWire ClientReq.expected
  cases hfr : c.framing with
  | none => simp [readBody]
  | len n =>
    rw [hfr] at hf
    simp only [readBody, List.length_append, Option.getD_some]
    have : ¬ (c.chunks.flatten.length + rest.length < n) := by omega
    simp only [this, if_false]
    rw [← hf, List.take_left, List.drop_left]
  | chunked =>
    rw [hfr] at hf
    simp only [readBody, Option.getD_some]
    exact decodeChunked_encode _ _ _ hf hwf.trailersWF

theorem framesAux_wire (cs : List ClientReq) (hwf : ∀ c ∈ cs, c.WF) (fuel : Nat) (hf : cs.length < fuel) :
    framesAux fuel (cs.flatMap ClientReq.wire) = (cs.map ClientReq.expected, .idle) := by
  induction cs generalizing fuel with
  | nil =>
    cases fuel with
    | zero => omega
    | succ fuel => simp [framesAux, readHead]
  | cons c cs ih =>
    cases fuel with
    | zero => omega
    | succ fuel =>
      have hc := hwf c List.mem_cons_self
      have ih' := ih (fun x hx => hwf x (List.mem_cons_of_mem _ hx)) fuel (by simpa using hf)
      rw [List.flatMap_cons]
      unfold framesAux
      simp only [readHead_wire c hc, readBody_bodyWire c hc, ih', List.map_cons]
      congr 1

theorem length_le_flatMap_wire (cs : List ClientReq) : cs.length ≤ (cs.flatMap ClientReq.wire).length := by
  induction cs with
  | nil => simp
  | cons c cs ih =>
    have := wire_ne_nil c
    rw [List.flatMap_cons, List.length_append, List.length_cons]
    cases hw : c.wire with
    | nil => simp [hw] at this
    | cons a l => simp only [List.length_cons]; omega

theorem frames_wire (cs : List ClientReq) (hwf : ∀ c ∈ cs, c.WF) :
    frames (cs.flatMap ClientReq.wire) = (cs.map ClientReq.expected, .idle) := by
  unfold frames
  apply framesAux_wire cs hwf
  have := length_le_flatMap_wire cs
  omega


/-! ### a concrete connection: a request-shaped body in a request that is answered locally -/

namespace Ex

/-- `GET /from-the-body HTTP/1.1 CRLF host: o CRLF CRLF` -/
def smuggled : Bytes := [71, 69, 84, 32, 47, 102, 114, 111, 109, 45, 116, 104, 101, 45, 98, 111, 100, 121, 32, 72, 84, 84, 80, 47, 49, 46, 49, 13, 10, 104, 111, 115, 116, 58, 32, 111, 13, 10, 13, 10]

/-- `POST /upload HTTP/1.1 CRLF host: o CRLF content-length: 40 CRLF CRLF` followed by `smuggled` as the body -/
def post : Bytes := [80, 79, 83, 84, 32, 47, 117, 112, 108, 111, 97, 100, 32, 72, 84, 84, 80, 47, 49, 46, 49, 13, 10, 104, 111, 115, 116, 58, 32, 111, 13, 10, 99, 111, 110, 116, 101, 110, 116, 45, 108, 101, 110, 103, 116, 104, 58, 32, 52, 48, 13, 10, 13, 10] ++ smuggled

/-- `GET /second HTTP/1.1 CRLF host: o CRLF CRLF` -/
def second : Bytes := [71, 69, 84, 32, 47, 115, 101, 99, 111, 110, 100, 32, 72, 84, 84, 80, 47, 49, 46, 49, 13, 10, 104, 111, 115, 116, 58, 32, 111, 13, 10, 13, 10]

def stream : Bytes := post ++ second

def POST : Bytes := [80, 79, 83, 84]
def GET : Bytes := [71, 69, 84]
def hostO : List (Bytes × Bytes) := [([104, 111, 115, 116], [111])]
def upload : Bytes := [47, 117, 112, 108, 111, 97, 100]
def fromTheBody : Bytes := [47, 102, 114, 111, 109, 45, 116, 104, 101, 45, 98, 111, 100, 121]
def secondT : Bytes := [47, 115, 101, 99, 111, 110, 100]

/-- every POST is answered locally with 407 (keep-alive), everything else is forwarded -/
def refusePost (h : ReqHead) : Disp :=
  if h.method == POST then { refused := some 407, close := false } else { refused := none, close := false }

end Ex

end ReqConn
end FwdVerif
