/-
  Request pipeline over a history (`Model/ReqSeq.lean`) — helper lemmas (core Lean only).
-/
import FwdVerif.Model.ReqSeq

namespace FwdVerif
namespace Req

/-- the process folded over a history answers every event as if it were alone -/
theorem runProcess_eq_map (st : ProcState) (es : List Event) :
    runProcess st es = es.map eventAlone := by
  induction es generalizing st with
  | nil => rfl
  | cons e es ih =>
    simp only [runProcess, List.map_cons, ih]
    cases e <;> rfl

/-- with nothing sticking, the counter-model is the process -/
theorem dropNamed_nil (fs : List (Bytes × Bytes)) : dropNamed [] fs = fs := by
  unfold dropNamed
  exact List.filter_eq_self.mpr (fun _ _ => rfl)

end Req
end FwdVerif
