/-
  C11 — helper lemmas (part 4): progress.  While `Shutdown` holds `connsMu`, a registered
  connection can still run to its counter decrement (no step on that path needs the mutex), and
  therefore Shutdown's wait can end.
-/
import FwdVerif.Lemmas.C11Inv

namespace FwdVerif
namespace C11

theorem run_append {s : State} {as bs : List Action} {s' : State} (h : run s as = some s') :
    run s (as ++ bs) = run s' bs := by
  induction as generalizing s with
  | nil => have h' : some s = some s' := h; cases h'; rfl
  | cons a as ih =>
    simp only [run, List.cons_append] at h ⊢
    cases hs1 : step s a with
    | none => rw [hs1] at h; cases h
    | some s1 => rw [hs1] at h; exact ih h

theorem reachable_run {s s' : State} {as : List Action} (hr : Reachable s) (h : run s as = some s') :
    Reachable s' := by
  induction as generalizing s with
  | nil => have h' : some s = some s' := h; cases h'; exact hr
  | cons a as ih =>
    simp only [run] at h
    cases hs1 : step s a with
    | none => rw [hs1] at h; cases h
    | some s1 => rw [hs1] at h; exact ih (Reachable.step a hr hs1) h

/-- distance of a connection whose client has vanished from its counter decrement -/
def rank (x : Conn) : Nat :=
  match x.pc with
  | .registered => 15 | .closingCheck0 => 14 | .tlsHandshake => 13 | .idleRead => 12
  | .requestRead => 11 | .closingCheck => 10 | .roundTrip => 9
  | .awaitOrigin => if x.answered then 7 else 8
  | .writeResponse => 6 | .writing => 5 | .tunnel => 5 | .deferredClose => 3 | .closingSock => 2 | .counterDec => 1
  | _ => 0

/-- what a drain step leaves alone -/
structure Frame (s s' : State) (c : ConnId) : Prop where
  lock : s'.lock = s.lock
  shut : s'.shuts = s.shuts
  ids : s'.ids = s.ids
  others : ∀ d, d ≠ c → s'.conns d = s.conns d
  gone : (s'.conns c).clientGone = true

theorem Frame.trans {s s' s'' : State} {c : ConnId} (h1 : Frame s s' c) (h2 : Frame s' s'' c) :
    Frame s s'' c :=
  ⟨h2.lock.trans h1.lock, h2.shut.trans h1.shut, h2.ids.trans h1.ids,
   fun d hd => (h2.others d hd).trans (h1.others d hd), h2.gone⟩

theorem step_conn_of {s : State} {c : ConnId} {a : CAct} {x : Conn} {e : Eff}
    (h : cstep s.closing (lockFree s) (s.conns c) a = some (x, e)) :
    step s (.conn c a) = some (applyEff (setConn s c x) c e) := by
  simp [step, h]

/-- the steps used to drain a connection -/
def drainAct : CAct → Bool
  | .check0 | .tlsFail | .idleFail | .firstByte | .readFail | .readDone | .check | .forward
  | .respReady | .writeHeadFail | .writeFail | .tunnelEnd | .closeStart | .closeDone | .counterDec => true
  | _ => false

theorem cstep_drain {cl lf : Bool} {y x : Conn} {a : CAct} {e : Eff}
    (h : cstep cl lf y a = some (x, e)) (ha : drainAct a = true) :
    rank x < rank y ∧ x.clientGone = y.clientGone ∧ (e = .none ∨ e = .dec) := by
  cstep_cases h <;> cases cl <;> simp_all [drainAct, rank] <;> (try split) <;> simp_all

/-- one more step towards the decrement, none of which needs `connsMu` -/
theorem drain_step {s : State} {c : ConnId}
    (hnl : holdsLock (s.conns c).pc = false)
    (hc : counted (s.conns c).pc = true) (hg : (s.conns c).clientGone = true) :
    ∃ a s', step s a = some s' ∧ rank (s'.conns c) < rank (s.conns c) ∧ Frame s s' c := by
  -- the environment step (origin answers) is separate
  by_cases hwait : (s.conns c).pc = .awaitOrigin ∧ (s.conns c).answered = false
  · refine ⟨.originAnswer c, setConn s c { s.conns c with answered := true }, by simp [step, hwait.1], ?_, ?_⟩
    · simp [setConn, rank, hwait.1, hwait.2]
    · constructor <;> simp_all [setConn]
  · have hex : ∃ a, drainAct a = true ∧ (cstep s.closing (lockFree s) (s.conns c) a).isSome = true := by
      cases hpc : (s.conns c).pc <;> simp [hpc, counted, holdsLock] at hc hnl
      case closingCheck0 => exact ⟨.check0, rfl, by simp [cstep, hpc]⟩
      case tlsHandshake => exact ⟨.tlsFail, rfl, by simp [cstep, hpc, hg]⟩
      case idleRead =>
        by_cases h1 : (s.conns c).sockClosed = true ∨ (s.conns c).pending = []
        · exact ⟨.idleFail, rfl, by simp [cstep, hpc, hg, h1]⟩
        · have h2 : (s.conns c).sockClosed = false ∧ (s.conns c).pending ≠ [] := by
            cases hh : (s.conns c).sockClosed <;> simp_all
          exact ⟨.firstByte, rfl, by simp [cstep, hpc, h2]⟩
      case requestRead =>
        by_cases h1 : (s.conns c).sockClosed = true ∨ (s.conns c).pending = []
        · exact ⟨.readFail, rfl, by simp [cstep, hpc, hg, h1]⟩
        · have h2 : (s.conns c).sockClosed = false ∧ (s.conns c).pending ≠ [] := by
            cases hh : (s.conns c).sockClosed <;> simp_all
          cases hp : (s.conns c).pending with
          | nil => exact absurd hp h2.2
          | cons r rest => exact ⟨.readDone, rfl, by simp [cstep, hpc, h2.1, hp]⟩
      case closingCheck => exact ⟨.check, rfl, by simp [cstep, hpc]⟩
      case roundTrip => exact ⟨.forward, rfl, by simp [cstep, hpc]⟩
      case awaitOrigin =>
        have ha : (s.conns c).answered = true := by
          cases hh : (s.conns c).answered
          · exact absurd ⟨hpc, hh⟩ hwait
          · rfl
        exact ⟨.respReady, rfl, by simp [cstep, hpc, ha]⟩
      case writeResponse => exact ⟨.writeHeadFail, rfl, by simp [cstep, hpc, hg]⟩
      case writing => exact ⟨.writeFail, rfl, by simp [cstep, hpc, hg]⟩
      case tunnel => exact ⟨.tunnelEnd, rfl, by simp [cstep, hpc, hg]⟩
      case deferredClose => exact ⟨.closeStart, rfl, by simp [cstep, hpc]⟩
      case closingSock => exact ⟨.closeDone, rfl, by simp [cstep, hpc]⟩
      case counterDec => exact ⟨.counterDec, rfl, by simp [cstep, hpc]⟩
    obtain ⟨a, hda, hsome⟩ := hex
    obtain ⟨⟨x, e⟩, hxe⟩ := Option.isSome_iff_exists.mp hsome
    obtain ⟨hrk, hgone, he⟩ := cstep_drain hxe hda
    refine ⟨.conn c a, _, step_conn_of hxe, ?_, ?_⟩
    · rcases he with rfl | rfl <;> simpa [applyEff, setConn] using hrk
    · rcases he with rfl | rfl <;> constructor <;> simp_all [applyEff, setConn]

theorem rank_zero_of_uncounted {x : Conn} (h : counted x.pc = false) : rank x = 0 := by
  unfold rank
  cases hp : x.pc <;> simp_all [counted]

/-- iterate `drain_step` -/
theorem drain_gone {s : State} {c : ConnId} {k : CallId} (hr : Reachable s) (hlk : s.lock = .shutdown k)
    (hg : (s.conns c).clientGone = true) :
    ∃ as s', run s as = some s' ∧ counted (s'.conns c).pc = false ∧ Frame s s' c := by
  generalize hn : rank (s.conns c) = n
  induction n using Nat.strongRecOn generalizing s with
  | _ n ih =>
    cases hcn : counted (s.conns c).pc with
    | false =>
      exact ⟨[], s, rfl, hcn, ⟨rfl, rfl, rfl, fun _ _ => rfl, hg⟩⟩
    | true =>
      have hi := inv_reachable hr
      have hnl := no_holder_of_lock hi (by rw [hlk]; intro d; simp) c
      obtain ⟨a, s1, hs1, hlt, hf⟩ := drain_step hnl hcn hg
      have hr1 := Reachable.step a hr hs1
      obtain ⟨as, s2, hrun, hun, hf2⟩ :=
        ih (rank (s1.conns c)) (by omega) hr1 (hf.lock.trans hlk) hf.gone rfl
      refine ⟨a :: as, s2, ?_, hun, hf.trans hf2⟩
      simp [run, hs1, hrun]


/-- a counted connection can always be driven to its decrement while Shutdown holds the mutex -/
theorem drain_conn {s : State} {c : ConnId} {k : CallId} (hr : Reachable s) (hlk : s.lock = .shutdown k)
    (hc : counted (s.conns c).pc = true) :
    ∃ as s', run s as = some s' ∧ counted (s'.conns c).pc = false ∧ s'.lock = .shutdown k ∧
      s'.shuts = s.shuts ∧ s'.ids = s.ids ∧ ∀ d, d ≠ c → s'.conns d = s.conns d := by
  have hi := inv_reachable hr
  have hcid : c ∈ s.ids := mem_ids_of_pc hi (by intro h; rw [h] at hc; simp [counted] at hc)
  have hs1 : step s (.gone c) = some (setConn s c { s.conns c with clientGone := true }) := by
    simp [step, hcid]
  have hr1 := Reachable.step _ hr hs1
  obtain ⟨as, s2, hrun, hun, hf⟩ := drain_gone (c := c) hr1 (by simpa [setConn] using hlk) (by simp [setConn])
  refine ⟨.gone c :: as, s2, by simp [run, hs1, hrun], hun, ?_, ?_, ?_, ?_⟩
  · rw [hf.lock]; simpa [setConn] using hlk
  · rw [hf.shut]; simp [setConn]
  · rw [hf.ids]; simp [setConn]
  · intro d hd; rw [hf.others d hd]; simp [setConn, hd]

theorem cnt_exists_of_pos {f : ConnId → Conn} {l : List ConnId} (h : 0 < cnt f l) :
    ∃ c ∈ l, counted (f c).pc = true := by
  induction l with
  | nil => simp [cnt] at h
  | cons a as ih =>
    cases ha : counted (f a).pc with
    | true => exact ⟨a, by simp, ha⟩
    | false =>
      simp only [cnt, ha] at h
      obtain ⟨c, hc, hcc⟩ := ih (by simpa using h)
      exact ⟨c, by simp [hc], hcc⟩

theorem wait_can_end_aux (k : CallId) : ∀ (n : Nat) (s : State), Reachable s →
    ((s.shuts k).pc = .polling ∨ (s.shuts k).pc = .selecting) → cnt s.conns s.ids = n →
    ∃ as s', run s as = some s' ∧ (s'.shuts k).pc = .retNil := by
  intro n
  induction n with
  | zero =>
    intro s hr hs hn
    have hi := inv_reachable hr
    have h0 : s.counter = 0 := by rw [hi.counter]; exact hn
    rcases hs with hs | hs
    · exact ⟨[.shutPoll k], setShut s k { s.shuts k with pc := .retNil }, by simp [run, step, hs, h0],
        by simp [setShut]⟩
    · exact ⟨[.shutTimer k, .shutPoll k],
        setShut (setShut s k { s.shuts k with pc := .polling }) k
          { (setShut s k { s.shuts k with pc := .polling }).shuts k with pc := .retNil },
        by simp [run, step, hs, h0, setShut], by simp [setShut]⟩
  | succ n ih =>
    intro s hr hs hn
    have hi := inv_reachable hr
    obtain ⟨c, hcid, hcc⟩ := cnt_exists_of_pos (f := s.conns) (l := s.ids) (by omega)
    have hlk : s.lock = .shutdown k := (hi.lockShut k).mpr (by rcases hs with h | h <;> simp [h, shutHolds])
    obtain ⟨as, s1, hrun, hun, _, hsh, hids, hoth⟩ := drain_conn hr hlk hcc
    have hr1 := reachable_run hr hrun
    have hcnt : cnt s1.conns s1.ids = n := by
      have hcu := cnt_update (f := s.conns) (x := s1.conns c) hi.nodup hcid
      have heq : cnt s1.conns s1.ids = cnt (fun d => if d = c then s1.conns c else s.conns d) s.ids := by
        rw [hids]
        apply cnt_congr
        intro d _
        by_cases hd : d = c
        · subst hd; simp
        · simp [hd, hoth d hd]
      rw [heq, hcu, hn]
      simp [hcc, hun]
    obtain ⟨bs, s2, hrun2, hret⟩ := ih s1 hr1 (by rw [hsh]; exact hs) hcnt
    exact ⟨as ++ bs, s2, by rw [run_append hrun]; exact hrun2, hret⟩

/-! ## the closes that are under way when `Close` sweeps the map (F53) -/

/-- the return of a handler's `conn.Close()`: always enabled inside the call, closes the socket, touches nothing else -/
theorem step_closeDone {s : State} (c : ConnId) (hp : (s.conns c).pc = .closingSock) :
    ∃ s', step s (.conn c .closeDone) = some s' ∧ (s'.conns c).sockClosed = true ∧ (s'.conns c).pc = .counterDec ∧
      s'.closes = s.closes ∧ ∀ d, d ≠ c → s'.conns d = s.conns d := by
  refine ⟨setConn s c { s.conns c with pc := .counterDec, sockClosed := true }, ?_, ?_, ?_, rfl, ?_⟩
  · simp [step, cstep, hp, applyEff]
  · simp [setConn]
  · simp [setConn]
  · intro d hd; simp [setConn, hd]

/-- the returns of the closes that are under way on the connections of `l`, one after the other -/
def pendingCloseReturns (l : List ConnId) : List Action := l.map fun c => .conn c .closeDone

theorem run_pendingCloseReturns (l : List ConnId) : ∀ (s : State), l.Nodup →
    (∀ c ∈ l, (s.conns c).pc = .closingSock) →
    ∃ s', run s (pendingCloseReturns l) = some s' ∧ s'.closes = s.closes ∧
      (∀ c ∈ l, (s'.conns c).sockClosed = true) ∧ (∀ c, c ∉ l → s'.conns c = s.conns c) := by
  induction l with
  | nil => intro s _ _; exact ⟨s, rfl, rfl, by simp, fun _ _ => rfl⟩
  | cons a as ih =>
    intro s hn hall
    have hn' := List.nodup_cons.mp hn
    obtain ⟨s1, h1, h2, _, h4, h5⟩ := step_closeDone (s := s) a (hall a (by simp))
    obtain ⟨s', g1, g2, g3, g4⟩ := ih s1 hn'.2 (fun c hc => by
      have hca : c ≠ a := fun e => hn'.1 (e ▸ hc)
      rw [h5 c hca]; exact hall c (by simp [hc]))
    refine ⟨s', ?_, g2.trans h4, ?_, ?_⟩
    · simp only [pendingCloseReturns, List.map_cons, run, h1]; exact g1
    · intro c hc
      rcases List.mem_cons.mp hc with rfl | hc'
      · rw [g4 c hn'.1]; exact h2
      · exact g3 c hc'
    · intro c hc
      have hca : c ≠ a := fun e => hc (e ▸ List.mem_cons_self)
      have hcas : c ∉ as := fun e => hc (List.mem_cons_of_mem _ e)
      rw [g4 c hcas, h5 c hca]

end C11
end FwdVerif
