/-
  C12 — helper lemmas for §9 (the accept loop) and §10 (the HTTP log mode as a body wrapper) of
  `Model/C12.lean`.  Core Lean only.
-/
import FwdVerif.Model.C12
import FwdVerif.Lemmas.C12
import FwdVerif.Lemmas.C12Handler

namespace FwdVerif
namespace C12

/-! ### §9 the accept loop -/

/-- the delays that occur: none yet, or between 5 ms and 1 s -/
def DelayOk (d : Nat) : Prop := d = 0 ∨ (5 ≤ d ∧ d ≤ 1000)

theorem nextDelay_ok {d : Nat} (h : DelayOk d) : 5 ≤ nextDelay d ∧ nextDelay d ≤ 1000 := by
  unfold nextDelay
  rcases h with h | ⟨h5, h1000⟩
  · subst h; simp
  · have hne : (d == 0) = false := by
      simp only [beq_eq_false_iff_ne, ne_eq]; omega
    simp only [hne, Bool.false_eq_true, if_false]
    split <;> omega

theorem acceptStepWith_retried (p : RetryPred) (st : AcceptState) (e : AcceptErr) (hst : st.returned = false)
    (hp : p e.shape = true) :
    acceptStepWith p st (.err e) = ({ st with delay := nextDelay st.delay }, .action (.retry (nextDelay st.delay))) := by
  simp [acceptStepWith, hst, acceptActionWith, hp]

theorem acceptStepWith_ended (p : RetryPred) (st : AcceptState) (e : AcceptErr) (hst : st.returned = false)
    (hp : p e.shape = false) :
    acceptStepWith p st (.err e) = ({ st with returned := true }, .action .ret) := by
  simp [acceptStepWith, hst, acceptActionWith, hp]

theorem acceptStepWith_conn (p : RetryPred) (st : AcceptState) (hst : st.returned = false) :
    acceptStepWith p st .conn = ({ st with delay := 0, served := st.served + 1 }, .served) := by
  simp [acceptStepWith, hst]

theorem acceptRunWith_cons (p : RetryPred) (st : AcceptState) (ev : AcceptEv) (evs : List AcceptEv) :
    acceptRunWith p st (ev :: evs) =
      ((acceptRunWith p (acceptStepWith p st ev).1 evs).1,
        (acceptStepWith p st ev).2 :: (acceptRunWith p (acceptStepWith p st ev).1 evs).2) := by
  simp [acceptRunWith]

/-- errors that the predicate retries never end the loop: it is still accepting, every one of them was
    answered by a retry with a delay between 5 ms and 1 s -/
theorem acceptRunWith_retried (p : RetryPred) (es : List AcceptErr) (hp : ∀ e ∈ es, p e.shape = true) :
    ∀ st : AcceptState, st.returned = false → DelayOk st.delay →
      (acceptRunWith p st (es.map .err)).1.returned = false ∧
        (acceptRunWith p st (es.map .err)).1.served = st.served ∧
        DelayOk (acceptRunWith p st (es.map .err)).1.delay ∧
        ∀ o ∈ (acceptRunWith p st (es.map .err)).2, ∃ d, o = .action (.retry d) ∧ 5 ≤ d ∧ d ≤ 1000 := by
  induction es with
  | nil =>
    intro st hst hd
    simp [acceptRunWith, hst, hd]
  | cons e es ih =>
    intro st hst hd
    have hpe := hp e List.mem_cons_self
    have hb := nextDelay_ok hd
    have := ih (fun x hx => hp x (List.mem_cons_of_mem _ hx)) { st with delay := nextDelay st.delay } hst (Or.inr hb)
    obtain ⟨h1, h2, h3, h4⟩ := this
    simp only [List.map_cons, acceptRunWith_cons, acceptStepWith_retried p st e hst hpe]
    refine ⟨h1, h2, h3, ?_⟩
    intro o ho
    rcases List.mem_cons.mp ho with ho | ho
    · exact ⟨_, ho, hb.1, hb.2⟩
    · exact h4 o ho

/-- once `Serve` has returned nothing is served any more -/
theorem acceptRunWith_returned (p : RetryPred) (evs : List AcceptEv) :
    ∀ st : AcceptState, st.returned = true →
      (acceptRunWith p st evs).1 = st ∧ ∀ o ∈ (acceptRunWith p st evs).2, o = .refused ∨ o = .unseen := by
  induction evs with
  | nil => intro st _; simp [acceptRunWith]
  | cons ev evs ih =>
    intro st hst
    have hs : (acceptStepWith p st ev).1 = st ∧
        ((acceptStepWith p st ev).2 = .refused ∨ (acceptStepWith p st ev).2 = .unseen) := by
      cases ev <;> simp [acceptStepWith, hst]
    obtain ⟨h1, h2⟩ := ih st hst
    rw [acceptRunWith_cons, hs.1]
    refine ⟨h1, ?_⟩
    intro o ho
    rcases List.mem_cons.mp ho with ho | ho
    · rw [ho]; exact hs.2
    · exact h2 o ho

/-- the delay after `n` more consecutive errors, from the delay `d` -/
def delayFrom (d : Nat) : Nat → Nat
  | 0 => d
  | n + 1 => delayFrom (nextDelay d) n

/-- the delay after `n` consecutive errors of a fresh loop -/
def delayAfter (n : Nat) : Nat := delayFrom 0 n

theorem delayFrom_succ (d n : Nat) : delayFrom d (n + 1) = nextDelay (delayFrom d n) := by
  induction n generalizing d with
  | zero => rfl
  | succ n ih =>
    show delayFrom (nextDelay d) (n + 1) = nextDelay (delayFrom (nextDelay d) n)
    exact ih (nextDelay d)

theorem delayAfter_succ (i : Nat) : delayAfter (i + 1) = min (5 * 2 ^ i) 1000 := by
  induction i with
  | zero => decide
  | succ i ih =>
    have h2 : 5 * 2 ^ (i + 1) = 2 * (5 * 2 ^ i) := by rw [Nat.pow_succ]; omega
    have hpos : 5 ≤ 5 * 2 ^ i := by
      have : 1 ≤ 2 ^ i := Nat.one_le_two_pow
      omega
    unfold delayAfter at ih ⊢
    rw [delayFrom_succ, ih, h2]
    unfold nextDelay
    have hne : (min (5 * 2 ^ i) 1000 == 0) = false := by
      simp only [beq_eq_false_iff_ne, ne_eq]; omega
    simp only [hne, Bool.false_eq_true, if_false]
    split <;> omega

theorem acceptRunWith_replicate_delay (p : RetryPred) (e : AcceptErr) (hp : p e.shape = true) (n : Nat) :
    ∀ st : AcceptState, st.returned = false →
      (acceptRunWith p st (List.replicate n (.err e))).1.delay = delayFrom st.delay n := by
  induction n with
  | zero => intro st _; rfl
  | succ n ih =>
    intro st hst
    rw [List.replicate_succ, acceptRunWith_cons, acceptStepWith_retried p st e hst hp]
    exact ih { st with delay := nextDelay st.delay } hst

/-! ### §10 the log mode -/

theorem replayPieces_flatten (d : Bytes) : (replayPieces d).flatten = d := by
  cases d <;> simp [replayPieces]

theorem replayPieces_ne (d : Bytes) : ∀ p ∈ replayPieces d, p ≠ [] := by
  cases d <;> simp [replayPieces]

theorem tornPieces_length (k : Nat) : (tornPieces k).flatten.length = k := by
  unfold tornPieces
  cases h : (k == 0)
  · simp
  · have : k = 0 := by simpa using h
    simp [this]

theorem tornPieces_ne (k : Nat) : ∀ p ∈ tornPieces k, p ≠ [] := by
  unfold tornPieces
  cases h : (k == 0)
  · have hk : k ≠ 0 := by simpa using h
    intro p hp
    have : p = List.replicate k 0 := by simpa using hp
    subst this
    intro he
    have := congrArg List.length he
    simp at this
    exact hk this
  · simp

theorem wrapBody_pieces_ne (m : LogMode) (b : BodyStream) (h : ∀ p ∈ b.pieces, p ≠ []) :
    ∀ p ∈ (wrapBody m b).pieces, p ≠ [] := by
  obtain ⟨ps, e⟩ := b
  cases m <;> try exact h
  cases e
  · exact replayPieces_ne _
  · intro p hp; simp [wrapBody, wrapBodyWith, snapshotKeepErr] at hp

theorem transparent_id : Transparent (fun b => b) := fun _ => ⟨rfl, ⟨[], by simp⟩, fun _ => rfl⟩

theorem wrapBody_transparent (m : LogMode) : Transparent (wrapBody m) := by
  intro b
  obtain ⟨ps, e⟩ := b
  cases m <;> try exact ⟨rfl, ⟨[], List.append_nil _⟩, fun _ => rfl⟩
  cases e
  · refine ⟨rfl, ⟨[], ?_⟩, fun _ => ?_⟩ <;>
      simp [wrapBody, wrapBodyWith, snapshotKeepErr, BodyStream.bytes, replayPieces_flatten]
  · refine ⟨rfl, ⟨ps.flatten, ?_⟩, fun h => by cases h⟩
    simp [wrapBody, wrapBodyWith, snapshotKeepErr, BodyStream.bytes]

/-- the body on the wire after a wrapper that keeps the terminal condition and invents no byte: a body
    that ended with an error never reads back as complete under a framing that can tell -/
theorem torn_never_complete_through (w : BodyStream → BodyStream) (hw : Transparent w) (fr : Framing) (b : BodyStream)
    (hfr : fr ≠ .eof) (herr : b.ending = .err) (hne : ∀ p ∈ (w b).pieces, p ≠ [])
    (hcl : ∀ n, fr = .cl n → b.bytes.length < n) :
    bodyParsesComplete fr (relayBodyWire fr (w b)) = false := by
  obtain ⟨he, ⟨t, ht⟩, _⟩ := hw b
  have hend : relayEnd (w b).ending = .abort := by rw [he, herr]; rfl
  cases fr with
  | eof => exact absurd rfl hfr
  | chunked =>
    simp [bodyParsesComplete, relayBodyWire, hend, handlerBodyWire, decodeChunked_unterminated _ hne]
  | cl n =>
    have hl := congrArg List.length ht
    simp only [List.length_append] at hl
    have := hcl n rfl
    simp only [bodyParsesComplete, relayBodyWire, handlerBodyWire]
    have hb : (w b).pieces.flatten.length = (w b).bytes.length := rfl
    exact decide_eq_false (by omega)

/-! ### the exchange level -/

theorem bodyCutObs_congr (ex : Exchange) (k : Nat) (r : Bool) (l1 l2 : Nat) (h : k - l1 = k - l2) :
    bodyCutObs ex k r l1 = bodyCutObs ex k r l2 := by
  simp only [bodyCutObs, h]

theorem loggedFault_wf (m : LogMode) (f : Fault) (ex : Exchange) (h : f.wf ex = true) : (loggedFault m f).wf ex = true := by
  cases f with
  | bodyCut k r lost =>
    cases m <;> try exact h
    simp only [loggedFault, Fault.wf, Bool.and_eq_true, decide_eq_true_eq] at h ⊢
    exact ⟨h.1, Nat.le_refl k, h.2.2⟩
  | _ => cases m <;> exact h

theorem loggedFault_rejectionStatus (m : LogMode) (f : Fault) : (loggedFault m f).rejectionStatus = f.rejectionStatus := by
  cases f <;> cases m <;> rfl

theorem originBody_ending_err {ex : Exchange} (hne : ex.framing ≠ .eof) (k : Nat) (r : Bool) :
    (originBody ex k r).ending = .err := by
  unfold originBody
  cases hf : ex.framing with
  | eof => exact absurd hf hne
  | cl n => simp
  | chunked => simp

theorem clientStreamLogged_eq (m : LogMode) (f : Fault) (ex : Exchange) :
    clientStreamLogged m f ex = clientStream (loggedFault m f) ex := by
  cases f with
  | bodyCut k r lost =>
    have hcs : ∀ l, clientStream (.bodyCut k r l) ex = if ex.kind == .connect then okObs ex else bodyCutObs ex k r l := by
      intro l; simp [clientStream, faultErr]
    have hlen := tornPieces_length k
    by_cases hc : (ex.kind == ReqKind.connect) = true
    · cases m <;> simp [clientStreamLogged, clientStreamLoggedWith, loggedFault, hcs, hc]
    · have hc' : (ex.kind == ReqKind.connect) = false := by simpa using hc
      have hbody : clientStreamLogged .body (.bodyCut k r lost) ex = bodyCutObs ex k r k := by
        simp only [clientStreamLogged, clientStreamLoggedWith, hc', Bool.false_eq_true, if_false, loggedBodyCutWith,
          wrapBodyWith, snapshotKeepErr, originBody]
        cases hf : ex.framing <;> cases r <;>
          simp [BodyStream.bytes, replayPieces_flatten, hlen, replayedObs, bodyCutObs, hf]
      have hbytes : (originBody ex k r).bytes.length = k := hlen
      have hother : ∀ m', m' ≠ LogMode.body → clientStreamLogged m' (.bodyCut k r lost) ex = bodyCutObs ex k r lost := by
        intro m' hm
        have hw : wrapBodyWith snapshotKeepErr m' (originBody ex k r) = originBody ex k r := by
          cases m' <;> first | rfl | exact absurd rfl hm
        simp only [clientStreamLogged, clientStreamLoggedWith, hc', Bool.false_eq_true, if_false, loggedBodyCutWith, hw]
        cases he : (originBody ex k r).ending with
        | err =>
          simp only [hbytes]
          exact bodyCutObs_congr _ _ _ _ _ (by omega)
        | clean =>
          simp only [hbytes]
          cases hf : ex.framing <;> cases r <;> simp [originBody, hf] at he
          simp [replayedObs, bodyCutObs, hf]
      cases m with
      | body => rw [hbody]; simp [loggedFault, hcs, hc']
      | none => rw [hother _ (by decide)]; simp [loggedFault, hcs, hc']
      | shortURL => rw [hother _ (by decide)]; simp [loggedFault, hcs, hc']
      | url => rw [hother _ (by decide)]; simp [loggedFault, hcs, hc']
      | headers => rw [hother _ (by decide)]; simp [loggedFault, hcs, hc']
      | errors => rw [hother _ (by decide)]; simp [loggedFault, hcs, hc']
  | _ => cases m <;> rfl

end C12
end FwdVerif
