/-
  C11 — helper lemmas (part 6): tunnels.  A third, small invariant: a socket is closed under a
  handler that has not closed it itself only by `Close` (the forced close); only a CONNECT is ever in
  the tunnel state; round trips are relayed only through a tunnel.
-/
import FwdVerif.Lemmas.C11Ctx

namespace FwdVerif
namespace C11

/-- the handler has run its own `defer conn.Close()` -/
def selfClosed : PC → Bool
  | .counterDec => true
  | p => pastDec p

/-- states of a connection whose CONNECT was answered 200: copying, or on its way out -/
def tunPath : PC → Bool
  | .tunnel | .deferredClose | .counterDec | .waitingForLockUnreg | .lockedUnreg | .deleted
  | .unregistered => true
  | _ => false

/-- the tunnel invariant of one connection, relative to "`Close` has started its sweep" -/
structure TunLocal (forced : Bool) (x : Conn) : Prop where
  sock : x.sockClosed = true → selfClosed x.pc = true ∨ forced = true
  tun : x.pc = .tunnel → x.cur.connect = true
  relayed : x.relayUnseen ≠ 0 → x.cur.connect = true ∧ tunPath x.pc = true

theorem TunLocal.default (f : Bool) : TunLocal f {} := by
  constructor <;> simp

theorem TunLocal.mono {f f' : Bool} {x : Conn} (hf : f = true → f' = true) (h : TunLocal f x) :
    TunLocal f' x := by
  refine ⟨fun hs => ?_, h.tun, h.relayed⟩
  rcases h.sock hs with h1 | h1
  · exact Or.inl h1
  · exact Or.inr (hf h1)

theorem cstep_tun {cl lf f : Bool} {y x : Conn} {a : CAct} {e : Eff}
    (h : cstep cl lf y a = some (x, e)) (hl : TunLocal f y) : TunLocal f x := by
  obtain ⟨h1, h2, h3⟩ := hl
  cstep_cases h <;> cases cl <;> constructor <;>
    simp_all [selfClosed, pastDec, tunPath]

structure TunInv (s : State) : Prop where
  loc : ∀ c, TunLocal (closeClosed s.close) (s.conns c)

theorem tuninv_init : TunInv init := ⟨fun _ => TunLocal.default _⟩

theorem tuninv_initNoLimit : TunInv initNoLimit := ⟨fun _ => TunLocal.default _⟩

theorem tuninv_step {s s' : State} (a : Action) (hi : TunInv s) (h : step s a = some s') : TunInv s' := by
  cases a with
  | conn c a =>
    obtain ⟨x, e, hc, rfl⟩ := step_conn_eq h
    have hx := cstep_tun hc (hi.loc c)
    refine ⟨fun d => ?_⟩
    have hd := hi.loc d
    by_cases hdc : d = c
    · subst hdc; cases e <;> simpa [applyEff, setConn] using hx
    · cases e <;> simpa [applyEff, setConn, hdc] using hd
  | _ =>
    simp only [step] at h
    repeat' split at h
    all_goals first
      | (simp at h; done)
      | (simp only [Option.some.injEq] at h; subst h
         refine ⟨fun d => ?_⟩
         have hd := hi.loc d
         obtain ⟨h1, h2, h3⟩ := hd
         constructor <;> (try simp only [setConn, closeListener]) <;> (repeat' split) <;>
           simp_all [closeClosed, selfClosed, pastDec, tunPath])

theorem tuninv_reachable {s : State} (h : Reachable s) : TunInv s := by
  induction h with
  | init => exact tuninv_init
  | initNoLimit => exact tuninv_initNoLimit
  | step a _ hs ih => exact tuninv_step a ih hs

end C11
end FwdVerif
