/-
  C11 — helper lemmas (part 6): tunnels.  A third, small invariant: a socket is closed under a
  handler that has not closed it itself only by `Close` (the forced close); only a CONNECT is ever in
  the tunnel state; round trips are relayed only through a tunnel.
-/
import FwdVerif.Lemmas.C11Ctx

namespace FwdVerif
namespace C11

/-- the handler has run its own `defer conn.Close()` -/
def selfClosed : PC → Bool
  | .counterDec => true
  | p => pastDec p

/-- states of a connection whose CONNECT was answered 200: copying, or on its way out -/
def tunPath : PC → Bool
  | .tunnel | .deferredClose | .closingSock | .counterDec | .waitingForLockUnreg | .lockedUnreg | .deleted
  | .unregistered => true
  | _ => false

/-- the tunnel invariant of one connection, relative to "`Close` has started its sweep" -/
structure TunLocal (forced : Bool) (x : Conn) : Prop where
  sock : x.sockClosed = true → selfClosed x.pc = true ∨ forced = true
  tun : x.pc = .tunnel → x.cur.connect = true
  relayed : x.relayUnseen ≠ 0 → x.cur.connect = true ∧ tunPath x.pc = true

theorem TunLocal.default (f : Bool) : TunLocal f {} := by
  constructor <;> simp

theorem TunLocal.mono {f f' : Bool} {x : Conn} (hf : f = true → f' = true) (h : TunLocal f x) :
    TunLocal f' x := by
  refine ⟨fun hs => ?_, h.tun, h.relayed⟩
  rcases h.sock hs with h1 | h1
  · exact Or.inl h1
  · exact Or.inr (hf h1)

theorem cstep_tun {cl lf f : Bool} {y x : Conn} {a : CAct} {e : Eff}
    (h : cstep cl lf y a = some (x, e)) (hl : TunLocal f y) : TunLocal f x := by
  obtain ⟨h1, h2, h3⟩ := hl
  cstep_cases h <;> cases cl <;> constructor <;>
    simp_all [selfClosed, pastDec, tunPath]

/-- `Close` starts its walk over the map only in `closeCloseCh`; the ghost flag never goes back -/
theorem step_everClosed {s s' : State} (a : Action) (h : step s a = some s') :
    (s'.everClosed = s.everClosed ∧ ∀ k, a ≠ .closeCloseCh k) ∨ (∃ k, a = .closeCloseCh k ∧ s'.everClosed = true) := by
  cases a with
  | conn c a =>
    left
    obtain ⟨x, e, _, rfl⟩ := step_conn_eq h
    exact ⟨by cases e <;> rfl, by intro k; simp⟩
  | closeCloseCh k =>
    right
    simp only [step] at h
    split at h
    · cases h; exact ⟨k, rfl, rfl⟩
    · simp at h
  | _ =>
    left
    simp only [step] at h
    repeat' split at h
    all_goals first
      | (simp at h; done)
      | (simp only [Option.some.injEq] at h; subst h
         refine ⟨?_, by intro k; simp⟩
         first | rfl | (simp only [closeListener, setConn]; done) | (split <;> rfl))

/-- a call of `Close` that has started its walk over the map stays past that point -/
theorem step_closeClosed_mono {s s' : State} (a : Action) (k : CallId) (h : step s a = some s')
    (hc : closeClosed (s.closes k) = true) : closeClosed (s'.closes k) = true := by
  by_cases ho : a.closeOf = some k
  · cases a <;> simp only [Action.closeOf, Option.some.injEq, reduceCtorEq] at ho <;> subst ho <;>
      simp only [step] at h <;> (repeat' split at h) <;>
      first
        | (simp at h; done)
        | (simp only [Option.some.injEq] at h; subst h
           simp_all [setClose, closeClosed])
  · rw [step_closes_other a k h ho]; exact hc

/-- the ghost flag `everClosed` says what its name says -/
structure EverInv (s : State) : Prop where
  ever : ∀ k, closeClosed (s.closes k) = true → s.everClosed = true
  everEx : s.everClosed = true → ∃ k, closeClosed (s.closes k) = true

theorem everinv_initCfg (nl : Bool) (sg : List Sig) : EverInv (initCfg nl sg) := by
  constructor <;> simp [initCfg, closeClosed]

theorem everinv_step {s s' : State} (a : Action) (hi : EverInv s) (h : step s a = some s') : EverInv s' := by
  have hev := step_everClosed a h
  constructor
  · intro k hk
    rcases hev with ⟨he, hne⟩ | ⟨j, _, he⟩
    · rw [he]
      by_cases ho : a.closeOf = some k
      · have hk0 := hi.ever k
        revert hk
        cases a <;> simp only [Action.closeOf, Option.some.injEq, reduceCtorEq] at ho <;> subst ho <;>
          simp only [step] at h <;> (repeat' split at h) <;>
          first
            | (simp at h; done)
            | (exact absurd rfl (hne _))
            | (simp only [Option.some.injEq] at h; subst h
               simp_all [setClose, closeClosed])
      · rw [step_closes_other a k h ho] at hk; exact hi.ever k hk
    · exact he
  · intro he'
    rcases hev with ⟨he, _⟩ | ⟨j, ha, _⟩
    · rw [he] at he'
      obtain ⟨k, hk⟩ := hi.everEx he'
      exact ⟨k, step_closeClosed_mono a k h hk⟩
    · subst ha
      simp only [step] at h
      split at h
      · cases h; exact ⟨j, by simp [setClose, closeClosed]⟩
      · simp at h

theorem everinv_reachable {s : State} (h : Reachable s) : EverInv s := by
  induction h with
  | start nl sg => exact everinv_initCfg nl sg
  | step a _ hs ih => exact everinv_step a ih hs

structure TunInv (s : State) : Prop where
  loc : ∀ c, TunLocal s.everClosed (s.conns c)

theorem tuninv_initCfg (nl : Bool) (sg : List Sig) : TunInv (initCfg nl sg) := ⟨fun _ => TunLocal.default _⟩

theorem tuninv_step {s s' : State} (a : Action) (he : EverInv s) (hi : TunInv s) (h : step s a = some s') :
    TunInv s' := by
  cases a with
  | conn c a =>
    obtain ⟨x, e, hc, rfl⟩ := step_conn_eq h
    have hx := cstep_tun hc (hi.loc c)
    refine ⟨fun d => ?_⟩
    have hd := hi.loc d
    by_cases hdc : d = c
    · subst hdc; cases e <;> simpa [applyEff, setConn] using hx
    · cases e <;> simpa [applyEff, setConn, hdc] using hd
  | closeConn k c =>
    simp only [step] at h
    split at h
    · rename_i hg; cases h
      have hev := he.ever k (by simp [hg.1, closeClosed])
      refine ⟨fun d => ?_⟩
      have hd := hi.loc d
      obtain ⟨h1, h2, h3⟩ := hd
      constructor <;> (try simp only [setConn, sweepClose]) <;> (repeat' split) <;>
        simp_all [selfClosed, pastDec, tunPath]
    · simp at h
  | _ =>
    simp only [step] at h
    repeat' split at h
    all_goals first
      | (simp at h; done)
      | (simp only [Option.some.injEq] at h; subst h
         refine ⟨fun d => ?_⟩
         have hd := hi.loc d
         obtain ⟨h1, h2, h3⟩ := hd
         constructor <;> (try simp only [setConn, closeListener, setShut, setClose]) <;> (repeat' split) <;>
           simp_all [selfClosed, pastDec, tunPath])

theorem tuninv_reachable {s : State} (h : Reachable s) : TunInv s := by
  induction h with
  | start nl sg => exact tuninv_initCfg nl sg
  | step a hr hs ih => exact tuninv_step a (everinv_reachable hr) ih hs

end C11
end FwdVerif
