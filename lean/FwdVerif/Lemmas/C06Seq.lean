/-
  C06 — helper lemmas for the PAC-credential lookup over request sequences (core Lean only).

  §1 `net.JoinHostPort h p` has the explicit port `p` (`url.Port()`), so `MatchURL` goes straight to `Match`
  §2 what `pacAnswer` returns is such a joined host:port
  §3 the instance fold is pointwise; memoised lookups restricted to a class of proxy URLs
  §4 tables with exact entries for one or two proxies
-/
import FwdVerif.Lemmas.C06

namespace FwdVerif
namespace C06

open Ascii Req
open C05 (ProxyURL PacResult PacProxy pacAnswer pacFirst parseProxy validPort validHost memoRun assoc InstState)

/-! ## §1 -/

theorem indexOfByte_append_cons (c : UInt8) (a b : Bytes) (ha : ∀ x ∈ a, (x == c) = false) :
    indexOfByte c (a ++ c :: b) = some a.length := by
  induction a with
  | nil => simp [indexOfByte]
  | cons x xs ih =>
    have hx : (x == c) = false := ha x List.mem_cons_self
    have := ih (fun y hy => ha y (List.mem_cons_of_mem _ hy))
    simp only [List.cons_append, indexOfByte, hx, this, Option.map_some, List.length_cons]
    rfl

theorem lastIndexOfByte_append_cons (c : UInt8) (pre p : Bytes) (hp : ∀ x ∈ p, (x == c) = false) :
    lastIndexOfByte c (pre ++ c :: p) = some pre.length := by
  unfold lastIndexOfByte
  have hr : (pre ++ c :: p).reverse = p.reverse ++ c :: pre.reverse := by simp
  rw [hr, indexOfByte_append_cons c p.reverse pre.reverse (fun x hx => hp x (List.mem_reverse.mp hx))]
  simp only [Option.map_some, List.length_append, List.length_cons, List.length_reverse, Option.some.injEq]
  omega

theorem digit_ne_colon {x : UInt8} (h : isDigit x = true) : (x == 58) = false := by
  unfold isDigit at h
  simp only [Bool.and_eq_true, decide_eq_true_eq] at h
  cases hx : (x == 58) with
  | false => rfl
  | true =>
    have : x = 58 := by simpa using hx
    subst this
    exact absurd h.2 (by decide)

/-- `url.Port()` of `pre:port` with an all-digit port is that port -/
theorem urlPort_append_port (pre p : Bytes) (hd : p.all isDigit = true) : urlPort (pre ++ 58 :: p) = p := by
  have hp : ∀ x ∈ p, (x == 58) = false := fun x hx => digit_ne_colon (List.all_eq_true.mp hd x hx)
  unfold urlPort urlSplitHostPort
  rw [lastIndexOfByte_append_cons 58 pre p hp]
  have h1 : (pre ++ 58 :: p).drop pre.length = 58 :: p := by simp
  have h2 : (pre ++ 58 :: p).drop (pre.length + 1) = p := by
    rw [← List.drop_drop, h1]; rfl
  simp only [h1, h2, validOptionalPort, hd, beq_self_eq_true, Bool.and_self, if_true]

theorem join_shape (h p : Bytes) : ∃ pre, netJoinHostPort h p = pre ++ 58 :: p := by
  unfold netJoinHostPort
  split
  · exact ⟨[91] ++ h ++ [93], by simp⟩
  · exact ⟨h, by simp⟩

theorem validPort_digits {p : Bytes} (h : validPort p = true) : p ≠ [] ∧ p.all isDigit = true := by
  unfold validPort at h
  simp only [Bool.and_eq_true, Bool.not_eq_true', List.isEmpty_eq_false_iff] at h
  exact ⟨h.1.1, h.1.2⟩

/-- a joined `host:port` with a decimal port has that explicit port -/
theorem urlPort_join {h p : Bytes} (hp : validPort p = true) : (urlPort (netJoinHostPort h p)).isEmpty = false := by
  obtain ⟨hne, hd⟩ := validPort_digits hp
  obtain ⟨pre, hj⟩ := join_shape h p
  rw [hj, urlPort_append_port pre p hd]
  cases p with
  | nil => exact absurd rfl hne
  | cons _ _ => rfl

/-- for such a proxy `MatchURL` is `Match` on its host:port, whatever the scheme -/
theorem pacLookup_join (t : Option CredTable) (s : Bytes) {h p : Bytes} (hp : validPort p = true) :
    pacLookup t { scheme := s, host := netJoinHostPort h p } = matchHostport t (netJoinHostPort h p) := by
  unfold pacLookup matchURL matchHostport
  cases t with
  | none => rfl
  | some t =>
    simp only []
    unfold CredTable.matchURL
    simp [urlPort_join hp]

/-! ## §2 -/

theorem parseProxy_valid {s : Bytes} {e : PacProxy} (h : parseProxy s = some (some e)) :
    validHost e.host = true ∧ validPort e.port = true := by
  unfold parseProxy at h
  simp only [] at h
  split at h
  · cases h
  · split at h
    · cases h
    · split at h
      · cases h
      · split at h
        · cases h
        · rename_i hh pp _
          split at h
          · cases h
          · rename_i hvh
            split at h
            · cases h
            · rename_i hvp
              simp only [Option.some.injEq] at h
              subst h
              simp only [Bool.not_eq_true, Bool.not_eq_false'] at hvh hvp
              exact ⟨by simpa using hvh, by simpa using hvp⟩

/-- every proxy URL `pacProxy` hands on is `scheme://host:port` with a non-empty host without blanks
    and a decimal port ≤ 65535 -/
theorem pacAnswer_shape {r : PacResult} {u : ProxyURL} (h : pacAnswer r = .ok (some u)) :
    ∃ hst prt, u.host = netJoinHostPort hst prt ∧ validHost hst = true ∧ validPort prt = true ∧ u.user = none := by
  unfold pacAnswer at h
  cases r with
  | fail => cases h
  | ok s =>
    simp only [] at h
    split at h
    · cases h
    · split at h
      · cases h
      · cases h
      · rename_i e hf
        split at h
        · cases h
        · simp only [Except.ok.injEq] at h
          unfold PacProxy.url at h
          split at h
          · cases h
          · simp only [Option.some.injEq] at h
            subst h
            unfold pacFirst at hf
            split at hf
            · cases hf
            · obtain ⟨hv1, hv2⟩ := parseProxy_valid hf
              exact ⟨e.host, e.port, rfl, hv1, hv2, rfl⟩

/-! ## §3 -/

theorem pacCredSeq_eq_map (t : Option CredTable) (st : InstState) (rs : List PacResult) :
    pacCredSeq t st rs = rs.map (pacSelect t) := by
  induction rs generalizing st with
  | nil => rfl
  | cons r rs ih => simp only [pacCredSeq, pacCredStep, List.map_cons, ih]

/-- `memoRun_eq_map` over a class `P` of inputs: the cache is harmless on sequences of `P`-inputs
    when equal keys of `P`-inputs mean equal answers -/
theorem memoRun_eq_map_on {α β κ : Type} [DecidableEq κ] {key : α → κ} {keep : β → Bool} {f : α → β} (P : α → Prop)
    (hs : ∀ q q', P q → P q' → key q = key q' → keep (f q) = true → f q' = f q)
    (cache : List (κ × β)) (hinv : ∀ e ∈ cache, ∃ q, P q ∧ key q = e.1 ∧ f q = e.2 ∧ keep e.2 = true)
    (qs : List α) (hP : ∀ q ∈ qs, P q) : memoRun key keep f cache qs = qs.map f := by
  induction qs generalizing cache with
  | nil => rfl
  | cons q qs ih =>
    have hq : P q := hP q List.mem_cons_self
    have hqs : ∀ x ∈ qs, P x := fun x hx => hP x (List.mem_cons_of_mem _ hx)
    unfold memoRun
    cases ha : assoc (key q) cache with
    | some b =>
      simp only [List.map_cons]
      obtain ⟨q0, hp0, hk, hf, hkeep⟩ := hinv _ (C05.assoc_some_mem ha)
      simp only at hk hf hkeep
      have : f q = b := by
        rw [← hf]
        exact hs q0 q hp0 hq hk (by rw [hf]; exact hkeep)
      rw [this, ih cache hinv hqs]
    | none =>
      simp only [List.map_cons]
      congr 1
      apply ih _ _ hqs
      cases hk : keep (f q) with
      | false => simpa using hinv
      | true =>
        simp only [if_true]
        intro e he
        rcases List.mem_cons.mp he with he | he
        · subst he; exact ⟨q, hq, rfl, rfl, hk⟩
        · exact hinv e he

/-! ## §4 -/

/-- a table that holds exact `host:port` entries only answers with the entry or with nothing -/
theorem matchHostport_exact_only (hpl : List (Bytes × Cred)) (k : Bytes) :
    CredTable.matchHostport { hostport := hpl } k = hpl.lookup k := by
  unfold CredTable.matchHostport
  cases hpl.lookup k with
  | some c => rfl
  | none =>
    simp only []
    cases netSplitHostPort k with
    | none => rfl
    | some hp => rfl

theorem addEntry_exact {t : CredTable} {e : CredEntry} (hv : e.valid = true) (hs : e.host ≠ star) (hz : e.port ≠ zero)
    (hfree : t.hostport.lookup (netJoinHostPort e.host e.port) = none) :
    addEntry t e = some { t with hostport := t.hostport ++ [(netJoinHostPort e.host e.port, e.cred)] } := by
  unfold addEntry
  have h1 : (e.host == star) = false := by simpa using hs
  have h2 : (e.port == zero) = false := by simpa using hz
  simp [hv, h1, h2, hfree]

theorem validHost_ne_nil {h : Bytes} (hv : validHost h = true) : h ≠ [] := by
  unfold validHost at hv
  simp only [Bool.and_eq_true, Bool.not_eq_true', List.isEmpty_eq_false_iff] at hv
  exact hv.1

theorem buildTable_exact1 (e : CredEntry) (hv : e.valid = true) (hs : e.host ≠ star) (hz : e.port ≠ zero) :
    buildTable [e] = some (some { hostport := [(netJoinHostPort e.host e.port, e.cred)] }) := by
  unfold buildTable
  simp only [List.isEmpty_cons, Bool.false_eq_true, if_false, List.foldlM_cons, List.foldlM_nil]
  rw [addEntry_exact hv hs hz rfl]
  rfl

theorem buildTable_exact2 (e e' : CredEntry) (hv : e.valid = true) (hs : e.host ≠ star) (hz : e.port ≠ zero)
    (hv' : e'.valid = true) (hs' : e'.host ≠ star) (hz' : e'.port ≠ zero)
    (hne : netJoinHostPort e.host e.port ≠ netJoinHostPort e'.host e'.port) :
    buildTable [e, e'] = some (some { hostport := [(netJoinHostPort e.host e.port, e.cred),
                                                   (netJoinHostPort e'.host e'.port, e'.cred)] }) := by
  unfold buildTable
  simp only [List.isEmpty_cons, Bool.false_eq_true, if_false, List.foldlM_cons, List.foldlM_nil]
  rw [addEntry_exact hv hs hz rfl]
  simp only [Option.bind_eq_bind, Option.bind_some]
  rw [addEntry_exact hv' hs' hz' (by
    have : (netJoinHostPort e'.host e'.port == netJoinHostPort e.host e.port) = false := by
      simpa using fun h => hne h.symm
    simp [List.lookup, this])]
  rfl

/-- the lookup for a proxy whose `Host` is a joined host:port with a decimal port -/
theorem pacLookup_of_host (t : Option CredTable) {u : ProxyURL} {h p : Bytes} (hh : u.host = netJoinHostPort h p)
    (hp : validPort p = true) : pacLookup t u = matchHostport t (netJoinHostPort h p) := by
  have : pacLookup t u = pacLookup t { scheme := u.scheme, host := netJoinHostPort h p } := by
    unfold pacLookup; simp only [hh]
  rw [this, pacLookup_join t u.scheme hp]

end C06
end FwdVerif
