/-
  The wire towards one endpoint as a merge of several writers (Model/H2Relay.lean, last section):
  when every writer's elements are whole and the lock is held per element, RFC 7540 §6.10 holds of
  every merge.  `QFrame.send` is whole for every queued element; every frame the relay writes
  directly is an element of its own.  Core-only.
-/
import FwdVerif.Lemmas.H2Flow

namespace FwdVerif
namespace H2

variable {α : Type}

theorem wireScan_append (blk : Option Nat) (a b : List (Frame α)) :
    wireScan blk (a ++ b) = (wireScan blk a).bind fun blk' => wireScan blk' b := by
  induction a generalizing blk with
  | nil => rfl
  | cons f t ih =>
    simp only [List.cons_append, wireScan]
    cases wireStep blk f with
    | none => rfl
    | some blk' => exact ih blk'

/-- CONTINUATION frames of a block close it -/
theorem contFrames_scan (s : Nat) (cs : List (List α)) (h : cs ≠ []) :
    wireScan (some s) (contFrames s cs) = some none := by
  induction cs with
  | nil => exact absurd rfl h
  | cons c t ih =>
    cases t with
    | nil => simp [contFrames, wireScan, wireStep]
    | cons c2 t2 =>
      simp only [contFrames, wireScan, wireStep, if_true]
      exact ih (by simp)

/-- every queued element goes out whole: a header block opens with HEADERS / PUSH_PROMISE and its
    CONTINUATION frames, all on its stream, close it -/
theorem send_whole (q : QFrame α) : wireScan none q.send = some none := by
  cases q with
  | data s e p => rfl
  | headers s e p chunks n =>
    cases chunks with
    | nil => rfl
    | cons c cs =>
      cases cs with
      | nil => rfl
      | cons c2 t =>
        simp only [QFrame.send, wireScan, wireStep, List.length_cons]
        have : (t.length + 1 == 0) = false := by simp
        simp only [this]
        exact contFrames_scan s (c2 :: t) (by simp)
  | push s pr chunks n =>
    cases chunks with
    | nil => rfl
    | cons c cs =>
      cases cs with
      | nil => rfl
      | cons c2 t =>
        simp only [QFrame.send, wireScan, wireStep, List.length_cons]
        have : (t.length + 1 == 0) = false := by simp
        simp only [this]
        exact contFrames_scan s (c2 :: t) (by simp)
  | priority s p => rfl
  | rst s c => rfl

theorem single_whole (f : Frame α) (h : f.single = true) : wireScan none [f] = some none := by
  cases f with
  | headers s e eh p fr => simp only [Frame.single] at h; subst h; rfl
  | pushPromise s pr eh fr => simp only [Frame.single] at h; subst h; rfl
  | continuation s eh fr => simp [Frame.single] at h
  | data s e p => rfl
  | priority s p => rfl
  | rst s c => rfl
  | settings kvs => rfl
  | settingsAck => rfl
  | ping a d => rfl
  | goAway l c d => rfl
  | windowUpdate s i => rfl

/-- all elements of all producers are whole -/
def AllWhole (ps : List (Producer α)) : Prop := ∀ p ∈ ps, ∀ e ∈ p, wireScan none e = some none

theorem popAt_whole {ps : List (Producer α)} (h : AllWhole ps) {i : Nat} {e : List (Frame α)} {ps' : List (Producer α)}
    (hp : popAt ps i = some (e, ps')) : wireScan none e = some none ∧ AllWhole ps' := by
  induction ps generalizing i ps' with
  | nil => simp [popAt] at hp
  | cons p rest ih =>
    cases i with
    | zero =>
      cases p with
      | nil => simp [popAt] at hp
      | cons e0 es =>
        simp only [popAt, Option.some.injEq, Prod.mk.injEq] at hp
        obtain ⟨he, hps⟩ := hp
        subst he; subst hps
        refine ⟨h _ List.mem_cons_self _ List.mem_cons_self, ?_⟩
        intro q hq x hx
        rcases List.mem_cons.mp hq with hq | hq
        · subst hq; exact h _ List.mem_cons_self x (List.mem_cons_of_mem _ hx)
        · exact h q (List.mem_cons_of_mem _ hq) x hx
    | succ j =>
      simp only [popAt] at hp
      cases hr : popAt rest j with
      | none => simp [hr] at hp
      | some r =>
        obtain ⟨e1, ps1⟩ := r
        simp only [hr, Option.some.injEq, Prod.mk.injEq] at hp
        obtain ⟨he, hps⟩ := hp
        subst he; subst hps
        have hrest : AllWhole rest := fun q hq x hx => h q (List.mem_cons_of_mem _ hq) x hx
        obtain ⟨h1, h2⟩ := ih hrest hr
        refine ⟨h1, ?_⟩
        intro q hq x hx
        rcases List.mem_cons.mp hq with hq | hq
        · subst hq; exact h _ List.mem_cons_self x hx
        · exact h2 q hq x hx

/-- **locking per element**: whatever order the lock is granted in, no block is open between two
    elements and none is broken into -/
theorem mergeBy_whole (sched : List Nat) (ps : List (Producer α)) (h : AllWhole ps) :
    wireScan none (mergeBy sched ps) = some none := by
  induction sched generalizing ps with
  | nil => rfl
  | cons i t ih =>
    simp only [mergeBy]
    cases hp : popAt ps i with
    | none => exact ih ps h
    | some r =>
      obtain ⟨e, ps'⟩ := r
      obtain ⟨he, hps'⟩ := popAt_whole h hp
      simp only [wireScan_append, he, Option.bind_some]
      exact ih ps' hps'

theorem popAt_mem {ps : List (Producer α)} {i : Nat} {e : List (Frame α)} {ps' : List (Producer α)}
    (hp : popAt ps i = some (e, ps')) :
    (∃ p ∈ ps, e ∈ p) ∧ ∀ p' ∈ ps', ∀ x ∈ p', ∃ p ∈ ps, x ∈ p := by
  induction ps generalizing i ps' with
  | nil => simp [popAt] at hp
  | cons p rest ih =>
    cases i with
    | zero =>
      cases p with
      | nil => simp [popAt] at hp
      | cons e0 es =>
        simp only [popAt, Option.some.injEq, Prod.mk.injEq] at hp
        obtain ⟨he, hps⟩ := hp
        subst he; subst hps
        refine ⟨⟨_, List.mem_cons_self, List.mem_cons_self⟩, ?_⟩
        intro p' hp' x hx
        rcases List.mem_cons.mp hp' with h | h
        · subst h; exact ⟨_, List.mem_cons_self, List.mem_cons_of_mem _ hx⟩
        · exact ⟨p', List.mem_cons_of_mem _ h, hx⟩
    | succ j =>
      simp only [popAt] at hp
      cases hr : popAt rest j with
      | none => simp [hr] at hp
      | some r =>
        obtain ⟨e1, ps1⟩ := r
        simp only [hr, Option.some.injEq, Prod.mk.injEq] at hp
        obtain ⟨he, hps⟩ := hp
        subst he; subst hps
        obtain ⟨⟨p0, hp0, he0⟩, h2⟩ := ih hr
        refine ⟨⟨p0, List.mem_cons_of_mem _ hp0, he0⟩, ?_⟩
        intro p' hp' x hx
        rcases List.mem_cons.mp hp' with h | h
        · subst h; exact ⟨_, List.mem_cons_self, hx⟩
        · obtain ⟨q, hq, hxq⟩ := h2 p' h x hx
          exact ⟨q, List.mem_cons_of_mem _ hq, hxq⟩

/-- the wire is the concatenation of unsplit elements of the producers -/
theorem mergeBy_flatten (sched : List Nat) (ps : List (Producer α)) :
    mergeBy sched ps = (mergeElems sched ps).flatten ∧
    ∀ e ∈ mergeElems sched ps, ∃ p ∈ ps, e ∈ p := by
  induction sched generalizing ps with
  | nil => exact ⟨rfl, by intro e he; simp [mergeElems] at he⟩
  | cons i t ih =>
    simp only [mergeBy, mergeElems]
    cases hp : popAt ps i with
    | none => exact ih ps
    | some r =>
      obtain ⟨e, ps'⟩ := r
      obtain ⟨h1, h2⟩ := ih ps'
      obtain ⟨hm, hrest⟩ := popAt_mem hp
      refine ⟨by simp [h1], ?_⟩
      intro x hx
      rcases List.mem_cons.mp hx with hx | hx
      · subst hx; exact hm
      · obtain ⟨p', hp', hxp⟩ := h2 x hx
        exact hrest p' hp' x hxp

/-- everything `processFrame` writes directly is a frame that stands alone -/
theorem process_direct_single (d o : Dir α) (ord : Nat → List Nat) (op : Op α) :
    (∀ f ∈ (process d o ord op).2.2.fwdDirect, f.single = true) ∧
    (∀ f ∈ (process d o ord op).2.2.backDirect, f.single = true) := by
  cases op with
  | data sid payload pad es =>
    refine ⟨by intro f hf; simp [H2.process] at hf, ?_⟩
    intro f hf
    simp only [H2.process] at hf
    have : ∀ n : Nat, f ∈ (if n = 0 then ([] : List (Frame α)) else [.windowUpdate 0 n, .windowUpdate sid n]) →
        f.single = true := by
      intro n hn
      split at hn
      · simp at hn
      · simp only [List.mem_cons, List.mem_nil_iff, or_false] at hn
        rcases hn with hn | hn <;> (subst hn; rfl)
    exact this _ hf
  | headers sid es eh prio frag reenc =>
    simp only [H2.process]; split <;> exact ⟨by intro f hf; simp at hf, by intro f hf; simp at hf⟩
  | continuation sid eh frag reenc =>
    simp only [H2.process]
    split
    · split <;> exact ⟨by intro f hf; simp at hf, by intro f hf; simp at hf⟩
    · exact ⟨by intro f hf; simp at hf, by intro f hf; simp at hf⟩
  | pushPromise sid promised eh frag reenc =>
    simp only [H2.process]; split <;> exact ⟨by intro f hf; simp at hf, by intro f hf; simp at hf⟩
  | priority sid prio => exact ⟨by intro f hf; simp [H2.process] at hf, by intro f hf; simp [H2.process] at hf⟩
  | rst sid code => exact ⟨by intro f hf; simp [H2.process] at hf, by intro f hf; simp [H2.process] at hf⟩
  | windowUpdate sid inc => exact ⟨by intro f hf; simp [H2.process] at hf, by intro f hf; simp [H2.process] at hf⟩
  | settings kvs =>
    exact ⟨by intro f hf; simp [H2.process] at hf; subst hf; rfl, by intro f hf; simp [H2.process] at hf⟩
  | settingsAck =>
    exact ⟨by intro f hf; simp [H2.process] at hf; subst hf; rfl, by intro f hf; simp [H2.process] at hf⟩
  | ping ack data =>
    exact ⟨by intro f hf; simp [H2.process] at hf; subst hf; rfl, by intro f hf; simp [H2.process] at hf⟩
  | goAway last code debug =>
    exact ⟨by intro f hf; simp [H2.process] at hf; subst hf; rfl, by intro f hf; simp [H2.process] at hf⟩
  | unknown typ => exact ⟨by intro f hf; simp [H2.process] at hf, by intro f hf; simp [H2.process] at hf⟩

end H2
end FwdVerif
