/-
  C14 — the pool machine: an invariant (idle and held VMs are pairwise distinct, a VM that is
  evaluating holds the request of the one caller that owns it, recorded answers are the
  sequential ones) preserved by every step.
-/
import FwdVerif.Model.C14
namespace FwdVerif
namespace C14

variable {ρ α : Type}

/-- invariant of the pool machine -/
structure PInv (f : ρ → α) (req : Nat → ρ) (s : PState ρ α) : Prop where
  free_lt : ∀ v, v ∈ s.free → v < s.next
  free_nodup : s.free.Nodup
  held_lt : ∀ c v, (s.phase c).vm? = some v → v < s.next
  held_notfree : ∀ c v, (s.phase c).vm? = some v → v ∉ s.free
  excl : ∀ c1 c2 v, (s.phase c1).vm? = some v → (s.phase c2).vm? = some v → c1 = c2
  reg_ok : ∀ c v, s.phase c = .begun v → s.reg v = some (req c)
  ans_ok : ∀ c a, (s.phase c).answer? = some a → a = some (f (req c))

theorem setPhase_self (ph : Nat → Phase α) (c : Nat) (p : Phase α) : setPhase ph c p c = p := by
  simp [setPhase]

theorem setPhase_ne (ph : Nat → Phase α) (c x : Nat) (p : Phase α) (h : x ≠ c) : setPhase ph c p x = ph x := by
  simp [setPhase, h]

theorem pinv_init (f : ρ → α) (req : Nat → ρ) : PInv f req (PState.init : PState ρ α) := by
  constructor <;> simp [PState.init, Phase.vm?, Phase.answer?]

theorem pinv_acquire_free (f : ρ → α) (req : Nat → ρ) (s : PState ρ α) (c v : Nat)
    (hi : PInv f req s) (hc : s.phase c = .idle) (hv : v ∈ s.free) :
    PInv f req { s with free := s.free.erase v, phase := setPhase s.phase c (.acquired v) } := by
  constructor <;> (try dsimp only)
  · intro w hw; exact hi.free_lt w (List.mem_of_mem_erase hw)
  · exact hi.free_nodup.erase v
  · intro x w hx
    by_cases hxc : x = c
    · subst hxc; simp [setPhase_self, Phase.vm?] at hx; subst hx; exact hi.free_lt _ hv
    · rw [setPhase_ne _ _ _ _ hxc] at hx; exact hi.held_lt x w hx
  · intro x w hx hmem
    by_cases hxc : x = c
    · subst hxc; simp [setPhase_self, Phase.vm?] at hx; subst hx
      exact ((hi.free_nodup.mem_erase_iff).mp hmem).1 rfl
    · rw [setPhase_ne _ _ _ _ hxc] at hx
      exact hi.held_notfree x w hx (List.mem_of_mem_erase hmem)
  · intro c1 c2 w h1 h2
    by_cases e1 : c1 = c <;> by_cases e2 : c2 = c
    · rw [e1, e2]
    · subst e1; simp [setPhase_self, Phase.vm?] at h1; subst h1
      rw [setPhase_ne _ _ _ _ e2] at h2
      exact absurd hv (hi.held_notfree c2 _ h2)
    · subst e2; simp [setPhase_self, Phase.vm?] at h2; subst h2
      rw [setPhase_ne _ _ _ _ e1] at h1
      exact absurd hv (hi.held_notfree c1 _ h1)
    · rw [setPhase_ne _ _ _ _ e1] at h1; rw [setPhase_ne _ _ _ _ e2] at h2
      exact hi.excl c1 c2 w h1 h2
  · intro x w hx
    by_cases hxc : x = c
    · subst hxc; simp [setPhase_self] at hx
    · rw [setPhase_ne _ _ _ _ hxc] at hx; exact hi.reg_ok x w hx
  · intro x a hx
    by_cases hxc : x = c
    · subst hxc; simp [setPhase_self, Phase.answer?] at hx
    · rw [setPhase_ne _ _ _ _ hxc] at hx; exact hi.ans_ok x a hx

theorem pinv_acquire_fresh (f : ρ → α) (req : Nat → ρ) (s : PState ρ α) (c : Nat)
    (hi : PInv f req s) (hc : s.phase c = .idle) :
    PInv f req { s with next := s.next + 1, phase := setPhase s.phase c (.acquired s.next) } := by
  constructor <;> (try dsimp only)
  · intro w hw; have := hi.free_lt w hw; show w < s.next + 1; omega
  · exact hi.free_nodup
  · intro x w hx
    show w < s.next + 1
    by_cases hxc : x = c
    · subst hxc; simp [setPhase_self, Phase.vm?] at hx; omega
    · rw [setPhase_ne _ _ _ _ hxc] at hx; have := hi.held_lt x w hx; omega
  · intro x w hx hmem
    by_cases hxc : x = c
    · subst hxc; simp [setPhase_self, Phase.vm?] at hx; subst hx
      exact Nat.lt_irrefl _ (hi.free_lt _ hmem)
    · rw [setPhase_ne _ _ _ _ hxc] at hx
      exact hi.held_notfree x w hx hmem
  · intro c1 c2 w h1 h2
    by_cases e1 : c1 = c <;> by_cases e2 : c2 = c
    · rw [e1, e2]
    · subst e1; simp [setPhase_self, Phase.vm?] at h1; subst h1
      rw [setPhase_ne _ _ _ _ e2] at h2
      exact absurd (hi.held_lt c2 _ h2) (Nat.lt_irrefl _)
    · subst e2; simp [setPhase_self, Phase.vm?] at h2; subst h2
      rw [setPhase_ne _ _ _ _ e1] at h1
      exact absurd (hi.held_lt c1 _ h1) (Nat.lt_irrefl _)
    · rw [setPhase_ne _ _ _ _ e1] at h1; rw [setPhase_ne _ _ _ _ e2] at h2
      exact hi.excl c1 c2 w h1 h2
  · intro x w hx
    by_cases hxc : x = c
    · subst hxc; simp [setPhase_self] at hx
    · rw [setPhase_ne _ _ _ _ hxc] at hx; exact hi.reg_ok x w hx
  · intro x a hx
    by_cases hxc : x = c
    · subst hxc; simp [setPhase_self, Phase.answer?] at hx
    · rw [setPhase_ne _ _ _ _ hxc] at hx; exact hi.ans_ok x a hx

/-- replacing a caller's phase by one that holds the same VM keeps every `vm?` -/
theorem vm_setPhase_same (ph : Nat → Phase α) (c : Nat) (p : Phase α) (h : p.vm? = (ph c).vm?) (x : Nat) :
    (setPhase ph c p x).vm? = (ph x).vm? := by
  by_cases hxc : x = c
  · subst hxc; rw [setPhase_self, h]
  · rw [setPhase_ne _ _ _ _ hxc]

theorem pinv_begin (f : ρ → α) (req : Nat → ρ) (s : PState ρ α) (c v : Nat)
    (hi : PInv f req s) (hc : s.phase c = .acquired v) :
    PInv f req { s with reg := setReg s.reg v (some (req c)), phase := setPhase s.phase c (.begun v) } := by
  have hv : ∀ x, (setPhase s.phase c (.begun v) x).vm? = (s.phase x).vm? :=
    vm_setPhase_same _ _ _ (by simp [hc, Phase.vm?])
  constructor <;> (try dsimp only)
  · exact hi.free_lt
  · exact hi.free_nodup
  · intro x w hx; simp only [hv] at hx; exact hi.held_lt x w hx
  · intro x w hx; simp only [hv] at hx; exact hi.held_notfree x w hx
  · intro c1 c2 w h1 h2; simp only [hv] at h1 h2; exact hi.excl c1 c2 w h1 h2
  · intro x w hx
    by_cases hxc : x = c
    · subst hxc; simp [setPhase_self] at hx; subst hx; simp [setReg]
    · simp only [setPhase_ne _ _ _ _ hxc] at hx
      have hw : w ≠ v := by
        intro e; subst e
        exact hxc (hi.excl x c w (by simp [hx, Phase.vm?]) (by simp [hc, Phase.vm?]))
      simp only [setReg, hw, if_false]
      exact hi.reg_ok x w hx
  · intro x a hx
    by_cases hxc : x = c
    · subst hxc; simp [setPhase_self, Phase.answer?] at hx
    · simp only [setPhase_ne _ _ _ _ hxc] at hx; exact hi.ans_ok x a hx

theorem pinv_finish (f : ρ → α) (req : Nat → ρ) (s : PState ρ α) (c v : Nat)
    (hi : PInv f req s) (hc : s.phase c = .begun v) :
    PInv f req { s with phase := setPhase s.phase c (.finished v ((s.reg v).map f)) } := by
  have hv : ∀ x, (setPhase s.phase c (.finished v ((s.reg v).map f)) x).vm? = (s.phase x).vm? :=
    vm_setPhase_same _ _ _ (by simp [hc, Phase.vm?])
  constructor <;> (try dsimp only)
  · exact hi.free_lt
  · exact hi.free_nodup
  · intro x w hx; simp only [hv] at hx; exact hi.held_lt x w hx
  · intro x w hx; simp only [hv] at hx; exact hi.held_notfree x w hx
  · intro c1 c2 w h1 h2; simp only [hv] at h1 h2; exact hi.excl c1 c2 w h1 h2
  · intro x w hx
    by_cases hxc : x = c
    · subst hxc; simp [setPhase_self] at hx
    · simp only [setPhase_ne _ _ _ _ hxc] at hx; exact hi.reg_ok x w hx
  · intro x a hx
    by_cases hxc : x = c
    · subst hxc
      simp [setPhase_self, Phase.answer?] at hx
      rw [← hx, hi.reg_ok x v hc]; rfl
    · simp only [setPhase_ne _ _ _ _ hxc] at hx; exact hi.ans_ok x a hx

theorem pinv_release (f : ρ → α) (req : Nat → ρ) (s : PState ρ α) (c v : Nat) (a : Option α)
    (hi : PInv f req s) (hc : s.phase c = .finished v a) :
    PInv f req { s with free := v :: s.free, phase := setPhase s.phase c (.released a) } := by
  have hcv : (s.phase c).vm? = some v := by simp [hc, Phase.vm?]
  constructor <;> (try dsimp only)
  · intro w hw
    rcases List.mem_cons.mp hw with rfl | h
    · exact hi.held_lt c _ hcv
    · exact hi.free_lt w h
  · exact List.nodup_cons.mpr ⟨hi.held_notfree c v hcv, hi.free_nodup⟩
  · intro x w hx
    by_cases hxc : x = c
    · subst hxc; simp [setPhase_self, Phase.vm?] at hx
    · rw [setPhase_ne _ _ _ _ hxc] at hx; exact hi.held_lt x w hx
  · intro x w hx hmem
    by_cases hxc : x = c
    · subst hxc; simp [setPhase_self, Phase.vm?] at hx
    · rw [setPhase_ne _ _ _ _ hxc] at hx
      rcases List.mem_cons.mp hmem with rfl | h
      · exact hxc (hi.excl x c w hx hcv)
      · exact hi.held_notfree x w hx h
  · intro c1 c2 w h1 h2
    by_cases e1 : c1 = c
    · subst e1; simp [setPhase_self, Phase.vm?] at h1
    · by_cases e2 : c2 = c
      · subst e2; simp [setPhase_self, Phase.vm?] at h2
      · rw [setPhase_ne _ _ _ _ e1] at h1; rw [setPhase_ne _ _ _ _ e2] at h2
        exact hi.excl c1 c2 w h1 h2
  · intro x w hx
    by_cases hxc : x = c
    · subst hxc; simp [setPhase_self] at hx
    · rw [setPhase_ne _ _ _ _ hxc] at hx; exact hi.reg_ok x w hx
  · intro x b hx
    by_cases hxc : x = c
    · subst hxc
      simp [setPhase_self, Phase.answer?] at hx
      exact hi.ans_ok x b (by simp [hc, Phase.answer?, hx])
    · rw [setPhase_ne _ _ _ _ hxc] at hx; exact hi.ans_ok x b hx

theorem pinv_gc (f : ρ → α) (req : Nat → ρ) (s : PState ρ α) (i : Nat) (hi : PInv f req s) :
    PInv f req { s with free := s.free.eraseIdx i } := by
  constructor <;> (try dsimp only)
  · intro w hw; exact hi.free_lt w (List.mem_of_mem_eraseIdx hw)
  · exact hi.free_nodup.sublist (List.eraseIdx_sublist _ _)
  · exact hi.held_lt
  · intro x w hx hmem; exact hi.held_notfree x w hx (List.mem_of_mem_eraseIdx hmem)
  · exact hi.excl
  · exact hi.reg_ok
  · exact hi.ans_ok

theorem pinv_step (f : ρ → α) (req : Nat → ρ) (s : PState ρ α) (op : POp) (hi : PInv f req s) :
    PInv f req (pstep f req s op) := by
  cases op with
  | acquire c choice =>
    simp only [pstep]
    cases hc : s.phase c with
    | idle =>
      simp only []
      cases hv : choice.bind (fun i => s.free[i]?) with
      | none => exact pinv_acquire_fresh f req s c hi hc
      | some v =>
        have : v ∈ s.free := by
          cases choice with
          | none => simp at hv
          | some i => exact List.mem_of_getElem? (by simpa using hv)
        exact pinv_acquire_free f req s c v hi hc this
    | _ => exact hi
  | beginEval c =>
    simp only [pstep]
    cases hc : s.phase c with
    | acquired v => exact pinv_begin f req s c v hi hc
    | _ => exact hi
  | finish c =>
    simp only [pstep]
    cases hc : s.phase c with
    | begun v => exact pinv_finish f req s c v hi hc
    | _ => exact hi
  | release c =>
    simp only [pstep]
    cases hc : s.phase c with
    | finished v a => exact pinv_release f req s c v a hi hc
    | _ => exact hi
  | gc i => exact pinv_gc f req s i hi

theorem pinv_run (f : ρ → α) (req : Nat → ρ) (ops : List POp) : PInv f req (prun f req ops) := by
  unfold prun
  have : ∀ (s : PState ρ α), PInv f req s → PInv f req (ops.foldl (pstep f req) s) := by
    induction ops with
    | nil => intro s h; exact h
    | cons op ops ih => intro s h; exact ih _ (pinv_step f req s op h)
  exact this _ (pinv_init f req)

end C14
end FwdVerif
