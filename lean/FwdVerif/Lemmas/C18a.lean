/-
  C18 — helper lemmas, part a: substrings (`isInfix`), `strings.Split(s, ",")`, OWS trimming,
  Via elements, tag shape.  Core Lean only.
-/
import FwdVerif.Model.C18
import FwdVerif.Lemmas.C16

namespace FwdVerif
namespace C18
open Ascii Req
open C16 (HMap goDel goSet goAdd Rule applyRules prefixFold)

/-! ## §1 `isInfix` is `List.IsInfix` -/

theorem isInfix_iff (a b : Bytes) : isInfix a b = true ↔ a <:+: b := by
  induction b with
  | nil =>
    simp only [isInfix, List.isEmpty_iff, List.infix_nil]
  | cons c cs ih =>
    rw [isInfix, Bool.or_eq_true, ih, List.isPrefixOf_iff_prefix, List.infix_cons_iff]

theorem isInfix_trans {a b c : Bytes} (h1 : isInfix a b = true) (h2 : isInfix b c = true) :
    isInfix a c = true :=
  (isInfix_iff a c).mpr (((isInfix_iff a b).mp h1).trans ((isInfix_iff b c).mp h2))

theorem isInfix_false_of_not {a b : Bytes} (h : ¬ a <:+: b) : isInfix a b = false := by
  cases hh : isInfix a b with
  | false => rfl
  | true => exact absurd ((isInfix_iff a b).mp hh) h


/-- closed form of `strings.Split(s, ",")` -/
def splitSpec : Bytes → List Bytes
  | [] => [[]]
  | c :: cs =>
    if c == 44 then [] :: splitSpec cs
    else match splitSpec cs with
      | h :: t => (c :: h) :: t
      | [] => [[c]]

theorem splitSpec_cons (c : UInt8) (cs : Bytes) :
    splitSpec (c :: cs) =
      if c == 44 then [] :: splitSpec cs
      else match splitSpec cs with
        | h :: t => (c :: h) :: t
        | [] => [[c]] := by
  rw [splitSpec]

theorem splitSpec_ne_nil (s : Bytes) : splitSpec s ≠ [] := by
  induction s with
  | nil => simp [splitSpec]
  | cons c cs ih =>
    unfold splitSpec
    split
    · simp
    · split <;> simp

theorem splitGo_acc (s cur : Bytes) (acc : List Bytes) :
    splitComma.go cur acc s = acc.reverse ++ splitComma.go cur [] s := by
  induction s generalizing cur acc with
  | nil => simp [splitComma.go]
  | cons c cs ih =>
    unfold splitComma.go
    split
    · rw [ih [] (cur.reverse :: acc), ih [] [cur.reverse]]; simp
    · exact ih (c :: cur) acc

theorem splitGo_cur (s cur : Bytes) :
    splitComma.go cur [] s =
      match splitSpec s with
      | h :: t => (cur.reverse ++ h) :: t
      | [] => [] := by
  induction s generalizing cur with
  | nil => simp [splitComma.go, splitSpec]
  | cons c cs ih =>
    unfold splitComma.go splitSpec
    by_cases hc : (c == 44) = true
    · simp only [hc, if_true]
      rw [splitGo_acc, ih []]
      have := splitSpec_ne_nil cs
      cases h : splitSpec cs with
      | nil => exact absurd h this
      | cons a t => simp
    · simp only [hc, Bool.false_eq_true, if_false]
      rw [ih (c :: cur)]
      have := splitSpec_ne_nil cs
      cases h : splitSpec cs with
      | nil => exact absurd h this
      | cons a t => simp

theorem splitComma_eq (s : Bytes) : splitComma s = splitSpec s := by
  unfold splitComma
  rw [splitGo_cur]
  have := splitSpec_ne_nil s
  cases h : splitSpec s with
  | nil => exact absurd h this
  | cons a t => simp

theorem splitSpec_no_comma {e : Bytes} (h : (44 : UInt8) ∉ e) : splitSpec e = [e] := by
  induction e with
  | nil => rfl
  | cons c cs ih =>
    have hc : (c == 44) = false := by
      simp only [beq_eq_false_iff_ne, ne_eq]; intro hh; exact h (by simp [hh])
    have := ih (fun hm => h (List.mem_cons_of_mem _ hm))
    unfold splitSpec
    simp [hc, this]

theorem splitSpec_append (a b : Bytes) :
    splitSpec (a ++ 44 :: b) = splitSpec a ++ splitSpec b := by
  induction a with
  | nil => simp [splitSpec]
  | cons c cs ih =>
    rw [List.cons_append, splitSpec_cons, splitSpec_cons c cs]
    by_cases hc : (c == 44) = true
    · simp only [hc, if_true, ih, List.cons_append]
    · simp only [hc, Bool.false_eq_true, if_false, ih]
      have := splitSpec_ne_nil cs
      cases h : splitSpec cs with
      | nil => exact absurd h this
      | cons x t => simp

/-- every piece is a contiguous part of the value -/
theorem piece_infix {s p : Bytes} (h : p ∈ splitSpec s) : p <:+: s := by
  induction s generalizing p with
  | nil =>
    simp only [splitSpec, List.mem_singleton] at h
    subst h; exact List.infix_refl _
  | cons c cs ih =>
    unfold splitSpec at h
    by_cases hc : (c == 44) = true
    · simp only [hc, if_true, List.mem_cons] at h
      rcases h with rfl | h
      · exact List.nil_infix
      · exact (ih h).trans (List.suffix_cons c cs).isInfix
    · simp only [hc, Bool.false_eq_true, if_false] at h
      have hne := splitSpec_ne_nil cs
      cases hs : splitSpec cs with
      | nil => exact absurd hs hne
      | cons x t =>
        rw [hs] at h
        simp only [List.mem_cons] at h
        rcases h with rfl | h
        · -- c :: x is a prefix of c :: cs because x is a prefix-piece of cs
          have hx : x <+: cs := by
            clear ih hne
            -- the first piece is a prefix
            have : ∀ (s : Bytes) (x : Bytes) (t : List Bytes), splitSpec s = x :: t → x <+: s := by
              intro s
              induction s with
              | nil => intro x t h; simp [splitSpec] at h; rw [← h.1]; exact List.prefix_refl _
              | cons d ds ihd =>
                intro x t h
                unfold splitSpec at h
                by_cases hd : (d == 44) = true
                · simp only [hd, if_true, List.cons.injEq] at h
                  rw [← h.1]; exact List.nil_prefix
                · simp only [hd, Bool.false_eq_true, if_false] at h
                  cases hs' : splitSpec ds with
                  | nil => exact absurd hs' (splitSpec_ne_nil ds)
                  | cons y u =>
                    rw [hs'] at h
                    simp only [List.cons.injEq] at h
                    rw [← h.1]
                    exact List.cons_prefix_cons.mpr ⟨rfl, ihd y u hs'⟩
            exact this cs x t hs
          exact (List.cons_prefix_cons.mpr ⟨rfl, hx⟩).isInfix
        · exact (ih (by rw [hs]; exact List.mem_cons_of_mem _ h)).trans (List.suffix_cons c cs).isInfix

theorem prefix_first_piece (s t x : Bytes) (u : List Bytes) (hs : splitSpec s = x :: u)
    (ht : (44 : UInt8) ∉ t) (hp : t <+: s) : t <+: x := by
  induction s generalizing t x u with
  | nil =>
    have : t = [] := List.prefix_nil.mp hp
    subst this; exact List.nil_prefix
  | cons c cs ih =>
    cases t with
    | nil => exact List.nil_prefix
    | cons d t' =>
      obtain ⟨hdc, hp'⟩ := List.cons_prefix_cons.mp hp
      subst hdc
      have hc : (d == 44) = false := by
        simp only [beq_eq_false_iff_ne, ne_eq]; intro hh; exact ht (by simp [hh])
      rw [splitSpec_cons] at hs
      simp only [hc, Bool.false_eq_true, if_false] at hs
      cases hy : splitSpec cs with
      | nil => exact absurd hy (splitSpec_ne_nil cs)
      | cons y u' =>
        rw [hy] at hs
        simp only [List.cons.injEq] at hs
        rw [← hs.1]
        exact List.cons_prefix_cons.mpr ⟨rfl, ih t' y u' hy (fun hm => ht (List.mem_cons_of_mem _ hm)) hp'⟩

/-- a comma-free substring of a value lies inside one of its pieces -/
theorem infix_piece {s t : Bytes} (ht : (44 : UInt8) ∉ t) (hi : t <:+: s) :
    ∃ p ∈ splitSpec s, t <:+: p := by
  induction s with
  | nil =>
    have : t = [] := List.infix_nil.mp hi
    subst this
    exact ⟨[], by simp [splitSpec], List.infix_refl _⟩
  | cons c cs ih =>
    rcases List.infix_cons_iff.mp hi with hp | hi'
    · cases hy : splitSpec (c :: cs) with
      | nil => exact absurd hy (splitSpec_ne_nil _)
      | cons x u =>
        exact ⟨x, by simp, (prefix_first_piece _ _ _ _ hy ht hp).isInfix⟩
    · obtain ⟨p, hp, htp⟩ := ih hi'
      rw [splitSpec_cons]
      by_cases hc : (c == 44) = true
      · simp only [hc, if_true]
        exact ⟨p, List.mem_cons_of_mem _ hp, htp⟩
      · simp only [hc, Bool.false_eq_true, if_false]
        cases hy : splitSpec cs with
        | nil => exact absurd hy (splitSpec_ne_nil cs)
        | cons y u' =>
          rw [hy] at hp
          rcases List.mem_cons.mp hp with rfl | hp
          · exact ⟨c :: p, by simp, htp.trans (List.suffix_cons c p).isInfix⟩
          · exact ⟨p, List.mem_cons_of_mem _ hp, htp⟩

/-! ## §3 OWS trimming -/

def isOWS (c : UInt8) : Bool := c == 32 || c == 9

theorem trimOWS_eq (v : Bytes) :
    trimOWS v = ((v.dropWhile isOWS).reverse.dropWhile isOWS).reverse := rfl

theorem trimOWS_infix (v : Bytes) : trimOWS v <:+: v := by
  rw [trimOWS_eq]
  have h1 : ((v.dropWhile isOWS).reverse.dropWhile isOWS).reverse <+: v.dropWhile isOWS := by
    have := List.dropWhile_suffix isOWS (l := (v.dropWhile isOWS).reverse)
    have := List.reverse_prefix.mpr this
    rwa [List.reverse_reverse] at this
  exact h1.isInfix.trans (List.dropWhile_suffix isOWS).isInfix

theorem dropWhile_of_head {p : UInt8 → Bool} {v : Bytes}
    (hh : ∀ c, v.head? = some c → p c = false) : v.dropWhile p = v := by
  cases v with
  | nil => rfl
  | cons c t => rw [List.dropWhile_cons, hh c rfl]; rfl

theorem trimOWS_id {v : Bytes} (hh : ∀ c, v.head? = some c → isOWS c = false)
    (hl : ∀ c, v.getLast? = some c → isOWS c = false) : trimOWS v = v := by
  rw [trimOWS_eq, dropWhile_of_head hh, dropWhile_of_head, List.reverse_reverse]
  intro c hc
  rw [List.head?_reverse] at hc
  exact hl c hc

theorem trimOWS_cons_space (v : Bytes) : trimOWS (32 :: v) = trimOWS v := by
  rw [trimOWS_eq, trimOWS_eq, List.dropWhile_cons]
  rfl

theorem infix_dropWhile {p : UInt8 → Bool} {t l : Bytes} (hne : t ≠ [])
    (ht : ∀ c ∈ t, p c = false) (hi : t <:+: l) : t <:+: l.dropWhile p := by
  induction l with
  | nil => exact hi
  | cons c cs ih =>
    rw [List.dropWhile_cons]
    by_cases hp : p c = true
    · rw [if_pos hp]
      rcases List.infix_cons_iff.mp hi with hpre | hi'
      · cases t with
        | nil => exact absurd rfl hne
        | cons d t' =>
          obtain ⟨hdc, _⟩ := List.cons_prefix_cons.mp hpre
          subst hdc
          have := ht d (by simp)
          rw [this] at hp; exact absurd hp (by simp)
      · exact ih hi'
    · rw [if_neg hp]; exact hi

/-- a non-empty substring without blanks survives trimming -/
theorem infix_trimOWS {t p : Bytes} (hne : t ≠ []) (ht : ∀ c ∈ t, isOWS c = false)
    (hi : t <:+: p) : t <:+: trimOWS p := by
  rw [trimOWS_eq]
  have h1 := infix_dropWhile hne ht hi
  have h2 : t.reverse <:+: (p.dropWhile isOWS).reverse := List.reverse_infix.mpr h1
  have h3 := infix_dropWhile (p := isOWS) (by simpa using hne)
    (fun c hc => ht c (List.mem_reverse.mp hc)) h2
  have := List.reverse_infix.mpr h3
  rwa [List.reverse_reverse] at this

/-! ## §4 Via elements -/

theorem bs_comma_space : bs ", " = [44, 32] := by decide +kernel
theorem bs_10 : bs "1.0" = [49, 46, 48] := by decide +kernel
theorem bs_11 : bs "1.1" = [49, 46, 49] := by decide +kernel

theorem protoText_cases (m : Nat) : protoText m = [49, 46, 48] ∨ protoText m = [49, 46, 49] := by
  unfold protoText
  split
  · exact Or.inl bs_10
  · exact Or.inr bs_11

theorem elementsOf_eq (v : Bytes) :
    elementsOf v = ((splitSpec v).map trimOWS).filter (fun e => !e.isEmpty) := by
  rw [elementsOf, splitComma_eq]

/-- shape of a well-formed list element: no comma, non-empty, no blank at either end -/
structure CleanElement (e : Bytes) : Prop where
  ne : e ≠ []
  noComma : (44 : UInt8) ∉ e
  head : ∀ c, e.head? = some c → isOWS c = false
  last : ∀ c, e.getLast? = some c → isOWS c = false

theorem elementsOf_single {e : Bytes} (he : CleanElement e) : elementsOf e = [e] := by
  rw [elementsOf_eq, splitSpec_no_comma he.noComma]
  simp only [List.map_cons, List.map_nil, trimOWS_id he.head he.last]
  have : e.isEmpty = false := by
    cases e with
    | nil => exact absurd rfl he.ne
    | cons _ _ => rfl
  simp [this]

/-- appending `", " ++ e` to a value appends the element `e` to its elements -/
theorem elementsOf_append {v e : Bytes} (he : CleanElement e) :
    elementsOf (v ++ bs ", " ++ e) = elementsOf v ++ [e] := by
  rw [bs_comma_space, elementsOf_eq, elementsOf_eq]
  have : v ++ [44, 32] ++ e = v ++ 44 :: (32 :: e) := by simp
  rw [this, splitSpec_append]
  have hc : (44 : UInt8) ∉ (32 :: e) := by
    intro hm
    rcases List.mem_cons.mp hm with h | h
    · exact absurd h (by decide)
    · exact he.noComma h
  rw [splitSpec_no_comma hc, List.map_append, List.filter_append]
  congr 1
  simp only [List.map_cons, List.map_nil, trimOWS_cons_space, trimOWS_id he.head he.last]
  have : e.isEmpty = false := by
    cases e with
    | nil => exact absurd rfl he.ne
    | cons _ _ => rfl
  simp [this]

theorem mem_elementsOf_infix {v e : Bytes} (h : e ∈ elementsOf v) : e <:+: v := by
  rw [elementsOf_eq] at h
  obtain ⟨hm, _⟩ := List.mem_filter.mp h
  obtain ⟨p, hp, rfl⟩ := List.mem_map.mp hm
  exact (trimOWS_infix p).trans (piece_infix hp)

/-- a tag without comma and blanks: a substring of the value lies inside one element -/
theorem infix_element {v t : Bytes} (hne : t ≠ []) (hc : (44 : UInt8) ∉ t)
    (hw : ∀ c ∈ t, isOWS c = false) (hi : t <:+: v) : ∃ e ∈ elementsOf v, t <:+: e := by
  obtain ⟨p, hp, htp⟩ := infix_piece hc hi
  refine ⟨trimOWS p, ?_, infix_trimOWS hne hw htp⟩
  rw [elementsOf_eq]
  refine List.mem_filter.mpr ⟨List.mem_map.mpr ⟨p, hp, rfl⟩, ?_⟩
  have hi' := infix_trimOWS hne hw htp
  cases hq : trimOWS p with
  | nil =>
    rw [hq] at hi'
    exact absurd (List.infix_nil.mp hi') hne
  | cons _ _ => rfl

/-! ## §5 tag shape -/

/-- `NewViaModifierWithBoundary(name, hex(10 random bytes))`: `name-<20 lower-case hex digits>` -/
def TagShape (name tag : Bytes) : Prop :=
  ∃ sfx, tag = name ++ 45 :: sfx ∧ sfx.length = 20 ∧ ∀ c ∈ sfx, isLowerHex c = true

theorem tagShape_iff (name tag : Bytes) : tagShape name tag = true ↔ TagShape name tag := by
  unfold tagShape TagShape
  constructor
  · intro h
    rw [Bool.and_eq_true, List.isPrefixOf_iff_prefix] at h
    obtain ⟨⟨rest, hr⟩, h2⟩ := h
    subst hr
    rw [List.drop_left] at h2
    split at h2
    · rename_i sfx
      simp only [Bool.and_eq_true, beq_iff_eq, List.all_eq_true] at h2
      exact ⟨sfx, rfl, h2.1, h2.2⟩
    · exact absurd h2 (by simp)
  · rintro ⟨sfx, rfl, hl, hx⟩
    rw [Bool.and_eq_true, List.isPrefixOf_iff_prefix, List.drop_left]
    refine ⟨List.prefix_append _ _, ?_⟩
    simp only [Bool.and_eq_true, beq_iff_eq, List.all_eq_true]
    exact ⟨hl, hx⟩

/-- a tag that is a legal Via pseudonym fragment: non-empty, no comma, no blank -/
structure TagClean (tag : Bytes) : Prop where
  ne : tag ≠ []
  noComma : (44 : UInt8) ∉ tag
  noWs : ∀ c ∈ tag, isOWS c = false

theorem token_not_sep {c : UInt8} (h : isTokenByte c = true) : c ≠ 44 ∧ isOWS c = false := by
  refine ⟨?_, ?_⟩
  · rintro rfl; exact absurd h (by decide)
  · cases hw : isOWS c with
    | false => rfl
    | true =>
      simp only [isOWS, Bool.or_eq_true, beq_iff_eq] at hw
      rcases hw with rfl | rfl <;> exact absurd h (by decide)

theorem hex_not_sep {c : UInt8} (h : isLowerHex c = true) : c ≠ 44 ∧ isOWS c = false ∧ c ≠ 45 := by
  refine ⟨?_, ?_, ?_⟩
  · rintro rfl; exact absurd h (by decide)
  · cases hw : isOWS c with
    | false => rfl
    | true =>
      simp only [isOWS, Bool.or_eq_true, beq_iff_eq] at hw
      rcases hw with rfl | rfl <;> exact absurd h (by decide)
  · rintro rfl; exact absurd h (by decide)

/-- with a token as configured name (the RFC 7230 `pseudonym` syntax) every generated tag is clean -/
theorem TagShape.clean {name tag : Bytes} (h : TagShape name tag)
    (hn : name.all isTokenByte = true) : TagClean tag := by
  obtain ⟨sfx, rfl, _, hx⟩ := h
  have hmem : ∀ c ∈ name ++ 45 :: sfx, c ≠ 44 ∧ isOWS c = false := by
    intro c hc
    rcases List.mem_append.mp hc with hc | hc
    · exact token_not_sep (List.all_eq_true.mp hn c hc)
    · rcases List.mem_cons.mp hc with rfl | hc
      · exact ⟨by decide, by decide⟩
      · exact ⟨(hex_not_sep (hx c hc)).1, (hex_not_sep (hx c hc)).2.1⟩
  exact ⟨by simp, fun hm => (hmem 44 hm).1 rfl, fun c hc => (hmem c hc).2⟩

theorem ownElement_clean {tag : Bytes} (ht : TagClean tag) (m : Nat) :
    CleanElement (ownElement tag m) := by
  unfold ownElement
  have hpre : ∀ p : Bytes, (p = [49, 46, 48] ∨ p = [49, 46, 49]) →
      (∀ c ∈ p ++ [32], c ≠ 44) ∧ (p ++ [32] ++ tag).head? = some 49 := by
    rintro p (rfl | rfl) <;> exact ⟨by decide, rfl⟩
  obtain ⟨h44, hhead⟩ := hpre _ (protoText_cases m)
  refine ⟨by simp, ?_, ?_, ?_⟩
  · intro hm
    rcases List.mem_append.mp hm with h | h
    · exact h44 44 h rfl
    · exact ht.noComma h
  · intro c hc
    rw [hhead] at hc
    cases hc; decide
  · intro c hc
    obtain ⟨x, hx⟩ : ∃ x, tag.getLast? = some x := by
      cases h : tag.getLast? with
      | none => exact absurd (List.getLast?_eq_none_iff.mp h) ht.ne
      | some x => exact ⟨x, rfl⟩
    rw [List.getLast?_append, hx] at hc
    simp only [Option.some_or, Option.some.injEq] at hc
    subst hc
    exact ht.noWs x (List.mem_of_getLast? hx)

theorem tag_infix_ownElement (tag : Bytes) (m : Nat) : tag <:+: ownElement tag m :=
  (List.suffix_append _ _).isInfix

/-- Two instances configured with the same name draw different random suffixes: neither tag
    occurs in the element the other one emits. -/
theorem same_name_not_infix {name t1 t2 : Bytes} (h1 : TagShape name t1) (h2 : TagShape name t2)
    (hne : t1 ≠ t2) (m : Nat) : ¬ t1 <:+: ownElement t2 m := by
  obtain ⟨s1, rfl, hl1, hx1⟩ := h1
  obtain ⟨s2, rfl, hl2, hx2⟩ := h2
  rintro ⟨pre, post, heq⟩
  have hlen := congrArg List.length heq
  have hpl : (protoText m ++ [32]).length = 4 := by
    rcases protoText_cases m with hp | hp <;> rw [hp] <;> rfl
  unfold ownElement at heq hlen
  simp only [List.length_append, List.length_cons, hl1, hl2] at hlen hpl
  -- the dash of t2 sits at index 4 + |name| of the element
  have hdash : (protoText m ++ [32] ++ (name ++ 45 :: s2))[4 + name.length]? = some 45 := by
    rw [List.getElem?_append_right (by simp only [List.length_append, List.length_cons]; omega)]
    have : 4 + name.length - (protoText m ++ [32]).length = name.length := by
      simp only [List.length_append, List.length_cons]; omega
    rw [this, List.getElem?_append_right (Nat.le_refl _), Nat.sub_self]
    rfl
  rw [← heq] at hdash
  by_cases hk : pre.length = 4
  · -- same offset: the tags coincide
    have hpost : post = [] := by
      apply List.eq_nil_of_length_eq_zero; omega
    subst hpost
    rw [List.append_nil] at heq
    have := List.append_inj heq (by simp only [List.length_append, List.length_cons]; omega)
    exact hne this.2
  · have hk' : pre.length < 4 := by omega
    rw [List.append_assoc, List.getElem?_append_right (by omega),
      List.getElem?_append_left (by simp only [List.length_append, List.length_cons]; omega),
      List.getElem?_append_right (by omega)] at hdash
    have hidx : 4 + name.length - pre.length - name.length = (3 - pre.length) + 1 := by omega
    rw [hidx, List.getElem?_cons_succ] at hdash
    have hm := List.mem_of_getElem? hdash
    exact (hex_not_sep (hx1 45 hm)).2.2 rfl

end C18
end FwdVerif
