/-
  C08 helper lemmas, part 9: the protocol-level reading of the input (`specV1`/`specV2`, the oracle
  behind the `holds` verb) is sound for the model: whatever it calls well-formed, the reader accepts
  with exactly the advertised addresses and payload, for every input (the one header the reading
  marks "may be rejected" — PROXY with family AF_UNSPEC — is either read that way or refused).
-/
import FwdVerif.Lemmas.C08Conn

namespace FwdVerif
namespace C08

theorem getD_of_getElem? {bs : Bytes} {i : Nat} {x : UInt8} (h : bs[i]? = some x) : i < bs.length ∧ bs.getD i 0 = x := by
  have hl : i < bs.length := by
    rcases Nat.lt_or_ge i bs.length with hl | hl
    · exact hl
    · rw [List.getElem?_eq_none hl] at h; cases h
  refine ⟨hl, ?_⟩
  rw [List.getD, h]; rfl

/-- what the checker asks of the reader for a header advertising `a` -/
def ReadsAs (bs : Bytes) (a : Adv) : Prop :=
  (∃ h, readHeaderS bs = .ok (h, bs.drop a.hdrLen) ∧ remoteSel (.ok h) = a.remote ∧ localSel (.ok h) = a.loc) ∨
  (a.mayReject = true ∧ ∃ e, readHeaderS bs = .err e)

/-- a header the protocol-level reading accepts is read by the model as that reading says -/
theorem specV2_sound {bs : Bytes} {a : Adv} (hs : specV2 bs = some a) : ReadsAs bs a := by
  unfold specV2 at hs
  split at hs
  · cases hs
  · rename_i hpre
    have hpre' : v2Ident.isPrefixOf bs = true := by simpa using hpre
    split at hs
    · rename_i vc fam l1 l2 e12 e13 e14 e15
      obtain ⟨h12, g12⟩ := getD_of_getElem? e12
      obtain ⟨h13, g13⟩ := getD_of_getElem? e13
      obtain ⟨h14, g14⟩ := getD_of_getElem? e14
      obtain ⟨h15, g15⟩ := getD_of_getElem? e15
      dsimp only at hs
      split at hs
      · cases hs
      · rename_i hcond
        simp only [Bool.or_eq_true, bne_iff_ne, ne_eq, decide_eq_true_eq, not_or, Nat.not_lt, Decidable.not_not] at hcond
        obtain ⟨⟨hver, h2048⟩, hlen⟩ := hcond
        have h2048' : l1.toNat * 256 + l2.toNat ≤ 2048 := by omega
        -- the reader
        have hread : readHeaderS bs =
            match v2Refusal vc fam (l1.toNat * 256 + l2.toNat) with
            | some e => .err e
            | none => .ok (v2Hdr vc fam ((bs.drop 16).take (l1.toNat * 256 + l2.toNat)),
                bs.drop (16 + (l1.toNat * 256 + l2.toNat))) := by
          unfold readHeaderS
          rw [if_pos (by omega), isPrefixOf_take v2Ident bs 13 (by decide), if_pos hpre']
          unfold readV2S
          rw [if_pos (by omega), g12, g13, g14, g15]
          rw [if_neg (by simp [hver])]
          rw [v2Rest_eq, if_neg (by omega), if_neg (by simp only [List.length_drop]; omega), List.drop_drop]
          cases v2Refusal vc fam (l1.toNat * 256 + l2.toNat) <;> rfl
        by_cases hc0 : (vc.toNat % 16 == 0) = true
        · rw [if_pos hc0] at hs
          injection hs with hs; subst hs
          have href : v2Refusal vc fam (l1.toNat * 256 + l2.toNat) = none := by
            have : vc.toNat % 16 = 0 := by simpa using hc0
            simp [v2Refusal, this]
          rw [href] at hread
          refine Or.inl ⟨_, hread, ?_, ?_⟩ <;> simp [remoteSel, localSel, v2Hdr, hc0]
        · rw [if_neg hc0] at hs
          by_cases hc1 : (vc.toNat % 16 == 1) = true
          · rw [if_pos hc1] at hs
            have hc1' : vc.toNat % 16 = 1 := by simpa using hc1
            by_cases h4 : (fam == 0x11 || fam == 0x12) = true
            · rw [if_pos h4] at hs
              split at hs
              · cases hs
              · rename_i h12'
                injection hs with hs; subst hs
                have href : v2Refusal vc fam (l1.toNat * 256 + l2.toNat) = none := by
                  unfold v2Refusal; dsimp only
                  rw [if_pos hc1, if_neg (by simp only [beq_iff_eq]; omega), if_pos h4, if_neg h12']
                rw [href] at hread
                refine Or.inl ⟨_, hread, ?_, ?_⟩ <;>
                  simp [remoteSel, localSel, v2Hdr, hc1', h4, mkAddr, ofOpt]
            · rw [if_neg h4] at hs
              by_cases h6 : (fam == 0x21 || fam == 0x22) = true
              · rw [if_pos h6] at hs
                split at hs
                · cases hs
                · rename_i h36'
                  injection hs with hs; subst hs
                  have href : v2Refusal vc fam (l1.toNat * 256 + l2.toNat) = none := by
                    unfold v2Refusal; dsimp only
                    rw [if_pos hc1, if_neg (by simp only [beq_iff_eq]; omega), if_neg h4, if_pos h6, if_neg h36']
                  rw [href] at hread
                  refine Or.inl ⟨_, hread, ?_, ?_⟩ <;>
                    simp [remoteSel, localSel, v2Hdr, hc1', h4, h6, mkAddr, ofOpt]
              · rw [if_neg h6] at hs
                split at hs
                · -- AF_UNSPEC: refused when no bytes follow, else accepted without addresses, and
                  -- `Conn` reports the socket's own
                  rename_i hun
                  injection hs with hs; subst hs
                  have hun' : fam.toNat / 16 = 0 := by simpa using hun
                  have hlt : fam.toNat < 16 := by omega
                  have hux : ¬ (fam == 0x31 || fam == 0x32) = true := by
                    intro hu
                    simp only [Bool.or_eq_true, beq_iff_eq] at hu
                    rcases hu with e | e <;> (rw [e] at hlt; revert hlt; decide)
                  by_cases hz : (l1.toNat * 256 + l2.toNat == 0) = true
                  · have href : v2Refusal vc fam (l1.toNat * 256 + l2.toNat) = some .v2NoAddr := by
                      unfold v2Refusal; dsimp only
                      rw [if_pos hc1, if_pos hz]
                    rw [href] at hread
                    exact Or.inr ⟨rfl, _, hread⟩
                  · have href : v2Refusal vc fam (l1.toNat * 256 + l2.toNat) = none := by
                      unfold v2Refusal; dsimp only
                      rw [if_pos hc1, if_neg hz, if_neg h4, if_neg h6, if_neg hux]
                    rw [href] at hread
                    refine Or.inl ⟨_, hread, ?_, ?_⟩ <;>
                      simp [remoteSel, localSel, v2Hdr, hc1', h4, h6, ofOpt]
                · cases hs
          · rw [if_neg hc1] at hs; cases hs
    · cases hs

/-- fields joined with single spaces -/
def joinSp : List Bytes → Bytes
  | [] => []
  | [f] => f
  | f :: g :: fs => f ++ 32 :: joinSp (g :: fs)

theorem splitSp_ne_nil (s : Bytes) : splitSp s ≠ [] := by
  cases s with
  | nil => simp [splitSp]
  | cons c cs =>
    unfold splitSp
    split
    · simp
    · split <;> simp

theorem joinSp_cons_head (c : UInt8) (f : Bytes) (fs : List Bytes) :
    joinSp ((c :: f) :: fs) = c :: joinSp (f :: fs) := by
  cases fs <;> simp [joinSp]

theorem joinSp_splitSp (s : Bytes) : joinSp (splitSp s) = s := by
  induction s with
  | nil => rfl
  | cons c cs ih =>
    unfold splitSp
    split
    · rename_i hc
      have : c = 32 := by simpa using hc
      subst this
      cases hsp : splitSp cs with
      | nil => exact absurd hsp (splitSp_ne_nil cs)
      | cons g gs => rw [hsp] at ih; simp [joinSp, ih]
    · cases hsp : splitSp cs with
      | nil => exact absurd hsp (splitSp_ne_nil cs)
      | cons g gs =>
        rw [hsp] at ih
        simp only []
        rw [joinSp_cons_head, ih]

theorem portWF_atoi {f : Bytes} {v : Nat} (h : portWF f = some v) : atoi f = some (v : Int) := by
  unfold portWF at h
  split at h
  · cases h
  · rename_i hne
    cases hd : digitsVal f 0 with
    | none => rw [hd] at h; cases h
    | some w =>
      rw [hd] at h
      dsimp only at h
      split at h
      · rename_i hw
        injection h with h; subst h
        cases f with
        | nil => simp at hne
        | cons c r =>
          have hdig := digitsVal_all hd c (by simp)
          have h45 : (c == 45) = false := by
            simp only [beq_eq_false_iff_ne, ne_eq]; intro e; subst e; revert hdig; decide
          have h43 : (c == 43) = false := by
            simp only [beq_eq_false_iff_ne, ne_eq]; intro e; subst e; revert hdig; decide
          have hr : w ≤ 9223372036854775807 := by omega
          simp [atoi, h45, h43, atoiDigits, hd, hr]
      · cases h

/-- a v1 input whose first CRLF ends at `n`: signature, line, CRLF, rest -/
theorem v1_decompose {bs : Bytes} {n : Nat} (hpre : v1Ident.isPrefixOf bs = true) (hn : firstCRLFEnd bs = some n) :
    ∃ line, line = (bs.take (n - 2)).drop 6 ∧ bs = v1Ident ++ line ++ crlf ++ bs.drop n ∧ n = 6 + line.length + 2 := by
  obtain ⟨t, ht⟩ := List.isPrefixOf_iff_prefix.mp hpre
  have hclean : ∀ c ∈ v1Ident, c ≠ 13 := by decide
  have h6 : v1Ident.length = 6 := rfl
  rw [← ht, firstCRLFEnd_append_clean hclean] at hn
  cases hm : firstCRLFEnd t with
  | none => rw [hm] at hn; cases hn
  | some m =>
    rw [hm] at hn
    simp only [Option.map_some, Option.some.injEq] at hn
    obtain ⟨h2, hat, _⟩ := firstCRLFEnd_some hm
    have hml := firstCRLFEnd_le_length hm
    have htake : t.take m = t.take (m - 2) ++ crlf := by
      have := take_succ_succ_of_crlfAt hat
      have e : m - 2 + 2 = m := by omega
      rw [e] at this; exact this
    have hsplit : t = t.take (m - 2) ++ crlf ++ t.drop m := by
      rw [← htake, List.take_append_drop]
    refine ⟨t.take (m - 2), ?_, ?_, ?_⟩
    · rw [← ht, ← hn]
      have e : m + v1Ident.length - 2 = v1Ident.length + (m - 2) := by omega
      rw [e, List.take_length_add_append]
      exact (List.drop_left (l₁ := v1Ident)).symm
    · rw [← ht, ← hn]
      have e : m + v1Ident.length = v1Ident.length + m := by omega
      rw [e, List.drop_length_add_append]
      simp only [List.append_assoc]
      congr 1
      rw [← List.append_assoc]; exact hsplit
    · rw [← hn, h6, List.length_take]; omega


theorem specV1_sound {bs : Bytes} {a : Adv} (hs : specV1 bs = some a) :
    ∃ h, readHeaderS bs = .ok (h, bs.drop a.hdrLen) ∧ remoteSel (.ok h) = a.remote ∧ localSel (.ok h) = a.loc := by
  unfold specV1 at hs
  split at hs
  · cases hs
  · rename_i hpre
    have hpre' : v1Ident.isPrefixOf bs = true := by simpa using hpre
    cases hn : firstCRLFEnd bs with
    | none => rw [hn] at hs; cases hs
    | some n =>
      rw [hn] at hs
      dsimp only at hs
      split at hs
      · cases hs
      · rename_i h107
        obtain ⟨line, hline, hbs, hnlen⟩ := v1_decompose hpre' hn
        rw [← hline] at hs
        split at hs
        · -- UNKNOWN
          rename_i hunk
          injection hs with hs; subst hs
          obtain ⟨tail, htail⟩ := List.isPrefixOf_iff_prefix.mp hunk
          have hb : bs = unknownBody tail ++ crlf ++ bs.drop n := by
            have := hbs
            rw [← htail] at this
            exact this
          have hul : (unknownBody tail).length = 6 + line.length := by
            rw [← htail]; simp [unknownBody, v1Ident, sUnknown]; omega
          have hres := readHeaderS_unknown' tail (bs.drop n)
            (by rw [← hb, hn, hul, hnlen])
            (by simp only [List.length_append, hul, crlf, List.length_cons, List.length_nil]; omega)
          rw [← hb] at hres
          exact ⟨_, hres, rfl, rfl⟩
        · -- TCP4 / TCP6
          split at hs
          · rename_i k f1 f2 f3 f4 hsp
            have hj := joinSp_splitSp line
            rw [hsp] at hj
            simp only [joinSp] at hj
            split at hs
            · rename_i hkind
              split at hs
              · rename_i a1 d1 sp dp hp1 hp2 hp3 hp4
                injection hs with hs; subst hs
                have h3 := portWF_atoi hp3
                have h4 := portWF_atoi hp4
                -- the kind and what it implies
                have hk : ∃ kind : V1Kind, k = kind.tag ∧
                    (kind = .tcp4 → isV4Text f1 = true ∧ isV4Text f2 = true) := by
                  simp only [Bool.or_eq_true, Bool.and_eq_true, beq_iff_eq] at hkind
                  rcases hkind with ⟨⟨hk, v1⟩, v2⟩ | ⟨⟨hk, _⟩, _⟩
                  · exact ⟨.tcp4, hk, fun _ => ⟨v1, v2⟩⟩
                  · exact ⟨.tcp6, hk, fun h => by cases h⟩
                obtain ⟨kind, hk, hv4⟩ := hk
                have hbody : (V1Line.mk kind f1 f2 f3 f4).body = v1Ident ++ line := by
                  simp only [V1Line.body, V1Line.tail, ← hk, hj]
                have hb : bs = (V1Line.mk kind f1 f2 f3 f4).bytes ++ bs.drop n := by
                  rw [V1Line.bytes, hbody]; exact hbs
                have hblen : (V1Line.mk kind f1 f2 f3 f4).bytes.length = n := by
                  rw [V1Line.bytes, hbody]; simp [v1Ident, crlf]; omega
                have hmin := v1_line_min (V1Line.mk kind f1 f2 f3 f4) hp1 hp2 h3 h4 hv4
                have hres := readHeaderS_v1_line (V1Line.mk kind f1 f2 f3 f4) hp1 hp2 h3 h4 (by rw [hblen]; omega) hmin (bs.drop n)
                rw [← hb] at hres
                exact ⟨_, hres, rfl, rfl⟩
              · cases hs
            · cases hs
          · cases hs


theorem specAdv_sound {bs : Bytes} {a : Adv} (hs : specAdv bs = some a) : ReadsAs bs a := by
  unfold specAdv at hs
  cases h2' : specV2 bs with
  | some a' =>
    rw [h2'] at hs
    injection hs with hs; subst hs
    exact specV2_sound h2'
  | none =>
    rw [h2'] at hs
    exact Or.inl (specV1_sound hs)

/-- the model passes every clause of the checker used on the implementation, on every input -/
theorem holdsObs_model (bs : Bytes) : holdsObs bs (obsOf bs) = none := by
  have hnp := readHeaderS_ne_panic bs
  unfold holdsObs obsOf
  rw [readHeader_eq]
  cases hr : readHeaderS bs with
  | panic => exact absurd hr hnp
  | err e =>
    dsimp only
    have c1 : (AddrSel.sock == AddrSel.missing) = false := by decide
    simp only [c1, Bool.or_self, Bool.false_eq_true, if_false, Bool.false_and]
    cases ha : specAdv bs with
    | none => rfl
    | some a =>
      rcases specAdv_sound ha with ⟨h, hh, _⟩ | ⟨hm, _⟩
      · rw [hr] at hh; cases hh
      · simp [advCheck, hm]
  | ok p =>
    obtain ⟨h, rest⟩ := p
    dsimp only
    obtain ⟨a1, a2⟩ := sel_ne_missing (.ok h)
    have c1 : (remoteSel (.ok h) == AddrSel.missing) = false := by simpa using a1
    have c2 : (localSel (.ok h) == AddrSel.missing) = false := by simpa using a2
    have c3 : mustFail bs = false := by
      cases hm : mustFail bs with
      | false => rfl
      | true =>
        obtain ⟨e, he⟩ := readHeaderS_mustFail hm
        rw [hr] at he; cases he
    obtain ⟨pre, hb, hcase⟩ := readHeaderS_consumed hr
    have hl : bs.length = pre.length + rest.length := by rw [hb]; simp
    have hd : bs.drop (bs.length - rest.length) = rest := by
      have : bs.length - rest.length = pre.length := by omega
      rw [this, hb, List.drop_left]
    have c4 : leaks bs rest = false := by
      have key : ∀ n, specHdrEnd bs = some n → n ≤ pre.length → leaks bs rest = false := by
        intro n hs hn
        unfold leaks
        rw [hs]
        simp only [isDropFrom, hd, beq_self_eq_true, Bool.and_true, Bool.not_eq_false', decide_eq_true_eq]
        omega
      rcases hcase with ⟨_, hs⟩ | ⟨_, _, n, hs, hn⟩
      · exact key _ hs (Nat.le_refl _)
      · exact key n hs hn
    simp only [c1, c2, c3, c4, Bool.or_self, Bool.false_eq_true, if_false, Bool.and_false]
    cases ha : specAdv bs with
    | none => rfl
    | some a =>
      rcases specAdv_sound ha with ⟨h', hh, e1, e2⟩ | ⟨_, e, he⟩
      · rw [hr] at hh
        have hp := Res.ok.inj hh
        have hh1 : h = h' := congrArg Prod.fst hp
        have hh2 : rest = bs.drop a.hdrLen := congrArg Prod.snd hp
        subst hh1
        simp only [advCheck, e1, e2, hh2, bne_self_eq_false, Bool.or_self, Bool.false_eq_true, if_false, Bool.not_true]
      · rw [hr] at he; cases he

end C08
end FwdVerif
