/-
  C02 — concrete exchanges used by the non-vacuity examples and the witnesses of
  `Theorems/C02.lean`, with the model's answer on each of them (kernel-evaluated).
-/
import FwdVerif.Lemmas.RespEval

namespace FwdVerif
namespace Resp
namespace Ex

/-- GET, keep-alive, `Accept-Encoding` sent by the client -/
def rcGet : ReqCtx := ⟨[71, 69, 84], false, false, [], 1⟩
/-- GET, keep-alive, the transport itself asked for gzip -/
def rcGetGz : ReqCtx := ⟨[71, 69, 84], false, true, [], 1⟩
/-- GET from an HTTP/1.0 client that asked for keep-alive -/
def rcGet10 : ReqCtx := ⟨[71, 69, 84], false, false, [], 0⟩
/-- GET from an HTTP/1.0 client that asked for keep-alive; the transport itself asked for gzip -/
def rcGetGz10 : ReqCtx := ⟨[71, 69, 84], false, true, [], 0⟩
/-- HEAD -/
def rcHead : ReqCtx := ⟨[72, 69, 65, 68], false, false, [], 1⟩

/-- `HTTP/1.1 200 OK; Connection: X-Hop, keep-alive; X-Hop: 1; Keep-Alive: timeout=5; Set-Cookie: a=1; Transfer-Encoding: chunked; Trailer: X-Sum; set-cookie: b=2; Content-Type: text/plain` -/
def oChunked : OriginResp :=
  ⟨1, 200, [79, 75],
    [([67, 111, 110, 110, 101, 99, 116, 105, 111, 110], [88, 45, 72, 111, 112, 44, 32, 107, 101, 101, 112, 45, 97, 108, 105, 118, 101]),
     ([88, 45, 72, 111, 112], [49]),
     ([75, 101, 101, 112, 45, 65, 108, 105, 118, 101], [116, 105, 109, 101, 111, 117, 116, 61, 53]),
     ([83, 101, 116, 45, 67, 111, 111, 107, 105, 101], [97, 61, 49]),
     ([84, 114, 97, 110, 115, 102, 101, 114, 45, 69, 110, 99, 111, 100, 105, 110, 103], [99, 104, 117, 110, 107, 101, 100]),
     ([84, 114, 97, 105, 108, 101, 114], [88, 45, 83, 117, 109]),
     ([115, 101, 116, 45, 99, 111, 111, 107, 105, 101], [98, 61, 50]),
     ([67, 111, 110, 116, 101, 110, 116, 45, 84, 121, 112, 101], [116, 101, 120, 116, 47, 112, 108, 97, 105, 110])]⟩

/-- `HTTP/1.1 404 Not Found; Content-Length: 5; X-A: 1; X-A: 2` -/
def oLen : OriginResp :=
  ⟨1, 404, [78, 111, 116, 32, 70, 111, 117, 110, 100],
    [([67, 111, 110, 116, 101, 110, 116, 45, 76, 101, 110, 103, 116, 104], [53]),
     ([88, 45, 65], [49]),
     ([88, 45, 65], [50])]⟩

/-- `HTTP/1.1 304 Not Modified; ETag: \"v1\"` -/
def oNotMod : OriginResp :=
  ⟨1, 304, [78, 111, 116, 32, 77, 111, 100, 105, 102, 105, 101, 100],
    [([69, 84, 97, 103], [34, 118, 49, 34])]⟩

/-- `HTTP/1.1 200 OK; Content-Encoding: gzip; Transfer-Encoding: chunked; Vary: Accept-Encoding` -/
def oGzChunked : OriginResp :=
  ⟨1, 200, [79, 75],
    [([67, 111, 110, 116, 101, 110, 116, 45, 69, 110, 99, 111, 100, 105, 110, 103], [103, 122, 105, 112]),
     ([84, 114, 97, 110, 115, 102, 101, 114, 45, 69, 110, 99, 111, 100, 105, 110, 103], [99, 104, 117, 110, 107, 101, 100]),
     ([86, 97, 114, 121], [65, 99, 99, 101, 112, 116, 45, 69, 110, 99, 111, 100, 105, 110, 103])]⟩

/-- `HTTP/1.1 200 OK; Content-Encoding: gzip; Content-Length: 20`   (the shape of the repaired F22) -/
def oGzLen : OriginResp :=
  ⟨1, 200, [79, 75],
    [([67, 111, 110, 116, 101, 110, 116, 45, 69, 110, 99, 111, 100, 105, 110, 103], [103, 122, 105, 112]),
     ([67, 111, 110, 116, 101, 110, 116, 45, 76, 101, 110, 103, 116, 104], [50, 48])]⟩

/-- `HTTP/1.1 304 Not Modified; Transfer-Encoding: chunked; Trailer: X-T`   (the shape of the repaired F1) -/
def oHoTrailer : OriginResp :=
  ⟨1, 304, [78, 111, 116, 32, 77, 111, 100, 105, 102, 105, 101, 100],
    [([84, 114, 97, 110, 115, 102, 101, 114, 45, 69, 110, 99, 111, 100, 105, 110, 103], [99, 104, 117, 110, 107, 101, 100]),
     ([84, 114, 97, 105, 108, 101, 114], [88, 45, 84])]⟩

/-- `HTTP/1.1 200 OK; Connection: X-Hop, close; X-Hop: 1; Content-Length: 0   (F25)` -/
def oF25 : OriginResp :=
  ⟨1, 200, [79, 75],
    [([67, 111, 110, 110, 101, 99, 116, 105, 111, 110], [88, 45, 72, 111, 112, 44, 32, 99, 108, 111, 115, 101]),
     ([88, 45, 72, 111, 112], [49]),
     ([67, 111, 110, 116, 101, 110, 116, 45, 76, 101, 110, 103, 116, 104], [48])]⟩

/-- `HTTP/1.0 200 OK; Content-Type: text/plain   (close-delimited)` -/
def oEof : OriginResp :=
  ⟨0, 200, [79, 75],
    [([67, 111, 110, 116, 101, 110, 116, 45, 84, 121, 112, 101], [116, 101, 120, 116, 47, 112, 108, 97, 105, 110])]⟩

def rChunked : ClientResp :=
  ⟨1, 200, [79, 75],
    [([116, 114, 97, 110, 115, 102, 101, 114, 45, 101, 110, 99, 111, 100, 105, 110, 103], [[99, 104, 117, 110, 107, 101, 100]]),
     ([116, 114, 97, 105, 108, 101, 114], [[88, 45, 83, 117, 109]]),
     ([115, 101, 116, 45, 99, 111, 111, 107, 105, 101], [[97, 61, 49], [98, 61, 50]]),
     ([99, 111, 110, 116, 101, 110, 116, 45, 116, 121, 112, 101], [[116, 101, 120, 116, 47, 112, 108, 97, 105, 110]])],
    Framing.chunked [[88, 45, 83, 117, 109]], .same, true⟩

def rLen : ClientResp :=
  ⟨1, 404, [78, 111, 116, 32, 70, 111, 117, 110, 100],
    [([99, 111, 110, 116, 101, 110, 116, 45, 108, 101, 110, 103, 116, 104], [[53]]),
     ([120, 45, 97], [[49], [50]])],
    Framing.cl 5, .same, true⟩

def rNotMod : ClientResp :=
  ⟨1, 304, [78, 111, 116, 32, 77, 111, 100, 105, 102, 105, 101, 100],
    [([101, 116, 97, 103], [[34, 118, 49, 34]])],
    Framing.none, .dropped, true⟩

def rGzChunked : ClientResp :=
  ⟨1, 200, [79, 75],
    [([116, 114, 97, 110, 115, 102, 101, 114, 45, 101, 110, 99, 111, 100, 105, 110, 103], [[99, 104, 117, 110, 107, 101, 100]]),
     ([118, 97, 114, 121], [[65, 99, 99, 101, 112, 116, 45, 69, 110, 99, 111, 100, 105, 110, 103]])],
    Framing.chunked [], .gunzip, true⟩

/-- gunzipped, length lost: re-framed as chunked, connection kept -/
def rGzLen : ClientResp :=
  ⟨1, 200, [79, 75],
    [([116, 114, 97, 110, 115, 102, 101, 114, 45, 101, 110, 99, 111, 100, 105, 110, 103], [[99, 104, 117, 110, 107, 101, 100]])],
    Framing.chunked [], .gunzip, true⟩

/-- the same for an HTTP/1.0 client: close-delimited -/
def rGzLen10 : ClientResp :=
  ⟨1, 200, [79, 75],
    [([99, 111, 110, 110, 101, 99, 116, 105, 111, 110], [[99, 108, 111, 115, 101]])],
    Framing.eof, .gunzip, false⟩

/-- header-only with a declared trailer: `Trailer: X-T`, then the blank line -/
def rHoTrailer : ClientResp :=
  ⟨1, 304, [78, 111, 116, 32, 77, 111, 100, 105, 102, 105, 101, 100],
    [([116, 114, 97, 105, 108, 101, 114], [[88, 45, 84]])],
    Framing.none, .dropped, true⟩

/-- `oChunked` for an HTTP/1.0 client: no chunking, no trailer, close-delimited -/
def rChunked10 : ClientResp :=
  ⟨1, 200, [79, 75],
    [([115, 101, 116, 45, 99, 111, 111, 107, 105, 101], [[97, 61, 49], [98, 61, 50]]),
     ([99, 111, 110, 116, 101, 110, 116, 45, 116, 121, 112, 101], [[116, 101, 120, 116, 47, 112, 108, 97, 105, 110]]),
     ([99, 111, 110, 110, 101, 99, 116, 105, 111, 110], [[99, 108, 111, 115, 101]])],
    Framing.eof, .same, false⟩

def rF25 : ClientResp :=
  ⟨1, 200, [79, 75],
    [([99, 111, 110, 116, 101, 110, 116, 45, 108, 101, 110, 103, 116, 104], [[48]]),
     ([120, 45, 104, 111, 112], [[49]]),
     ([99, 111, 110, 110, 101, 99, 116, 105, 111, 110], [[99, 108, 111, 115, 101]])],
    Framing.cl 0, .same, false⟩

def rEof : ClientResp :=
  ⟨0, 200, [79, 75],
    [([99, 111, 110, 116, 101, 110, 116, 45, 116, 121, 112, 101], [[116, 101, 120, 116, 47, 112, 108, 97, 105, 110]]),
     ([99, 111, 110, 110, 101, 99, 116, 105, 111, 110], [[99, 108, 111, 115, 101]])],
    Framing.eof, .same, false⟩

def rHeadLen : ClientResp :=
  ⟨1, 404, [78, 111, 116, 32, 70, 111, 117, 110, 100],
    [([99, 111, 110, 116, 101, 110, 116, 45, 108, 101, 110, 103, 116, 104], [[53]]),
     ([120, 45, 97], [[49], [50]])],
    Framing.none, .dropped, true⟩

theorem evalChunked : processResponse rcGet oChunked = .ok rChunked := by resp_eval

theorem evalLen : processResponse rcGet oLen = .ok rLen := by resp_eval

theorem evalNotMod : processResponse rcGet oNotMod = .ok rNotMod := by resp_eval

theorem evalGzChunked : processResponse rcGetGz oGzChunked = .ok rGzChunked := by resp_eval

theorem evalGzLen : processResponse rcGetGz oGzLen = .ok rGzLen := by resp_eval

theorem evalGzLen10 : processResponse rcGetGz10 oGzLen = .ok rGzLen10 := by resp_eval

theorem evalHoTrailer : processResponse rcGet oHoTrailer = .ok rHoTrailer := by resp_eval

theorem evalChunked10 : processResponse rcGet10 oChunked = .ok rChunked10 := by resp_eval

theorem evalF25 : processResponse rcGet oF25 = .ok rF25 := by resp_eval

theorem evalEof : processResponse rcGet oEof = .ok rEof := by resp_eval

theorem evalHeadLen : processResponse rcHead oLen = .ok rHeadLen := by resp_eval

end Ex
end Resp
end FwdVerif
