/-
  C02 — header-map lemmas for the response pipeline (core Lean only).

  Everything the pipeline does to Go's `http.Header` is expressed through `List.lookup`:
  `toHeader`, `Del/Set/Add`, `removeHopByHop`, and on the output side `lowerFields`, `mergeFields`
  and the field-line view `fieldValues (flatFields …)` of `Model/RespSpec.lean`.
-/
import FwdVerif.Lemmas.C16
import FwdVerif.Model.RespSpec

namespace FwdVerif
namespace Resp

open Ascii
open C16 (HMap goDel goSet goAdd CanonKeys NodupKeys)
open Req (toHeader hget goGet lowerFields mergeFields removeHopByHop hopByHopNames)

/-! ### lookup through erase / put / Del / Set / Add -/

theorem lookup_erase (h : HMap) (c k : Bytes) :
    (HMap.erase h c).lookup k = if k = c then none else h.lookup k := by
  induction h with
  | nil => simp [C16.HMap.erase]
  | cons e h ih =>
    obtain ⟨k', vs⟩ := e
    by_cases hk : k' = c
    · rw [C16.erase_cons_eq h hk, ih]
      subst hk
      by_cases hkk : k = k'
      · simp [hkk]
      · have : (k == k') = false := by simpa using hkk
        simp [hkk, List.lookup_cons, this]
    · rw [C16.erase_cons_ne h hk, List.lookup_cons, List.lookup_cons, ih]
      by_cases hkk : k = k'
      · subst hkk
        simp [hk]
      · have : (k == k') = false := by simpa using hkk
        simp [this]

theorem lookup_put (h : HMap) (c k : Bytes) (vs : List Bytes) :
    (HMap.put h c vs).lookup k = if k = c then some vs else h.lookup k := by
  by_cases hk : k = c
  · subst hk; simp [C16.lookup_put_self]
  · simp [hk, C16.lookup_put_ne h vs hk]

theorem lookup_goDel (h : HMap) (n k : Bytes) :
    (goDel h n).lookup k = if k = canonicalKey n then none else h.lookup k :=
  lookup_erase h _ k

theorem lookup_goSet (h : HMap) (n v k : Bytes) :
    (goSet h n v).lookup k = if k = canonicalKey n then some [v] else h.lookup k :=
  lookup_put h _ k _

theorem lookup_goAdd (h : HMap) (n v k : Bytes) :
    (goAdd h n v).lookup k =
      if k = canonicalKey n then some ((h.lookup (canonicalKey n)).getD [] ++ [v]) else h.lookup k :=
  lookup_put h _ k _

theorem canonKeys_goDel {h : HMap} (n : Bytes) (hc : CanonKeys h) : CanonKeys (goDel h n) :=
  hc.sublist (C16.erase_sublist _ _)
theorem nodupKeys_goDel {h : HMap} (n : Bytes) (hn : NodupKeys h) : NodupKeys (goDel h n) :=
  hn.sublist (C16.erase_sublist _ _)
theorem canonKeys_goSet {h : HMap} (n v : Bytes) (hc : CanonKeys h) : CanonKeys (goSet h n v) :=
  hc.put _ (C16.canonicalKey_idem n)
theorem nodupKeys_goSet {h : HMap} (n v : Bytes) (hn : NodupKeys h) : NodupKeys (goSet h n v) :=
  hn.put _ _
theorem canonKeys_goAdd {h : HMap} (n v : Bytes) (hc : CanonKeys h) : CanonKeys (goAdd h n v) :=
  hc.put _ (C16.canonicalKey_idem n)
theorem nodupKeys_goAdd {h : HMap} (n v : Bytes) (hn : NodupKeys h) : NodupKeys (goAdd h n v) :=
  hn.put _ _

theorem canonKeys_nil : CanonKeys ([] : HMap) := fun _ h => absurd h (by simp)
theorem nodupKeys_nil : NodupKeys ([] : HMap) := by simp [NodupKeys]

/-! ### `toHeader` -/

/-- values of the field lines whose canonical name is `k`, in wire order -/
def linesOf (fs : List (Bytes × Bytes)) (k : Bytes) : List Bytes :=
  (fs.filter fun f => canonicalKey f.1 == k).map (·.2)

theorem linesOf_nil (k : Bytes) : linesOf [] k = [] := rfl

theorem linesOf_cons (f : Bytes × Bytes) (fs : List (Bytes × Bytes)) (k : Bytes) :
    linesOf (f :: fs) k = (if canonicalKey f.1 = k then [f.2] else []) ++ linesOf fs k := by
  unfold linesOf
  by_cases hk : canonicalKey f.1 = k
  · simp [hk]
  · simp [hk]

/-- adding `vs` to what is stored -/
def optAppend (a : Option (List Bytes)) (vs : List Bytes) : Option (List Bytes) :=
  match vs with
  | [] => a
  | _ => some (a.getD [] ++ vs)

theorem lookup_foldl_goAdd (fs : List (Bytes × Bytes)) (h : HMap) (k : Bytes) :
    (fs.foldl (fun h f => goAdd h f.1 f.2) h).lookup k = optAppend (h.lookup k) (linesOf fs k) := by
  induction fs generalizing h with
  | nil => rfl
  | cons f fs ih =>
    rw [List.foldl_cons, ih, lookup_goAdd, linesOf_cons]
    by_cases hk : canonicalKey f.1 = k
    · subst hk
      simp only [if_true]
      cases hl : linesOf fs (canonicalKey f.1) with
      | nil => simp [optAppend]
      | cons a l => simp [optAppend]
    · have hk' : ¬ k = canonicalKey f.1 := fun h' => hk h'.symm
      simp [hk, hk']

theorem lookup_toHeader (fs : List (Bytes × Bytes)) (k : Bytes) :
    (toHeader fs).lookup k = optAppend none (linesOf fs k) := by
  unfold toHeader
  rw [lookup_foldl_goAdd]
  rfl

theorem hget_toHeader (fs : List (Bytes × Bytes)) (k : Bytes) :
    hget (toHeader fs) k = linesOf fs k := by
  unfold hget C16.HMap.get
  rw [lookup_toHeader]
  cases linesOf fs k <;> simp [optAppend]

theorem canonKeys_foldl_goAdd (fs : List (Bytes × Bytes)) (h : HMap) (hc : CanonKeys h) :
    CanonKeys (fs.foldl (fun h f => goAdd h f.1 f.2) h) := by
  induction fs generalizing h with
  | nil => exact hc
  | cons f fs ih => exact ih _ (canonKeys_goAdd _ _ hc)

theorem nodupKeys_foldl_goAdd (fs : List (Bytes × Bytes)) (h : HMap) (hn : NodupKeys h) :
    NodupKeys (fs.foldl (fun h f => goAdd h f.1 f.2) h) := by
  induction fs generalizing h with
  | nil => exact hn
  | cons f fs ih => exact ih _ (nodupKeys_goAdd _ _ hn)

theorem canonKeys_toHeader (fs : List (Bytes × Bytes)) : CanonKeys (toHeader fs) :=
  canonKeys_foldl_goAdd fs [] canonKeys_nil
theorem nodupKeys_toHeader (fs : List (Bytes × Bytes)) : NodupKeys (toHeader fs) :=
  nodupKeys_foldl_goAdd fs [] nodupKeys_nil

/-- for a token name: agreeing up to case = same canonical key -/
theorem canonicalKey_eq_iff_lower {a n : Bytes} (hn : n.all isTokenByte = true) :
    canonicalKey a = canonicalKey n ↔ lower a = lower n := by
  constructor
  · intro h
    have := congrArg lower h
    rwa [C16.lower_canonicalKey, C16.lower_canonicalKey] at this
  · intro h
    exact C16.canonicalKey_congr hn h

/-- the field lines named `n` (any case), in wire order -/
theorem linesOf_canonicalKey (fs : List (Bytes × Bytes)) {n : Bytes} (hn : n.all isTokenByte = true) :
    linesOf fs (canonicalKey n) = (fs.filter fun f => lower f.1 == lower n).map (·.2) := by
  unfold linesOf
  congr 1
  apply List.filter_congr
  intro f _
  rw [Bool.eq_iff_iff]
  simp only [beq_iff_eq]
  exact canonicalKey_eq_iff_lower hn

/-! ### deleting a list of names -/

theorem lookup_foldl_goDel (ns : List Bytes) (h : HMap) (k : Bytes) :
    (ns.foldl (fun h n => goDel h n) h).lookup k =
      if k ∈ ns.map canonicalKey then none else h.lookup k := by
  induction ns generalizing h with
  | nil => simp
  | cons n ns ih =>
    rw [List.foldl_cons, ih, lookup_goDel]
    by_cases h1 : k ∈ ns.map canonicalKey
    · simp [h1]
    · by_cases h2 : k = canonicalKey n
      · simp [h2]
      · simp [h1, h2]

theorem canonKeys_foldl_goDel (ns : List Bytes) (h : HMap) (hc : CanonKeys h) :
    CanonKeys (ns.foldl (fun h n => goDel h n) h) := by
  induction ns generalizing h with
  | nil => exact hc
  | cons n ns ih => exact ih _ (canonKeys_goDel _ hc)

theorem nodupKeys_foldl_goDel (ns : List Bytes) (h : HMap) (hn : NodupKeys h) :
    NodupKeys (ns.foldl (fun h n => goDel h n) h) := by
  induction ns generalizing h with
  | nil => exact hn
  | cons n ns ih => exact ih _ (nodupKeys_goDel _ hn)

/-- the names a header map's `Connection` values nominate (canonical spelling) -/
def nominatedOf (conn : List Bytes) : List Bytes :=
  conn.flatMap fun vs => (Req.splitComma vs).map fun v => canonicalKey (Req.trimSpace v)

theorem removeHopByHop_eq (h : HMap) :
    removeHopByHop h =
      hopByHopNames.foldl (fun h k => goDel h k)
        ((nominatedOf (hget h (Req.bs "Connection"))).foldl (fun h k => goDel h k) h) := rfl

theorem lookup_removeHopByHop (h : HMap) (k : Bytes) :
    (removeHopByHop h).lookup k =
      if k ∈ hopByHopNames.map canonicalKey then none
      else if k ∈ (nominatedOf (hget h (Req.bs "Connection"))).map canonicalKey then none
      else h.lookup k := by
  rw [removeHopByHop_eq, lookup_foldl_goDel, lookup_foldl_goDel]

theorem canonKeys_removeHopByHop {h : HMap} (hc : CanonKeys h) : CanonKeys (removeHopByHop h) := by
  rw [removeHopByHop_eq]
  exact canonKeys_foldl_goDel _ _ (canonKeys_foldl_goDel _ _ hc)

theorem nodupKeys_removeHopByHop {h : HMap} (hn : NodupKeys h) : NodupKeys (removeHopByHop h) := by
  rw [removeHopByHop_eq]
  exact nodupKeys_foldl_goDel _ _ (nodupKeys_foldl_goDel _ _ hn)

/-- nominated names are already canonical -/
theorem nominatedOf_canon (conn : List Bytes) : (nominatedOf conn).map canonicalKey = nominatedOf conn := by
  unfold nominatedOf
  rw [List.map_flatMap]
  congr 1
  funext vs
  rw [List.map_map]
  apply List.map_congr_left
  intro v _
  exact C16.canonicalKey_idem _

/-! ### filtering by key -/

theorem lookup_filter_key (q : Bytes → Bool) (h : HMap) (k : Bytes) :
    (h.filter fun e => q e.1).lookup k = if q k then h.lookup k else none := by
  induction h with
  | nil => simp
  | cons e h ih =>
    obtain ⟨k', vs⟩ := e
    by_cases hq : q k' = true
    · rw [List.filter_cons_of_pos (by simpa using hq), List.lookup_cons, List.lookup_cons, ih]
      by_cases hkk : k = k'
      · subst hkk; simp [hq]
      · have : (k == k') = false := by simpa using hkk
        simp [this]
    · rw [List.filter_cons_of_neg (by simpa using hq), ih, List.lookup_cons]
      by_cases hkk : k = k'
      · subst hkk; simp [hq]
      · have : (k == k') = false := by simpa using hkk
        simp [this]

/-! ### the output view -/

/-- all values listed under name `n`, in order -/
def valsOf (fs : List (Bytes × List Bytes)) (n : Bytes) : List Bytes :=
  (fs.filter fun e => e.1 == n).flatMap (·.2)

theorem valsOf_nil (n : Bytes) : valsOf [] n = [] := rfl

theorem valsOf_cons (e : Bytes × List Bytes) (fs : List (Bytes × List Bytes)) (n : Bytes) :
    valsOf (e :: fs) n = (if e.1 = n then e.2 else []) ++ valsOf fs n := by
  unfold valsOf
  by_cases hk : e.1 = n
  · simp [hk]
  · simp [hk]

theorem valsOf_append (a b : List (Bytes × List Bytes)) (n : Bytes) :
    valsOf (a ++ b) n = valsOf a n ++ valsOf b n := by
  simp [valsOf, List.filter_append]

theorem fieldValues_flatFields (fs : List (Bytes × List Bytes)) (n : Bytes) :
    fieldValues (flatFields fs) n = valsOf fs n := by
  induction fs with
  | nil => rfl
  | cons e fs ih =>
    have hcons : flatFields (e :: fs) = e.2.map (fun v => (e.1, v)) ++ flatFields fs := by
      simp [flatFields]
    rw [valsOf_cons, ← ih, hcons]
    unfold fieldValues
    rw [List.filter_append, List.map_append]
    congr 1
    by_cases hk : e.1 = n
    · simp [hk, List.filter_map, Function.comp_def]
    · have : (e.1 == n) = false := by simpa using hk
      simp [hk, List.filter_map, Function.comp_def, this]

/-- with unique names the values under `n` are what `lookup` finds -/
theorem valsOf_eq_lookup {fs : List (Bytes × List Bytes)} (hn : (fs.map (·.1)).Nodup) (n : Bytes) :
    valsOf fs n = (fs.lookup n).getD [] := by
  induction fs with
  | nil => rfl
  | cons e fs ih =>
    obtain ⟨k, vs⟩ := e
    rw [List.map_cons, List.nodup_cons] at hn
    rw [valsOf_cons, List.lookup_cons, ih hn.2]
    by_cases hk : k = n
    · subst hk
      have hnone : fs.lookup k = none := by
        rw [List.lookup_eq_none_iff]
        intro e he
        simp only [bne_iff_ne, ne_eq]
        intro heq
        exact hn.1 (List.mem_map.mpr ⟨e, he, heq.symm⟩)
      simp [hnone]
    · have : (n == k) = false := by simpa using (fun h' : n = k => hk h'.symm)
      simp [hk, this]

/-- one step of `mergeFields` -/
def mstep (acc : List (Bytes × List Bytes)) (f : Bytes × List Bytes) : List (Bytes × List Bytes) :=
  if acc.any (fun e => e.1 == f.1) then acc.map (fun e => if e.1 == f.1 then (e.1, e.2 ++ f.2) else e)
  else acc ++ [f]

theorem mergeFields_eq (fs : List (Bytes × List Bytes)) : mergeFields fs = fs.foldl mstep [] := rfl

theorem names_mstep (acc : List (Bytes × List Bytes)) (f : Bytes × List Bytes) :
    (mstep acc f).map (·.1) = if f.1 ∈ acc.map (·.1) then acc.map (·.1) else acc.map (·.1) ++ [f.1] := by
  unfold mstep
  by_cases h : acc.any (fun e => e.1 == f.1) = true
  · have hm : f.1 ∈ acc.map (·.1) := by
      simp only [List.any_eq_true, beq_iff_eq] at h
      obtain ⟨e, he, hk⟩ := h
      exact List.mem_map.mpr ⟨e, he, hk⟩
    rw [if_pos h, if_pos hm, List.map_map]
    apply List.map_congr_left
    intro e _
    show (if (e.1 == f.1) = true then (e.1, e.2 ++ f.2) else e).1 = e.1
    split <;> rfl
  · have hm : f.1 ∉ acc.map (·.1) := by
      intro hm
      apply h
      obtain ⟨e, he, hk⟩ := List.mem_map.mp hm
      simp only [List.any_eq_true, beq_iff_eq]
      exact ⟨e, he, hk⟩
    rw [if_neg h, if_neg hm]
    simp

theorem nodup_mstep {acc : List (Bytes × List Bytes)} (f : Bytes × List Bytes)
    (hn : (acc.map (·.1)).Nodup) : ((mstep acc f).map (·.1)).Nodup := by
  rw [names_mstep]
  split
  · exact hn
  · rename_i hm
    rw [List.nodup_append]
    refine ⟨hn, by simp, ?_⟩
    intro a ha b hb
    simp only [List.mem_singleton] at hb
    subst hb
    intro hab; subst hab
    exact hm ha

theorem lookup_map_absorb (acc : List (Bytes × List Bytes)) (f1 : Bytes) (x : List Bytes) {n : Bytes}
    (hne : ¬ f1 = n) :
    (acc.map (fun e => if e.1 == f1 then (e.1, e.2 ++ x) else e)).lookup n = acc.lookup n := by
  induction acc with
  | nil => rfl
  | cons e acc ih =>
    obtain ⟨k, vs⟩ := e
    rw [List.map_cons, List.lookup_cons, List.lookup_cons, ih]
    by_cases hk : (k == f1) = true
    · have hk' : k = f1 := by simpa using hk
      have hb : (n == k) = false := by
        simpa using (fun h' : n = k => hne (hk'.symm.trans h'.symm))
      simp only [hk, if_true, hb]
    · simp only [hk, Bool.false_eq_true, if_false]

theorem lookup_mstep (acc : List (Bytes × List Bytes)) (f : Bytes × List Bytes) (n : Bytes) :
    (mstep acc f).lookup n =
      if f.1 = n then some ((acc.lookup n).getD [] ++ f.2) else acc.lookup n := by
  obtain ⟨f1, f2⟩ := f
  induction acc with
  | nil =>
    unfold mstep
    by_cases hk : f1 = n
    · subst hk; simp
    · have : (n == f1) = false := by simpa using (fun h' : n = f1 => hk h'.symm)
      simp [hk, List.lookup_cons, this]
  | cons e acc ih =>
    obtain ⟨k, vs⟩ := e
    by_cases hkf : k = f1
    · -- the head entry absorbs the values
      have hany : ((k, vs) :: acc).any (fun e => e.1 == (f1, f2).1) = true := by simp [hkf]
      unfold mstep
      rw [if_pos hany, List.map_cons]
      have hhead : (if ((k, vs).1 == (f1, f2).1) = true then ((k, vs).1, (k, vs).2 ++ (f1, f2).2) else (k, vs)) =
          (k, vs ++ f2) := by simp [hkf]
      rw [hhead, List.lookup_cons, List.lookup_cons]
      by_cases hnk : n = k
      · subst hnk
        simp [hkf]
      · have hb : (n == k) = false := by simpa using hnk
        rw [hb]
        have hfn : ¬ f1 = n := fun h' => hnk (h'.symm.trans hkf.symm)
        simp only [hfn, if_false]
        exact lookup_map_absorb acc f1 f2 hfn
    · have hkf' : ((k, vs).1 == (f1, f2).1) = false := by simpa using hkf
      have hstep : mstep ((k, vs) :: acc) (f1, f2) = (k, vs) :: mstep acc (f1, f2) := by
        unfold mstep
        simp only [List.any_cons, hkf', Bool.false_or, List.map_cons, Bool.false_eq_true, if_false]
        split <;> rfl
      rw [hstep, List.lookup_cons, List.lookup_cons, ih]
      by_cases hnk : n = k
      · subst hnk
        have : ¬ f1 = n := fun h' => hkf h'.symm
        simp [this]
      · have hb : (n == k) = false := by simpa using hnk
        simp [hb]

theorem foldl_mstep_spec (fs acc : List (Bytes × List Bytes)) (hn : (acc.map (·.1)).Nodup) (n : Bytes) :
    ((fs.foldl mstep acc).map (·.1)).Nodup ∧
    (fs.foldl mstep acc).lookup n =
      if n ∈ fs.map (·.1) then some ((acc.lookup n).getD [] ++ valsOf fs n) else acc.lookup n := by
  induction fs generalizing acc with
  | nil => exact ⟨hn, by simp⟩
  | cons f fs ih =>
    obtain ⟨h1, h2⟩ := ih (mstep acc f) (nodup_mstep f hn)
    refine ⟨h1, ?_⟩
    rw [List.foldl_cons, h2, lookup_mstep, valsOf_cons, List.map_cons]
    by_cases hf : f.1 = n
    · subst hf
      by_cases hm : f.1 ∈ fs.map (·.1)
      · simp [hm]
      · have hv : valsOf fs f.1 = [] := by
          unfold valsOf
          rw [List.filter_eq_nil_iff.mpr]
          · rfl
          · intro e he hk
            exact hm (List.mem_map.mpr ⟨e, he, by simpa using hk⟩)
        simp [hm, hv]
    · have hne : ¬ n = f.1 := fun h' => hf h'.symm
      by_cases hm : n ∈ fs.map (·.1)
      · simp [hf, hm]
      · simp [hf, hm, hne]

theorem nodup_mergeFields (fs : List (Bytes × List Bytes)) : ((mergeFields fs).map (·.1)).Nodup :=
  (foldl_mstep_spec fs [] (by simp) []).1

theorem lookup_mergeFields (fs : List (Bytes × List Bytes)) (n : Bytes) :
    (mergeFields fs).lookup n = if n ∈ fs.map (·.1) then some (valsOf fs n) else none := by
  rw [mergeFields_eq, (foldl_mstep_spec fs [] (by simp) n).2]
  simp

/-- merging does not change the values listed under a name -/
theorem valsOf_mergeFields (fs : List (Bytes × List Bytes)) (n : Bytes) :
    valsOf (mergeFields fs) n = valsOf fs n := by
  rw [valsOf_eq_lookup (nodup_mergeFields fs), lookup_mergeFields]
  split
  · rfl
  · rename_i hm
    unfold valsOf
    rw [List.filter_eq_nil_iff.mpr]
    · rfl
    · intro e he hk
      exact hm (List.mem_map.mpr ⟨e, he, by simpa using hk⟩)

/-- merging introduces no names -/
theorem mem_names_mergeFields {fs : List (Bytes × List Bytes)} {e : Bytes × List Bytes}
    (he : e ∈ mergeFields fs) : e.1 ∈ fs.map (·.1) := by
  have hsome : ((mergeFields fs).lookup e.1).isSome = true := by
    cases hl : (mergeFields fs).lookup e.1 with
    | some _ => rfl
    | none =>
      rw [List.lookup_eq_none_iff] at hl
      exact absurd (hl e he) (by simp)
  rw [lookup_mergeFields] at hsome
  split at hsome
  · assumption
  · simp at hsome

/-! ### `lowerFields` of a map with canonical, unique keys -/

theorem valsOf_lowerFields {h : HMap} (hc : CanonKeys h) (hn : NodupKeys h) {n : Bytes}
    (ht : n.all isTokenByte = true) :
    valsOf (lowerFields h) (lower n) = (h.lookup (canonicalKey n)).getD [] := by
  have h1 : valsOf (lowerFields h) (lower n) = valsOf h (canonicalKey n) := by
    unfold valsOf lowerFields
    rw [List.filter_map, List.flatMap_map]
    have : (h.filter ((fun e : Bytes × List Bytes => e.1 == lower n) ∘ fun e => (lower e.1, e.2))) =
        h.filter (fun e => e.1 == canonicalKey n) := by
      apply List.filter_congr
      intro e he
      show (lower e.1 == lower n) = (e.1 == canonicalKey n)
      rw [Bool.eq_iff_iff]
      simp only [beq_iff_eq]
      exact C16.lower_eq_iff_of_canon (hc e he) ht
    rw [this]
  rw [h1]
  exact valsOf_eq_lookup hn _

/-- a lower-cased name occurring in `lowerFields h` comes from the key spelt canonically -/
theorem mem_lowerFields_names {h : HMap} (hc : CanonKeys h) {n : Bytes} (ht : n.all isTokenByte = true)
    (hm : lower n ∈ (lowerFields h).map (·.1)) : (h.lookup (canonicalKey n)).isSome = true := by
  obtain ⟨e', he', hk⟩ := List.mem_map.mp hm
  unfold lowerFields at he'
  obtain ⟨e, he, rfl⟩ := List.mem_map.mp he'
  have hke : e.1 = canonicalKey n := (C16.lower_eq_iff_of_canon (hc e he) ht).mp hk
  cases hl : h.lookup (canonicalKey n) with
  | some _ => rfl
  | none =>
    rw [List.lookup_eq_none_iff] at hl
    exact absurd (hl e he) (by simp [hke])

theorem toLower_idem (c : UInt8) : toLower (toLower c) = toLower c := by
  simp only [toLower, isUpper]
  grind

theorem lower_idem (s : Bytes) : lower (lower s) = lower s := by
  induction s with
  | nil => rfl
  | cons c cs ih => simp only [C16.lower_cons, toLower_idem, ih]

/-! ### keys that are tokens -/

/-- every raw key is an RFC 7230 token -/
def TokKeys (h : HMap) : Prop := ∀ e ∈ h, e.1.all isTokenByte = true

theorem tokKeys_nil : TokKeys ([] : HMap) := fun _ h => absurd h (by simp)

theorem TokKeys.sublist {h h' : HMap} (hs : h'.Sublist h) (ht : TokKeys h) : TokKeys h' :=
  fun e he => ht e (hs.subset he)

theorem tokKeys_put {h : HMap} {c : Bytes} (vs : List Bytes) (hc : c.all isTokenByte = true)
    (ht : TokKeys h) : TokKeys (HMap.put h c vs) := by
  intro e he
  rcases C16.mem_put he with he | rfl
  · exact ht e he
  · exact hc

theorem tokKeys_goDel {h : HMap} (n : Bytes) (ht : TokKeys h) : TokKeys (goDel h n) :=
  ht.sublist (C16.erase_sublist _ _)

theorem tokKeys_goSet {h : HMap} {n : Bytes} (v : Bytes) (hn : n.all isTokenByte = true)
    (ht : TokKeys h) : TokKeys (goSet h n v) :=
  tokKeys_put _ (by rw [C16.all_token_canonicalKey]; exact hn) ht

theorem tokKeys_goAdd {h : HMap} {n : Bytes} (v : Bytes) (hn : n.all isTokenByte = true)
    (ht : TokKeys h) : TokKeys (goAdd h n v) :=
  tokKeys_put _ (by rw [C16.all_token_canonicalKey]; exact hn) ht

theorem tokKeys_toHeader (fs : List (Bytes × Bytes)) (hwf : ∀ f ∈ fs, f.1.all isTokenByte = true) :
    TokKeys (toHeader fs) := by
  unfold toHeader
  suffices ∀ h : HMap, TokKeys h → TokKeys (fs.foldl (fun h f => goAdd h f.1 f.2) h) from
    this [] tokKeys_nil
  induction fs with
  | nil => exact fun h ht => ht
  | cons f fs ih =>
    intro h ht
    exact ih (fun f' hf' => hwf f' (List.mem_cons_of_mem _ hf')) _
      (tokKeys_goAdd _ (hwf f List.mem_cons_self) ht)

theorem tokKeys_foldl_goDel (ns : List Bytes) (h : HMap) (ht : TokKeys h) :
    TokKeys (ns.foldl (fun h n => goDel h n) h) := by
  induction ns generalizing h with
  | nil => exact ht
  | cons n ns ih => exact ih _ (tokKeys_goDel _ ht)

theorem tokKeys_removeHopByHop {h : HMap} (ht : TokKeys h) : TokKeys (removeHopByHop h) := by
  rw [removeHopByHop_eq]
  exact tokKeys_foldl_goDel _ _ (tokKeys_foldl_goDel _ _ ht)

end Resp
end FwdVerif
