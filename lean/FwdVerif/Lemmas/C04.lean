/-
  C04 — helper lemmas (core Lean only).

  §1 the security prefix as "first failing control in the fixed order"
  §2 header maps: what `goDel` / `removeHopByHop` leave behind
  §3 base64 / basic-auth round trip
-/
import FwdVerif.Model.C04
import FwdVerif.Lemmas.C16

namespace FwdVerif
namespace C04

open Ascii Req
open C16 (HMap goDel goSet goAdd)

/-! ## §1 -/

theorem authenticated_eq (u p a : Bytes) :
    authenticated u p a =
      (if a.isEmpty then false else
        match parseBasicAuth a with
        | some (u', p') => u' == u && p' == p
        | none => false) := by
  unfold authenticated
  cases h : parseBasicAuth a with
  | none => simp
  | some up =>
    obtain ⟨u', p'⟩ := up
    cases he : a.isEmpty <;> simp

/-- the security prefix of the modifier stack is: the refusal of the first control, in the order
    time frame, basic auth, localhost, deny-domains, that rejects -/
theorem securityCheck_eq_firstFailing (cfg : Cfg) (g : GoReq) :
    securityCheck cfg g =
      (firstFailing cfg (hostname g.urlHost) (goGet g.header (bs "Proxy-Authorization"))).map Control.refusal := by
  unfold securityCheck firstFailing order
  simp only [List.find?, Control.fails]
  generalize (cfg.denyLocalhost && isLocalhost cfg (hostname g.urlHost)) = bl
  generalize (cfg.denyExact.contains (hostname g.urlHost) || domMatch cfg.denyRules (hostname g.urlHost)) = bd
  cases ht : cfg.timeAllowed
  · simp [Control.refusal]
  · cases hb : cfg.basicAuth with
    | none => cases bl <;> cases bd <;> simp [Control.refusal]
    | some up =>
      obtain ⟨u, p⟩ := up
      unfold authenticated
      cases he : (goGet g.header (bs "Proxy-Authorization")).isEmpty <;>
        cases hpa : parseBasicAuth (goGet g.header (bs "Proxy-Authorization")) with
        | none => cases bl <;> cases bd <;> simp [Control.refusal]
        | some up' =>
          obtain ⟨u', p'⟩ := up'
          cases hu : (u' == u) <;> cases hp : (p' == p) <;> cases bl <;> cases bd <;> simp [Control.refusal, hu, hp]

/-- a non-CONNECT request failing a control is refused with the first failing control's status -/
theorem processRequest_of_failing {cfg : Cfg} {ctx : Ctx} {r : Request} {hn pa : Bytes} {c : Control}
    (hv : requestView r = some (hn, pa)) (hf : firstFailing cfg hn pa = some c) :
    processRequest cfg ctx r = .refused c.refusal.status c.refusal := by
  unfold requestView at hv
  unfold processRequest
  cases hr : readRequest r with
  | error e => rw [hr] at hv; simp at hv
  | ok g0 =>
    rw [hr] at hv
    simp only [Option.some.injEq, Prod.mk.injEq] at hv
    obtain ⟨h1, h2⟩ := hv
    simp only [securityCheck_eq_firstFailing, h1, h2, hf, Option.map_some]

/-- outcomes a request that passed the controls can end in -/
def passShape : Outcome → Bool
  | .badRequest | .routeError | .forwarded _ _ => true
  | .refused st w => st == 400 && w == .loop
  | .unreadable => false

theorem passShape_iff (o : Outcome) :
    passShape o = true ↔ o = .badRequest ∨ o = .refused 400 .loop ∨ o = .routeError ∨ ∃ hop out, o = .forwarded hop out := by
  cases o with
  | refused st w => simp [passShape]
  | badRequest => simp [passShape]
  | forwarded hop out => simp [passShape]
  | unreadable => simp [passShape]
  | routeError => simp [passShape]

theorem passShape_ite (c : Prop) [Decidable c] (h1 h2 : Hop) (o1 o2 : OutMsg) :
    passShape (if c then .forwarded h1 o1 else .forwarded h2 o2) = true := by
  split <;> rfl

/-- a non-CONNECT request passing every control is not refused by one: it ends as bad framing, as a
    detected loop, as a routing error, or is forwarded -/
theorem processRequest_of_passing {cfg : Cfg} {ctx : Ctx} {r : Request} {hn pa : Bytes}
    (hv : requestView r = some (hn, pa)) (hf : firstFailing cfg hn pa = none) :
    processRequest cfg ctx r = .badRequest ∨ processRequest cfg ctx r = .refused 400 .loop ∨
      processRequest cfg ctx r = .routeError ∨ ∃ hop out, processRequest cfg ctx r = .forwarded hop out := by
  rw [← passShape_iff]
  unfold requestView at hv
  unfold processRequest
  cases hr : readRequest r with
  | error e => rw [hr] at hv; simp at hv
  | ok g0 =>
    rw [hr] at hv
    simp only [Option.some.injEq, Prod.mk.injEq] at hv
    obtain ⟨h1, h2⟩ := hv
    simp only [securityCheck_eq_firstFailing, h1, h2, hf, Option.map_none]
    split
    · rfl
    · split
      · rfl
      · split <;> first | rfl | exact passShape_ite _ _ _ _ _

/-- when the security prefix passes, the CONNECT modifier stack can only fail with bad framing or a loop -/
theorem connectModified_error {cfg : Cfg} {g : GoReq} {o : ConnectOutcome}
    (hs : securityCheck cfg g = none) (h : connectModified cfg g = .error o) :
    o = .badRequest ∨ o = .refused 400 .loop := by
  unfold connectModified at h
  rw [hs] at h
  simp only [] at h
  split at h
  · injection h with h; exact Or.inl h.symm
  · split at h
    · injection h with h; exact Or.inr h.symm
    · cases h

theorem connectModified_of_failing {cfg : Cfg} {g : GoReq} {w : Refusal}
    (hs : securityCheck cfg g = some w) : connectModified cfg g = .error (.refused w.status w) := by
  unfold connectModified
  rw [hs]

theorem processConnect_of_failing {cfg : Cfg} {ctx : Ctx} {q : ConnectReq} {hn pa : Bytes} {c : Control}
    (hv : connectView q = some (hn, pa)) (hf : firstFailing cfg hn pa = some c) :
    processConnect cfg ctx q = .refused c.refusal.status c.refusal := by
  unfold connectView at hv
  unfold processConnect
  cases hr : readRequest q.asRequest with
  | error e => rw [hr] at hv; simp at hv
  | ok g0 =>
    rw [hr] at hv
    simp only [Option.some.injEq, Prod.mk.injEq] at hv
    obtain ⟨h1, h2⟩ := hv
    have hs : securityCheck cfg { g0 with header := goDel g0.header (bs "X-Martian-Terminate-Tls") } = some c.refusal := by
      rw [securityCheck_eq_firstFailing]
      simp only [h1, h2, hf, Option.map_some]
    simp only [connectModified_of_failing hs]

theorem processConnect_of_passing {cfg : Cfg} {ctx : Ctx} {q : ConnectReq} {hn pa : Bytes}
    (hv : connectView q = some (hn, pa)) (hf : firstFailing cfg hn pa = none) :
    processConnect cfg ctx q = .badRequest ∨ processConnect cfg ctx q = .refused 400 .loop ∨
      processConnect cfg ctx q = .routeError ∨ processConnect cfg ctx q = .mitm ∨
      ∃ a, processConnect cfg ctx q = .tunnel a := by
  unfold connectView at hv
  unfold processConnect
  cases hr : readRequest q.asRequest with
  | error e => rw [hr] at hv; simp at hv
  | ok g0 =>
    rw [hr] at hv
    simp only [Option.some.injEq, Prod.mk.injEq] at hv
    obtain ⟨h1, h2⟩ := hv
    have hs : securityCheck cfg { g0 with header := goDel g0.header (bs "X-Martian-Terminate-Tls") } = none := by
      rw [securityCheck_eq_firstFailing]
      simp only [h1, h2, hf, Option.map_none]
    simp only []
    cases hm : connectModified cfg { g0 with header := goDel g0.header (bs "X-Martian-Terminate-Tls") } with
    | error o =>
      rcases connectModified_error hs hm with h | h
      · exact Or.inl h
      · exact Or.inr (Or.inl h)
    | ok h =>
      simp only []
      unfold connectDispatch
      split
      · exact Or.inr (Or.inr (Or.inr (Or.inl rfl)))
      · split <;>
          first
          | exact Or.inr (Or.inr (Or.inl rfl))
          | exact Or.inr (Or.inr (Or.inr (Or.inr ⟨_, rfl⟩)))

/-! ## §2 header maps -/

theorem lookup_erase_self (h : HMap) (c : Bytes) : (HMap.erase h c).lookup c = none := by
  induction h with
  | nil => rfl
  | cons e h ih =>
    obtain ⟨k, vs⟩ := e
    unfold HMap.erase at ih ⊢
    by_cases hk : k = c
    · subst hk
      simpa [List.filter_cons] using ih
    · have h1 : (k != c) = true := by simpa using hk
      have h2 : (c == k) = false := by simpa using (fun h' : c = k => hk h'.symm)
      simp only [List.filter_cons, h1, if_true, List.lookup_cons, h2]
      exact ih

theorem lookup_erase_of_none {h : HMap} {k : Bytes} (c : Bytes) (hn : h.lookup k = none) :
    (HMap.erase h c).lookup k = none := by
  induction h with
  | nil => rfl
  | cons e h ih =>
    obtain ⟨k', vs⟩ := e
    unfold HMap.erase at ih ⊢
    rw [List.lookup_cons] at hn
    cases hkk : (k == k') with
    | true => rw [hkk] at hn; cases hn
    | false =>
      rw [hkk] at hn
      simp only [List.filter_cons]
      split
      · rw [List.lookup_cons, hkk]; exact ih hn
      · exact ih hn

theorem lookup_erase_ne (h : HMap) {k c : Bytes} (hne : k ≠ c) :
    (HMap.erase h c).lookup k = h.lookup k := by
  induction h with
  | nil => rfl
  | cons e h ih =>
    obtain ⟨k', vs⟩ := e
    unfold HMap.erase at ih ⊢
    simp only [List.filter_cons]
    by_cases hk : k' = c
    · subst hk
      have : (k == k') = false := by simpa using hne
      simp only [bne_self_eq_false, Bool.false_eq_true, if_false, List.lookup_cons, this]
      exact ih
    · have h1 : (k' != c) = true := by simpa using hk
      simp only [h1, if_true, List.lookup_cons]
      rw [ih]

/-- after a run of `Header.Del` calls that includes the name, the key is gone -/
theorem lookup_foldl_goDel {names : List Bytes} {k : Bytes} (h : HMap)
    (hk : ∃ n ∈ names, canonicalKey n = k) : (names.foldl (fun h n => goDel h n) h).lookup k = none := by
  have stay : ∀ (ns : List Bytes) (h : HMap), h.lookup k = none → (ns.foldl (fun h n => goDel h n) h).lookup k = none := by
    intro ns
    induction ns with
    | nil => intro h hn; exact hn
    | cons n ns ih => intro h hn; exact ih _ (lookup_erase_of_none _ hn)
  induction names generalizing h with
  | nil => obtain ⟨n, hn, _⟩ := hk; cases hn
  | cons n ns ih =>
    obtain ⟨m, hm, hmk⟩ := hk
    rcases List.mem_cons.mp hm with rfl | hm'
    · simp only [List.foldl_cons]
      apply stay
      unfold goDel
      rw [hmk]
      exact lookup_erase_self _ _
    · simp only [List.foldl_cons]
      exact ih _ ⟨m, hm', hmk⟩

theorem canon_proxyAuthenticate : canonicalKey (bs "Proxy-Authenticate") = bs "Proxy-Authenticate" := by
  with_unfolding_all decide

theorem canon_proxyAuthorization : canonicalKey (bs "Proxy-Authorization") = bs "Proxy-Authorization" := by
  with_unfolding_all decide

theorem mem_hop_proxyAuthenticate : bs "Proxy-Authenticate" ∈ hopByHopNames := by
  with_unfolding_all decide

theorem mem_hop_proxyAuthorization : bs "Proxy-Authorization" ∈ hopByHopNames := by
  with_unfolding_all decide

/-- hop-by-hop removal deletes every name of the static list, whatever else the map holds -/
theorem removeHopByHop_static (h : HMap) {n : Bytes} (hn : n ∈ hopByHopNames) :
    (removeHopByHop h).lookup (canonicalKey n) = none := by
  unfold removeHopByHop
  exact lookup_foldl_goDel _ ⟨n, hn, rfl⟩

theorem lookup_foldl_goDel_ne {names : List Bytes} {k : Bytes} (h : HMap)
    (hk : ∀ n ∈ names, canonicalKey n ≠ k) : (names.foldl (fun h n => goDel h n) h).lookup k = h.lookup k := by
  induction names generalizing h with
  | nil => rfl
  | cons n ns ih =>
    simp only [List.foldl_cons]
    rw [ih _ (fun m hm => hk m (List.mem_cons_of_mem _ hm))]
    unfold goDel
    exact lookup_erase_ne h (fun e => hk n List.mem_cons_self e.symm)

theorem lookup_goSet_self (h : HMap) (n v : Bytes) : (goSet h n v).lookup (canonicalKey n) = some [v] := by
  unfold goSet; exact C16.lookup_put_self _ _ _

theorem lookup_goSet_ne (h : HMap) {n k : Bytes} (v : Bytes) (hne : k ≠ canonicalKey n) :
    (goSet h n v).lookup k = h.lookup k := by
  unfold goSet; exact C16.lookup_put_ne _ _ hne

/-! ## §3 basic auth -/

theorem parseBasicAuth_nil : parseBasicAuth [] = none := by
  with_unfolding_all decide

theorem parseBasicAuth_some_ne_nil {v : Bytes} {up : Bytes × Bytes} (h : parseBasicAuth v = some up) : v ≠ [] := by
  intro hv; subst hv; rw [parseBasicAuth_nil] at h; cases h

theorem authenticated_iff (u p v : Bytes) : authenticated u p v = true ↔ parseBasicAuth v = some (u, p) := by
  unfold authenticated
  cases h : parseBasicAuth v with
  | none => simp
  | some up =>
    obtain ⟨u', p'⟩ := up
    have hne : v ≠ [] := parseBasicAuth_some_ne_nil h
    have : v.isEmpty = false := by cases v with | nil => exact absurd rfl hne | cons _ _ => rfl
    simp [this]

/-! ### base64 round trip and the canonical credential encoding -/

theorem b64Val_b64Char : ∀ n, n < 64 → b64Val (b64Char n) = some n := by decide
theorem b64Char_ne_pad : ∀ n, n < 64 → b64Char n ≠ 61 := by decide

theorem b64_byte1 (a b : UInt8) : UInt8.ofNat ((a.toNat / 4 * 4 + (a.toNat % 4 * 16 + b.toNat / 16) / 16) % 256) = a := by
  have ha := a.toNat_lt
  have hb := b.toNat_lt
  have : (a.toNat / 4 * 4 + (a.toNat % 4 * 16 + b.toNat / 16) / 16) % 256 = a.toNat := by omega
  rw [this]; simp

theorem b64_byte2 (b c : UInt8) (x : Nat) (_hx : x < 4) :
    UInt8.ofNat (((x * 16 + b.toNat / 16) * 16 + (b.toNat % 16 * 4 + c.toNat / 64) / 4) % 256) = b := by
  have hb := b.toNat_lt
  have hc := c.toNat_lt
  have : ((x * 16 + b.toNat / 16) * 16 + (b.toNat % 16 * 4 + c.toNat / 64) / 4) % 256 = b.toNat := by omega
  rw [this]; simp

theorem b64_byte3 (c : UInt8) (y : Nat) (_hy : y < 16) :
    UInt8.ofNat (((y * 4 + c.toNat / 64) * 64 + c.toNat % 64) % 256) = c := by
  have hc := c.toNat_lt
  have : ((y * 4 + c.toNat / 64) * 64 + c.toNat % 64) % 256 = c.toNat := by omega
  rw [this]; simp

theorem b64Decode_encode (x : Bytes) : b64Decode (b64Encode x) = some x := by
  induction x using b64Encode.induct with
  | case1 => rfl
  | case2 a =>
    have ha := a.toNat_lt
    unfold b64Encode
    rw [b64Decode.eq_2]
    rw [b64Val_b64Char _ (by omega), b64Val_b64Char _ (by omega)]
    simp only [Option.bind_eq_bind, Option.bind_some, Option.pure_def]
    have := b64_byte1 a 0
    simp at this
    simp [this]
  | case3 a b =>
    have ha := a.toNat_lt
    have hb := b.toNat_lt
    unfold b64Encode
    rw [b64Decode.eq_3 _ _ _ (b64Char_ne_pad _ (by omega))]
    rw [b64Val_b64Char _ (by omega), b64Val_b64Char _ (by omega), b64Val_b64Char _ (by omega)]
    simp only [Option.bind_eq_bind, Option.bind_some, Option.pure_def]
    have h1 := b64_byte1 a b
    have h2 := b64_byte2 b 0 (a.toNat % 4) (by omega)
    simp at h2
    simp [h1, h2]
  | case4 a b c rest ih =>
    have ha := a.toNat_lt
    have hb := b.toNat_lt
    have hc := c.toNat_lt
    unfold b64Encode
    rw [b64Decode.eq_4 _ _ _ _ _ (fun h => absurd h (b64Char_ne_pad _ (by omega))) (fun h => absurd h (b64Char_ne_pad _ (by omega)))]
    rw [b64Val_b64Char _ (by omega), b64Val_b64Char _ (by omega), b64Val_b64Char _ (by omega), b64Val_b64Char _ (by omega), ih]
    simp only [Option.bind_eq_bind, Option.bind_some, Option.pure_def]
    have h1 := b64_byte1 a b
    have h2 := b64_byte2 b c (a.toNat % 4) (by omega)
    have h3 := b64_byte3 c (b.toNat % 16) (by omega)
    simp [h1, h2, h3]

theorem takeWhile_ne_append {c : UInt8} {u : Bytes} (p : Bytes) (h : c ∉ u) :
    (u ++ c :: p).takeWhile (fun x => x != c) = u := by
  induction u with
  | nil => simp
  | cons x xs ih =>
    have hx : (x != c) = true := by
      simp only [bne_iff_ne, ne_eq]
      intro e; exact h (by simp [e])
    simp only [List.cons_append, List.takeWhile_cons, hx, if_true]
    rw [ih (fun hm => h (List.mem_cons_of_mem _ hm))]

theorem basicPrefix_len : (bs "Basic ").length = 6 := by with_unfolding_all decide
theorem basicPrefix_fold : eqFold (bs "Basic ") (bs "Basic ") = true := by with_unfolding_all decide

/-- the canonical encoding of the configured credentials is accepted (user names contain no colon) -/
theorem parseBasicAuth_basicAuthValue (u p : Bytes) (hu : (58 : UInt8) ∉ u) :
    parseBasicAuth (basicAuthValue u p) = some (u, p) := by
  unfold parseBasicAuth basicAuthValue
  have ht : (bs "Basic " ++ b64Encode (u ++ [58] ++ p)).take 6 = bs "Basic " := by
    rw [← basicPrefix_len]; simp
  have hd : (bs "Basic " ++ b64Encode (u ++ [58] ++ p)).drop 6 = b64Encode (u ++ [58] ++ p) := by
    rw [← basicPrefix_len]; simp
  simp only [ht, hd, basicPrefix_fold, b64Decode_encode]
  have hlen : decide ((bs "Basic " ++ b64Encode (u ++ [58] ++ p)).length < 6) = false := by
    simp [basicPrefix_len]
  simp only [hlen, Bool.not_true, Bool.or_self, Bool.false_eq_true, if_false]
  have htw : (u ++ [58] ++ p).takeWhile (fun c => c != 58) = u := by
    rw [List.append_assoc]; exact takeWhile_ne_append p hu
  simp only [htw]
  have : (u.length == (u ++ [58] ++ p).length) = false := by
    simp
  simp only [this, Bool.false_eq_true, if_false]
  simp

/-! ## §5 the credentials pair: scheme, base64, split at the first colon -/

theorem splitFirstColon_eq (cs : Bytes) :
    splitFirstColon cs =
      (if (cs.takeWhile (fun c => c != 58)).length == cs.length then none
       else some (cs.takeWhile (fun c => c != 58), cs.drop ((cs.takeWhile (fun c => c != 58)).length + 1))) := by
  induction cs with
  | nil => rfl
  | cons c cs ih =>
    unfold splitFirstColon
    by_cases hc : c = 58
    · subst hc; simp
    · have h1 : (c == 58) = false := by simpa using hc
      have h2 : (c != 58) = true := by simpa using hc
      simp only [h1, Bool.false_eq_true, if_false, List.takeWhile_cons, h2, if_true, List.length_cons, ih]
      split <;> rename_i h
      · simp at h; simp [h]
      · simp at h; simp [h]

/-- `parseBasicAuth` = read the credentials string, then split it at the first colon -/
theorem parseBasicAuth_eq (v : Bytes) : parseBasicAuth v = (basicPayload v).bind splitFirstColon := by
  unfold parseBasicAuth basicPayload
  split
  · rfl
  · cases b64Decode (v.drop 6) with
    | none => rfl
    | some cs => simp only [Option.bind_some]; rw [splitFirstColon_eq]

/-- a credentials string splits into `(u, p)` iff it is `u`, a colon, `p`, and `u` has no colon -/
theorem splitFirstColon_iff (cs u p : Bytes) :
    splitFirstColon cs = some (u, p) ↔ cs = u ++ 58 :: p ∧ (58 : UInt8) ∉ u := by
  induction cs generalizing u with
  | nil => simp [splitFirstColon]
  | cons c cs ih =>
    unfold splitFirstColon
    by_cases hc : c = 58
    · subst hc
      simp only [beq_self_eq_true, if_true, Option.some.injEq, Prod.mk.injEq]
      constructor
      · rintro ⟨rfl, rfl⟩; simp
      · rintro ⟨h, hu⟩
        cases u with
        | nil => simp at h; exact ⟨rfl, h⟩
        | cons x xs =>
          simp only [List.cons_append, List.cons.injEq] at h
          exact absurd (by simp [← h.1]) hu
    · have h1 : (c == 58) = false := by simpa using hc
      simp only [h1, Bool.false_eq_true, if_false, Option.map_eq_some_iff, Prod.mk.injEq]
      constructor
      · rintro ⟨⟨u', p'⟩, hs, rfl, rfl⟩
        obtain ⟨h, hu⟩ := (ih u').mp hs
        refine ⟨by simp [h], ?_⟩
        simp only [List.mem_cons, not_or]
        exact ⟨fun e => hc e.symm, hu⟩
      · rintro ⟨h, hu⟩
        cases u with
        | nil => simp at h; exact absurd h.1 hc
        | cons x xs =>
          simp only [List.cons_append, List.cons.injEq] at h
          simp only [List.mem_cons, not_or] at hu
          exact ⟨(xs, p), (ih xs).mpr ⟨h.2, hu.2⟩, by simp [h.1], rfl⟩

theorem basicPayload_basicAuthValue (u p : Bytes) : basicPayload (basicAuthValue u p) = some (u ++ 58 :: p) := by
  unfold basicPayload basicAuthValue
  have ht : (bs "Basic " ++ b64Encode (u ++ [58] ++ p)).take 6 = bs "Basic " := by
    rw [← basicPrefix_len]; simp
  have hd : (bs "Basic " ++ b64Encode (u ++ [58] ++ p)).drop 6 = b64Encode (u ++ [58] ++ p) := by
    rw [← basicPrefix_len]; simp
  have hlen : decide ((bs "Basic " ++ b64Encode (u ++ [58] ++ p)).length < 6) = false := by
    simp [basicPrefix_len]
  simp only [ht, hd, basicPrefix_fold, b64Decode_encode, hlen, Bool.not_true, Bool.or_self, Bool.false_eq_true, if_false]
  simp

/-! ## §6 the local wall clock -/

theorem localWeekday_lt (unix offset : Int) : localWeekday unix offset < 7 := by
  unfold localWeekday; omega

theorem localHour_lt (unix offset : Int) : localHour unix offset < 24 := by
  unfold localHour; omega

/-- weekday and hour are functions of the number of whole hours of the local wall clock -/
theorem localClock_of_hours {u1 o1 u2 o2 : Int} (h : (u1 + o1) / 3600 = (u2 + o2) / 3600) :
    localWeekday u1 o1 = localWeekday u2 o2 ∧ localHour u1 o1 = localHour u2 o2 := by
  unfold localWeekday localHour
  have a1 : (u1 + o1) / 86400 = (u1 + o1) / 3600 / 24 := by omega
  have a2 : (u2 + o2) / 86400 = (u2 + o2) / 3600 / 24 := by omega
  have b1 : (u1 + o1) % 86400 / 3600 = (u1 + o1) / 3600 % 24 := by omega
  have b2 : (u2 + o2) % 86400 / 3600 = (u2 + o2) / 3600 % 24 := by omega
  rw [a1, a2, b1, b2, h]; exact ⟨rfl, rfl⟩

/-! ## §4 client connections -/

theorem ctx_eta (ctx : Ctx) : { ctx with secure := ctx.secure } = ctx := by cases ctx; rfl

theorem processConnection_mem (cfg : Cfg) (items : List ConnItem) :
    ∀ (ctx : Ctx) (o : ItemOutcome), o ∈ processConnection cfg ctx items →
      ∃ it ∈ items, ∃ sec : Bool, o = processItem cfg { ctx with secure := sec } it := by
  induction items with
  | nil => intro ctx o h; cases h
  | cons it rest ih =>
    intro ctx o h
    unfold processConnection at h
    simp only [List.mem_cons] at h
    rcases h with h | h
    · exact ⟨it, List.mem_cons_self, ctx.secure, by rw [ctx_eta ctx]; exact h⟩
    · split at h
      · cases h
      · obtain ⟨it', hm, sec, he⟩ := ih _ o h
        exact ⟨it', List.mem_cons_of_mem _ hm, sec, he⟩
      · obtain ⟨it', hm, sec, he⟩ := ih _ o h
        exact ⟨it', List.mem_cons_of_mem _ hm, sec, he⟩

/-! ## §5 localhost names of an instance -/

theorem toLower_idem (c : UInt8) : toLower (toLower c) = toLower c := by
  simp only [toLower, isUpper]
  grind

theorem lower_lower (s : Bytes) : lower (lower s) = lower s := by
  unfold lower
  rw [List.map_map]
  apply List.map_congr_left
  intro c _
  exact toLower_idem c

theorem mem_hpLocalhost (aliases : List Bytes) (x : Bytes) :
    x ∈ hpLocalhost aliases ↔ x ∈ builtinLocalhost ∨ ∃ a ∈ aliases, lower a = x := by
  unfold hpLocalhost
  simp only [List.mem_append, List.mem_map]

theorem mem_localhostAliases (recs : List HostsRecord) (x : Bytes) :
    x ∈ localhostAliases recs ↔ ∃ r ∈ recs, isLoopbackLiteral r.ip = true ∧ x ∈ r.names := by
  unfold localhostAliases
  simp only [List.mem_flatMap, List.mem_filter]
  constructor
  · rintro ⟨r, ⟨hr, hl⟩, hx⟩; exact ⟨r, hr, hl, hx⟩
  · rintro ⟨r, hr, hl, hx⟩; exact ⟨r, ⟨hr, hl⟩, hx⟩

/-! ## §6 reading the hosts file -/

theorem hostsLines_ne_nil (t : Bytes) : hostsLines t ≠ [] := by
  cases t with
  | nil => simp [hostsLines]
  | cons c cs =>
    unfold hostsLines
    split
    · simp
    · split <;> simp

theorem hostsLines_cons_of_ne {c : UInt8} (hc : (c == 10) = false) (cs : Bytes) :
    ∃ l ls, hostsLines cs = l :: ls ∧ hostsLines (c :: cs) = (c :: l) :: ls := by
  cases h : hostsLines cs with
  | nil => exact absurd h (hostsLines_ne_nil cs)
  | cons l ls =>
    refine ⟨l, ls, rfl, ?_⟩
    rw [hostsLines, hc, h]
    rfl

/-- a line feed ends a line wherever it stands -/
theorem hostsLines_append_nl (a b : Bytes) : hostsLines (a ++ 10 :: b) = hostsLines a ++ hostsLines b := by
  induction a with
  | nil => simp [hostsLines]
  | cons c cs ih =>
    by_cases hc : (c == 10) = true
    · rw [List.cons_append, hostsLines, if_pos hc, ih]
      conv => rhs; rw [hostsLines, if_pos hc]
      rfl
    · have hc' : (c == 10) = false := by simpa using hc
      obtain ⟨l, ls, h1, h2⟩ := hostsLines_cons_of_ne hc' cs
      obtain ⟨l', ls', h1', h2'⟩ := hostsLines_cons_of_ne hc' (cs ++ 10 :: b)
      rw [List.cons_append, h2', h2]
      rw [ih, h1] at h1'
      simp only [List.cons_append, List.cons.injEq] at h1'
      rw [← h1'.1, ← h1'.2]
      rfl

theorem hostsLines_of_no_nl (l : Bytes) (h : ∀ c ∈ l, (c == 10) = false) : hostsLines l = [l] := by
  induction l with
  | nil => rfl
  | cons c cs ih =>
    have hc := h c (List.mem_cons_self ..)
    obtain ⟨l', ls, h1, h2⟩ := hostsLines_cons_of_ne hc cs
    rw [ih (fun x hx => h x (List.mem_cons_of_mem _ hx))] at h1
    simp only [List.cons.injEq] at h1
    rw [h2, ← h1.1, ← h1.2]

theorem looseRecords_cons_ok (m : Nat) (l : Bytes) (ls : List Bytes) (r? : Option HostsRecord)
    (hl : readHostsLine m l = .ok r?) : looseRecords m (l :: ls) = r?.toList ++ looseRecords m ls := by
  unfold looseRecords
  rw [List.filterMap_cons]
  cases r? with
  | none => simp only [hl]; rfl
  | some r => simp only [hl]; rfl

/-- `Decode` succeeds exactly when every line can be read, and then yields what the line-by-line reader sees -/
theorem decodeHostsLines_ok_iff (m : Nat) (ls : List Bytes) (recs : List HostsRecord) :
    decodeHostsLines m ls = .ok recs ↔
      (∀ l ∈ ls, ∃ r, readHostsLine m l = .ok r) ∧ recs = looseRecords m ls := by
  induction ls generalizing recs with
  | nil =>
    simp only [decodeHostsLines, looseRecords, List.filterMap_nil, List.not_mem_nil, false_imp_iff, implies_true, true_and,
      Except.ok.injEq]
    exact eq_comm
  | cons l ls ih =>
    unfold decodeHostsLines
    cases hl : readHostsLine m l with
    | error e =>
      simp only [List.mem_cons, forall_eq_or_imp, hl]
      constructor
      · intro h; cases h
      · rintro ⟨⟨⟨r, hr⟩, _⟩, _⟩; cases hr
    | ok r? =>
      rw [looseRecords_cons_ok m l ls r? hl]
      cases hd : decodeHostsLines m ls with
      | error e =>
        simp only [List.mem_cons, forall_eq_or_imp]
        constructor
        · intro h; cases h
        · rintro ⟨⟨_, hall⟩, _⟩
          have := (ih (looseRecords m ls)).mpr ⟨hall, rfl⟩
          rw [hd] at this; cases this
      | ok rs =>
        obtain ⟨hall, hrs⟩ := (ih rs).mp hd
        simp only [List.mem_cons, forall_eq_or_imp, Except.ok.injEq]
        rw [← hrs]
        cases r? with
        | none =>
          constructor
          · intro h; exact ⟨⟨⟨_, hl⟩, hall⟩, h.symm⟩
          · rintro ⟨_, h⟩; exact h.symm
        | some r =>
          constructor
          · intro h; exact ⟨⟨⟨_, hl⟩, hall⟩, h.symm⟩
          · rintro ⟨_, h⟩; exact h.symm

/-- the first line that cannot be read decides: its error is the outcome, whatever stands before and after -/
theorem decodeHostsLines_error_at (m : Nat) (xs ys : List Bytes) (l : Bytes) (e : HostsError)
    (hx : ∀ x ∈ xs, ∃ r, readHostsLine m x = .ok r) (hl : readHostsLine m l = .error e) :
    decodeHostsLines m (xs ++ l :: ys) = .error e := by
  induction xs with
  | nil => simp [decodeHostsLines, hl]
  | cons x xs ih =>
    obtain ⟨r, hr⟩ := hx x (List.mem_cons_self ..)
    rw [List.cons_append, decodeHostsLines, hr]
    simp only
    rw [ih (fun y hy => hx y (List.mem_cons_of_mem _ hy))]

/-- one unreadable line anywhere makes `Decode` fail -/
theorem decodeHostsLines_error_of_mem (m : Nat) (ls : List Bytes) (l : Bytes) (e : HostsError)
    (hm : l ∈ ls) (hl : readHostsLine m l = .error e) : ∃ e', decodeHostsLines m ls = .error e' := by
  cases hd : decodeHostsLines m ls with
  | error e' => exact ⟨e', rfl⟩
  | ok recs =>
    obtain ⟨r, hr⟩ := ((decodeHostsLines_ok_iff m ls recs).mp hd).1 l hm
    rw [hl] at hr; cases hr

theorem hpLocalhostOf_text_error {t : Bytes} {e : HostsError}
    (h : decodeHostsLines hostsMaxToken (hostsLines t) = .error e) : hpLocalhostOf (.text t) = .error e := by
  simp only [hpLocalhostOf, hpLocalhostOfWith, decodeHostsWith, h]

theorem hpLocalhostOf_text_ok {t : Bytes} {recs : List HostsRecord}
    (h : decodeHostsLines hostsMaxToken (hostsLines t) = .ok recs) :
    hpLocalhostOf (.text t) = .ok (hpLocalhost (localhostAliases recs)) := by
  simp only [hpLocalhostOf, hpLocalhostOfWith, decodeHostsWith, h]

/-! ## §7 the two serving paths: where the URL host is completed (`Model/C04.lean` `Completion`) -/

theorem securityCheck_congr (cfg : Cfg) {g g' : GoReq} (hh : g.header = g'.header) (hu : g.urlHost = g'.urlHost) :
    securityCheck cfg g = securityCheck cfg g' := by
  rw [securityCheck_eq_firstFailing, securityCheck_eq_firstFailing, hh, hu]

theorem fails_pastControls_time (cfg : Cfg) (hn pa : Bytes) :
    Control.fails (pastControls cfg) hn pa .timeFrame = Control.fails cfg hn pa .timeFrame := rfl
theorem fails_pastControls_auth (cfg : Cfg) (hn pa : Bytes) :
    Control.fails (pastControls cfg) hn pa .basicAuth = Control.fails cfg hn pa .basicAuth := rfl
theorem fails_pastControls_local (cfg : Cfg) (hn pa : Bytes) :
    Control.fails (pastControls cfg) hn pa .localhost = false := rfl
theorem fails_pastControls_deny (cfg : Cfg) (hn pa : Bytes) :
    Control.fails (pastControls cfg) hn pa .denyDomains = false := by
  simp [Control.fails, pastControls, domMatch]

theorem firstFailing_none_iff (cfg : Cfg) (hn pa : Bytes) :
    firstFailing cfg hn pa = none ↔ ∀ c, Control.fails cfg hn pa c = false := by
  unfold firstFailing
  rw [List.find?_eq_none]
  constructor
  · intro h c
    have := h c (by cases c <;> simp [order])
    simpa using this
  · intro h c _
    simp [h c]

/-- the time-frame and credentials checks do not look at the host: once the controls passed on SOME host,
    the stack behind them (`pastControls`) passes on every host -/
theorem firstFailing_pastControls {cfg : Cfg} {hn pa : Bytes} (h : firstFailing cfg hn pa = none) (hn' : Bytes) :
    firstFailing (pastControls cfg) hn' pa = none := by
  rw [firstFailing_none_iff] at h ⊢
  intro c
  cases c with
  | timeFrame => rw [fails_pastControls_time]; exact h .timeFrame
  | basicAuth => rw [fails_pastControls_auth]; exact h .basicAuth
  | localhost => exact fails_pastControls_local cfg hn' pa
  | denyDomains => exact fails_pastControls_deny cfg hn' pa

theorem securityCheck_pastControls {cfg : Cfg} {g g' : GoReq} (hh : g'.header = g.header)
    (h : securityCheck cfg g = none) : securityCheck (pastControls cfg) g' = none := by
  rw [securityCheck_eq_firstFailing] at h ⊢
  rw [hh]
  cases hf : firstFailing cfg (hostname g.urlHost) (goGet g.header (bs "Proxy-Authorization")) with
  | some c => rw [hf] at h; cases h
  | none => rw [firstFailing_pastControls hf]; rfl

theorem viaStep_pastControls (cfg : Cfg) (m : Nat) (h : HMap) : viaStep (pastControls cfg) m h = viaStep cfg m h := rfl
theorem pastControls_rules (cfg : Cfg) : (pastControls cfg).rules = cfg.rules := rfl
theorem pastControls_siteCred (cfg : Cfg) : (pastControls cfg).siteCred = cfg.siteCred := rfl
theorem pastControls_upstream (cfg : Cfg) : (pastControls cfg).upstream = cfg.upstream := rfl
theorem pastControls_connectRules (cfg : Cfg) : (pastControls cfg).connectRules = cfg.connectRules := rfl

/-- the request pipeline is: read, complete the URL host, the four controls, then the rest of the stack -/
theorem processRequest_split (cfg : Cfg) (ctx : Ctx) (r : Request) :
    processRequest cfg ctx r =
      match readRequest r with
      | .error _ => .unreadable
      | .ok g0 =>
        match securityCheck cfg { g0 with urlHost := effectiveHost g0 } with
        | some why => .refused why.status why
        | none => processRequest (pastControls cfg) ctx r := by
  cases hr : readRequest r with
  | error e => unfold processRequest; rw [hr]
  | ok g0 =>
    simp only []
    cases hs : securityCheck cfg { g0 with urlHost := effectiveHost g0 } with
    | some why =>
      unfold processRequest
      rw [hr]
      simp only [securityCheck_eq_firstFailing, effectiveHost] at hs ⊢
      rw [hs]
    | none =>
      simp only []
      unfold processRequest
      rw [hr]
      simp only [securityCheck_eq_firstFailing, effectiveHost] at hs ⊢
      cases hf : firstFailing cfg (hostname (if g0.urlHost.isEmpty = true then g0.host else g0.urlHost))
          (goGet g0.header (bs "Proxy-Authorization")) with
      | some c => rw [hf] at hs; cases hs
      | none =>
        rw [firstFailing_pastControls hf]
        simp only [Option.map_none, viaStep_pastControls, pastControls_rules, pastControls_siteCred, pastControls_upstream]
        split
        · rfl
        · split
          · rfl
          · split <;> rfl


theorem requestActions_pastControls {cfg : Cfg} {ctx : Ctx} {r : Request}
    (h : processRequest cfg ctx r = processRequest (pastControls cfg) ctx r) :
    requestActions (pastControls cfg) ctx r = requestActions cfg ctx r := by
  unfold requestActions
  rw [← h]
  rfl

theorem requestView_of_read {r : Request} {g0 : GoReq} (hr : readRequest r = .ok g0) :
    requestView r = some (hostname (effectiveHost g0), goGet g0.header (bs "Proxy-Authorization")) := by
  unfold requestView effectiveHost
  rw [hr]

theorem securityCheck_effective (cfg : Cfg) (g0 : GoReq) :
    securityCheck cfg { g0 with urlHost := effectiveHost g0 } =
      (firstFailing cfg (hostname (effectiveHost g0)) (goGet g0.header (bs "Proxy-Authorization"))).map Control.refusal :=
  securityCheck_eq_firstFailing cfg _

/-- a pipeline whose controls see, and whose round trip uses, the effective target is the validated pipeline -/
theorem processRequestAt_eq {k : Completion} {cfg : Cfg} {ctx : Ctx} {r : Request} {g0 : GoReq}
    (hr : readRequest r = .ok g0) (hs : k.seenHost g0 = effectiveHost g0) (ht : k.tripHost g0 = effectiveHost g0)
    (hne : (effectiveHost g0).isEmpty = false) :
    processRequestAt k cfg ctx r = .served (processRequest cfg ctx r) ∧
      requestActionsAt k cfg ctx r = requestActions cfg ctx r := by
  have hsplit := processRequest_split cfg ctx r
  rw [hr] at hsplit
  simp only [] at hsplit
  unfold requestActionsAt
  unfold processRequestAt
  rw [hr]
  simp only [hs, ht, hne]
  cases hc : securityCheck cfg { g0 with urlHost := effectiveHost g0 } with
  | some why =>
    rw [hc] at hsplit
    simp only [] at hsplit
    simp only [hsplit, true_and]
    unfold requestActions
    rw [hsplit]
  | none =>
    rw [hc] at hsplit
    simp only [] at hsplit
    simp only [Bool.false_eq_true, if_false, ← hsplit, true_and]
    cases ho : processRequest cfg ctx r with
    | forwarded hop out => simp only []; exact requestActions_pastControls hsplit
    | refused st w => simp only []; unfold requestActions; rw [ho]
    | badRequest => simp only []; unfold requestActions; rw [ho]
    | unreadable => simp only []; unfold requestActions; rw [ho]
    | routeError => simp only []; unfold requestActions; rw [ho]


/-- on both serving paths the URL host the controls see is the URL host of the round trip -/
theorem seen_eq_trip (v : ServerVariant) (g0 : GoReq) : v.completion.seenHost g0 = v.completion.tripHost g0 := by
  cases v <;> rfl

/-- … and when that host is not empty it is the effective target -/
theorem trip_eq_effective (v : ServerVariant) (g0 : GoReq) (h : (v.completion.tripHost g0).isEmpty = false) :
    v.completion.tripHost g0 = effectiveHost g0 := by
  cases v with
  | connLoop => rfl
  | handler =>
    simp only [ServerVariant.completion, Completion.tripHost] at h ⊢
    unfold effectiveHost
    rw [h]; rfl

/-- what a pipeline ends in when something is dialled: read, the controls passed on the seen host, the trip
    host is not empty -/
theorem requestActionsAt_ne_nil {k : Completion} {cfg : Cfg} {ctx : Ctx} {r : Request}
    (h : requestActionsAt k cfg ctx r ≠ []) :
    ∃ g0, readRequest r = .ok g0 ∧ securityCheck cfg { g0 with urlHost := k.seenHost g0 } = none ∧
      (k.tripHost g0).isEmpty = false := by
  unfold requestActionsAt processRequestAt at h
  cases hr : readRequest r with
  | error e => rw [hr] at h; simp at h
  | ok g0 =>
    rw [hr] at h
    simp only [] at h
    cases hs : securityCheck cfg { g0 with urlHost := k.seenHost g0 } with
    | some why => rw [hs] at h; simp at h
    | none =>
      rw [hs] at h
      simp only [] at h
      cases he : (k.tripHost g0).isEmpty with
      | false => exact ⟨g0, rfl, hs, he⟩
      | true =>
        rw [he] at h
        simp only [if_true] at h
        cases ho : processRequest (pastControls cfg) ctx r <;> rw [ho] at h <;> simp at h

theorem firstFailing_connectCfg (v : ServerVariant) (cfg : Cfg) (hn pa : Bytes) :
    firstFailing (connectCfg v cfg) hn pa = firstFailing cfg hn pa := by
  cases v <;> rfl

theorem connectActions_ne_nil {cfg : Cfg} {ctx : Ctx} {q : ConnectReq} (h : connectActions cfg ctx q ≠ []) :
    ∃ hn pa, connectView q = some (hn, pa) ∧ firstFailing cfg hn pa = none := by
  cases hv : connectView q with
  | none =>
    exfalso; apply h
    unfold connectView at hv
    unfold connectActions processConnect
    cases hr : readRequest q.asRequest with
    | error e => rfl
    | ok g0 => rw [hr] at hv; simp at hv
  | some v =>
    obtain ⟨hn, pa⟩ := v
    refine ⟨hn, pa, rfl, ?_⟩
    cases hf : firstFailing cfg hn pa with
    | none => rfl
    | some c =>
      exfalso; apply h
      unfold connectActions
      rw [processConnect_of_failing (ctx := ctx) hv hf]


theorem read_of_requestView {r : Request} {hn pa : Bytes} (hv : requestView r = some (hn, pa)) :
    ∃ g0, readRequest r = .ok g0 ∧ hn = hostname (effectiveHost g0) ∧ pa = goGet g0.header (bs "Proxy-Authorization") := by
  unfold requestView at hv
  cases hr : readRequest r with
  | error e => rw [hr] at hv; simp at hv
  | ok g0 =>
    rw [hr] at hv
    simp only [Option.some.injEq, Prod.mk.injEq] at hv
    exact ⟨g0, rfl, hv.1.symm, hv.2.symm⟩

/-- a request whose effective target fails a control ends, on either serving path, in a refusal or an error
    response of the proxy -/
theorem processRequestV_of_failing (v : ServerVariant) {cfg : Cfg} (ctx : Ctx) {r : Request} {hn pa : Bytes} {c : Control}
    (hv : requestView r = some (hn, pa)) (hf : firstFailing cfg hn pa = some c) :
    (processRequestV v cfg ctx r).refusedOrError = true := by
  unfold processRequestV
  split
  · rfl
  · obtain ⟨g0, hr, hhn, hpa⟩ := read_of_requestView hv
    unfold processRequestAt
    rw [hr]
    simp only []
    cases hs : securityCheck cfg { g0 with urlHost := v.completion.seenHost g0 } with
    | some why => rfl
    | none =>
      simp only []
      cases he : (v.completion.tripHost g0).isEmpty with
      | false =>
        exfalso
        rw [seen_eq_trip, trip_eq_effective v g0 he, securityCheck_effective, ← hhn, ← hpa, hf] at hs
        cases hs
      | true =>
        simp only [if_true]
        rw [securityCheck_eq_firstFailing] at hs
        have hp : firstFailing (pastControls cfg) hn pa = none := by
          cases hff : firstFailing cfg (hostname (v.completion.seenHost g0)) (goGet g0.header (bs "Proxy-Authorization")) with
          | some c' => simp only [hff] at hs; cases hs
          | none => rw [hpa]; exact firstFailing_pastControls hff hn
        rcases processRequest_of_passing (ctx := ctx) hv hp with h | h | h | ⟨hop, out, h⟩ <;> rw [h] <;> rfl

end C04
end FwdVerif
