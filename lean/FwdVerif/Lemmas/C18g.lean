/-
  C18 helper lemmas, part g: classification of the loop refusal (`Model/C18Err.lean`).
-/
import FwdVerif.Lemmas.C18f
import FwdVerif.Model.C18Err

namespace FwdVerif
namespace C18

open Req

/-- no `StatusText` begins with the letter the loop error text begins with -/
theorem statusTexts_head_ne_v : statusTexts.all (fun e => e.2.head? != some 118) = true := by decide +kernel

theorem loopErrPrefix_eq_cons : loopErrPrefix = 118 :: loopErrPrefix.tail := by decide +kernel

theorem find?_none_of_head {l : List (Nat × Bytes)} {c : UInt8} {xs : Bytes}
    (h : l.all (fun e => e.2.head? != some c) = true) :
    l.find? (fun e => e.2 == c :: xs) = none := by
  rw [List.find?_eq_none]
  intro e he
  have hh := (List.all_eq_true.mp h) e he
  intro heq
  have : e.2 = c :: xs := by simpa using heq
  rw [this] at hh
  simp at hh

theorem statusTextOf_loopErrText (chain : Bytes) : statusTextOf (loopErrText chain) = none := by
  unfold statusTextOf loopErrText
  rw [loopErrPrefix_eq_cons, List.cons_append]
  simp only [List.isEmpty_cons, Bool.false_eq_true, if_false]
  rw [find?_none_of_head statusTexts_head_ne_v]
  rfl

/-- first verdict of a list whose front part is text-blind, up to the first handler that claims both
    errors alike -/
theorem firstVerdictT_blind_prefix {pre : List THandler} (hp : ∀ h ∈ pre, TextBlind h) (g : THandler)
    (post : List THandler) (https : Bool) (s : C12.ErrShape) (t t' : Bytes)
    (hg : g https ⟨s, t⟩ = g https ⟨s, t'⟩) (hc : (g https ⟨s, t⟩).1 ≠ 0) :
    firstVerdictT (pre ++ g :: post) https ⟨s, t⟩ = firstVerdictT (pre ++ g :: post) https ⟨s, t'⟩ := by
  induction pre with
  | nil =>
    have hc' : (g https ⟨s, t'⟩).1 ≠ 0 := hg ▸ hc
    simp only [List.nil_append, firstVerdictT, bne_iff_ne, ne_eq, hc', not_false_eq_true, if_true, hg]
  | cons h pre ih =>
    have hb := hp h (List.mem_cons_self ..) https s t t'
    have ih' := ih (fun h' hh' => hp h' (List.mem_cons_of_mem _ hh'))
    simp only [List.cons_append, firstVerdictT, hb, ih']

/-- the handlers before `handleMartianErrorStatus` pass on an error that is nothing but a martian
    `ErrorStatus`, whatever its text -/
theorem firstVerdictT_pass_prefix {pre : List THandler} (post : List THandler) (https : Bool) (e : TextErr)
    (hp : ∀ h ∈ pre, h https e = C12.pass) :
    firstVerdictT (pre ++ post) https e = firstVerdictT post https e := by
  induction pre with
  | nil => rfl
  | cons h pre ih =>
    have h0 := hp h (List.mem_cons_self ..)
    simp only [List.cons_append, firstVerdictT, h0]
    exact ih (fun h' hh' => hp h' (List.mem_cons_of_mem _ hh'))

end C18
end FwdVerif
