/-
  "Nothing is released beyond the stream's credit": whenever processing a frame releases something
  on a stream, that stream's window is non-negative afterwards (so, with the bookkeeping invariant,
  what was sent on it is within initial window + increments).  Holds for every frame: a SETTINGS
  frame is applied through its values in force (`inForce`: SETTINGS_INITIAL_WINDOW_SIZE at most
  once, its last occurrence), so the queues are scanned at most once per frame, under the value
  that is in force afterwards.  (`Released.applyEach` is the per-value loop: it needs a list that
  names the identifier at most once — a later value may take back what an earlier one released.)
  Core-only.
-/
import FwdVerif.Lemmas.H2Machine

namespace FwdVerif
namespace H2

variable {α : Type}

/-- every released frame belongs to a buffer whose window is non-negative in `d` -/
def Released (d : Dir α) (e : List (QFrame α)) : Prop :=
  ∀ q ∈ e, ∃ st, d.streams.get q.sid = some st ∧ 0 ≤ st.win

/-- buffers persist from `d` to `d'` and non-negative windows stay non-negative -/
def Keeps (d d' : Dir α) : Prop :=
  ∀ s st, d.streams.get s = some st → ∃ st', d'.streams.get s = some st' ∧ (0 ≤ st.win → 0 ≤ st'.win)

theorem Keeps.refl (d : Dir α) : Keeps d d := fun _ st h => ⟨st, h, id⟩

theorem Keeps.trans {a b c : Dir α} (h1 : Keeps a b) (h2 : Keeps b c) : Keeps a c := by
  intro s st hs
  obtain ⟨st1, hs1, k1⟩ := h1 s st hs
  obtain ⟨st2, hs2, k2⟩ := h2 s st1 hs1
  exact ⟨st2, hs2, fun h => k2 (k1 h)⟩

theorem Keeps.of_streams_eq {d d' : Dir α} (h : d'.streams = d.streams) : Keeps d d' := by
  intro s st hs; exact ⟨st, by rw [h]; exact hs, id⟩

theorem Released.nil (d : Dir α) : Released d [] := by intro q hq; simp at hq

theorem Released.mono {d d' : Dir α} {e : List (QFrame α)} (h : Released d e) (k : Keeps d d') : Released d' e := by
  intro q hq
  obtain ⟨st, hs, hw⟩ := h q hq
  obtain ⟨st', hs', kw⟩ := k _ st hs
  exact ⟨st', hs', kw hw⟩

theorem Released.append {d : Dir α} {a b : List (QFrame α)} (ha : Released d a) (hb : Released d b) :
    Released d (a ++ b) := by
  intro q hq
  rcases List.mem_append.mp hq with h | h
  · exact ha q h
  · exact hb q h

theorem Keeps.emitOn (d : Dir α) (s : Nat) : Keeps d (d.emitOn s).1 := by
  rcases d.emitOn_spec s with ⟨_, he⟩ | ⟨st, hs, _, he1⟩
  · rw [he]; exact Keeps.refl d
  · rw [he1]
    intro t st0 ht
    simp only [SMap.get_set]
    by_cases hst : s = t
    · subst hst
      simp only [if_true]
      rw [hs] at ht
      injection ht with ht
      subst ht
      exact ⟨_, rfl, fun hw => emitQ_win_nonneg' _ _ _ hw⟩
    · simp only [hst, if_false]
      exact ⟨st0, ht, id⟩

theorem Released.emitOn {d : Dir α} {L : Ledger} (h : Book d L) (s : Nat) :
    Released (d.emitOn s).1 (d.emitOn s).2 := by
  rcases d.emitOn_spec s with ⟨_, he⟩ | ⟨st, hs, he2, he1⟩
  · rw [he]; exact Released.nil d
  · intro q hq
    rw [he2] at hq
    have hsid : q.sid = s := h.sids s st hs q (mem_of_emitQ _ _ _ q hq)
    rw [he1, hsid]
    refine ⟨{ win := (emitQ st.win d.connWin st.queue).2.2.1, queue := (emitQ st.win d.connWin st.queue).2.1 },
      by simp [SMap.get_set], ?_⟩
    exact emitQ_win_nonneg _ _ _ (List.ne_nil_of_mem hq)

/-- a modification of one buffer that does not lower its window -/
theorem Keeps.set {d : Dir α} (s : Nat) (st' : Stream α)
    (h : ∀ st, d.streams.get s = some st → (0 ≤ st.win → 0 ≤ st'.win)) :
    Keeps d { d with streams := d.streams.set s st' } := by
  intro t st0 ht
  simp only [SMap.get_set]
  by_cases hst : s = t
  · subst hst
    simp only [if_true]
    exact ⟨st', rfl, h st0 ht⟩
  · simp only [hst, if_false]
    exact ⟨st0, ht, id⟩

theorem Keeps.enqueue (d : Dir α) (f : QFrame α) :
    Keeps d { d with streams := d.streams.set f.sid { d.buf f.sid with queue := (d.buf f.sid).queue ++ [f] } } := by
  apply Keeps.set
  intro st hs hw
  rcases d.buf_spec f.sid with ⟨st1, hs1, hb⟩ | ⟨hn, _⟩
  · rw [hb]; rw [hs] at hs1; injection hs1 with hs1; subst hs1; exact hw
  · rw [hn] at hs; simp at hs

theorem Keeps.addWin (d : Dir α) (s n : Nat) :
    Keeps d { d with streams := d.streams.set s { d.buf s with win := (d.buf s).win + n } } := by
  apply Keeps.set
  intro st hs hw
  rcases d.buf_spec s with ⟨st1, hs1, hb⟩ | ⟨hn, _⟩
  · rw [hb]; rw [hs] at hs1; injection hs1 with hs1; subst hs1; simp only; omega
  · rw [hn] at hs; simp at hs

theorem Released.enqEmit {d : Dir α} {L : Ledger} (h : Book d L) (f : QFrame α) :
    Released (d.enqEmit f).1 (d.enqEmit f).2 ∧ Keeps d (d.enqEmit f).1 := by
  unfold Dir.enqEmit
  exact ⟨Released.emitOn (h.enqueue f) f.sid, (Keeps.enqueue d f).trans (Keeps.emitOn _ _)⟩

theorem Released.enqEmitAll {d : Dir α} {L : Ledger} (h : Book d L) (fs : List (QFrame α)) :
    Released (d.enqEmitAll fs).1 (d.enqEmitAll fs).2 ∧ Keeps d (d.enqEmitAll fs).1 := by
  induction fs generalizing d L with
  | nil => exact ⟨Released.nil d, Keeps.refl d⟩
  | cons f t ih =>
    simp only [Dir.enqEmitAll]
    have h1 := Released.enqEmit h f
    have h2 := ih (h.enqEmit f)
    exact ⟨(h1.1.mono h2.2).append h2.1, h1.2.trans h2.2⟩

theorem Released.emitList {d : Dir α} {L : Ledger} (h : Book d L) (ss : List Nat) :
    Released (d.emitList ss).1 (d.emitList ss).2 ∧ Keeps d (d.emitList ss).1 := by
  induction ss generalizing d L with
  | nil => exact ⟨Released.nil d, Keeps.refl d⟩
  | cons s t ih =>
    simp only [Dir.emitList]
    have h2 := ih (h.emitOn s)
    exact ⟨((Released.emitOn h s).mono h2.2).append h2.1, (Keeps.emitOn d s).trans h2.2⟩

theorem Released.pass {d : Dir α} {L : Ledger} (h : Book d L) (order : List Nat) :
    Released (d.pass order).1 (d.pass order).2 ∧ Keeps d (d.pass order).1 := Released.emitList h _

theorem Released.windowUpdate {d : Dir α} {L : Ledger} (h : Book d L) (order : List Nat) (s n : Nat) :
    Released (d.windowUpdate order s n).1 (d.windowUpdate order s n).2 := by
  unfold Dir.windowUpdate
  by_cases hs : s = 0
  · subst hs
    simp only [if_true]
    have h1 := (h.addConn n).pass order
    have r1 := Released.pass (h.addConn n) order
    have h2 := h1.addWin 0 n
    exact (r1.1.mono ((Keeps.addWin _ 0 n).trans (Keeps.emitOn _ 0))).append (Released.emitOn h2 0)
  · simp only [hs, if_false, List.nil_append]
    exact Released.emitOn (h.addWin s n) s

theorem Released.setInitWin {d : Dir α} {L : Ledger} (h : Book d L) (order : List Nat) (v : Nat) :
    Released (d.setInitWin order v).1 (d.setInitWin order v).2 := by
  have hb := h.setInitWin order v
  unfold Dir.setInitWin at hb ⊢
  -- the state after the delta satisfies Book with the same ledger (shown inside Book.setInitWin);
  -- rebuild it here to run the scan lemma
  have hmid : Book ({ d with initWin := v, streams := d.streams.mapWin (· + ((v : Int) - d.initWin)) } : Dir α) L := by
    refine { conn := h.conn, connNonneg := h.connNonneg, win := ?_, fresh := ?_, sids := ?_ }
    · intro t st' ht
      simp only [SMap.get_mapWin] at ht
      cases hg : d.streams.get t with
      | none => simp [hg] at ht
      | some st =>
        simp only [hg, Option.map_some, Option.some.injEq] at ht
        subst ht
        have := h.win t st hg
        simp only; omega
    · intro t ht
      simp only [SMap.get_mapWin] at ht
      cases hg : d.streams.get t with
      | none => exact h.fresh t hg
      | some st => simp [hg] at ht
    · intro t st' ht q hq
      simp only [SMap.get_mapWin] at ht
      cases hg : d.streams.get t with
      | none => simp [hg] at ht
      | some st =>
        simp only [hg, Option.map_some, Option.some.injEq] at ht
        subst ht
        exact h.sids t st hg q hq
  exact (Released.pass hmid order).1

/-- number of SETTINGS_INITIAL_WINDOW_SIZE entries of a SETTINGS frame -/
def initCount : List (Nat × Nat) → Nat
  | [] => 0
  | (id, _) :: t => (if id = settingInitialWindowSize then 1 else 0) + initCount t

theorem applyEach_noInit (o : Dir α) (ord : Nat → List Nat) (k : Nat) (kvs : List (Nat × Nat))
    (h : initCount kvs = 0) :
    (applyEach o ord k kvs).2 = [] ∧ (applyEach o ord k kvs).1.streams = o.streams := by
  induction kvs generalizing o k with
  | nil => exact ⟨rfl, rfl⟩
  | cons kv rest ih =>
    obtain ⟨id, v⟩ := kv
    simp only [initCount] at h
    have hid : ¬ id = settingInitialWindowSize := by
      intro hx; simp [hx] at h
    have hrest : initCount rest = 0 := by simp [hid] at h; exact h
    simp only [H2.applyEach, hid, if_false]
    split
    · exact ih _ k hrest
    · split
      · exact ih _ k hrest
      · exact ih _ k hrest

theorem Released.applyEach {o : Dir α} {L : Ledger} (h : Book o L) (ord : Nat → List Nat) (k : Nat)
    (kvs : List (Nat × Nat)) (hc : initCount kvs ≤ 1) :
    Released (applyEach o ord k kvs).1 (applyEach o ord k kvs).2 := by
  induction kvs generalizing o L k with
  | nil => exact Released.nil o
  | cons kv rest ih =>
    obtain ⟨id, v⟩ := kv
    simp only [initCount] at hc
    simp only [H2.applyEach]
    split
    · rename_i hid
      have hrest : initCount rest = 0 := by simp [hid] at hc; omega
      have hn := applyEach_noInit (o.setInitWin (ord k) v).1 ord (k + 1) rest hrest
      simp only [hn.1, List.append_nil]
      exact (Released.setInitWin h (ord k) v).mono (Keeps.of_streams_eq hn.2)
    · rename_i hid
      have hrest : initCount rest ≤ 1 := by simp [hid] at hc; exact hc
      split
      · exact ih (h.congr (d' := { o with maxFrame := v }) rfl rfl rfl) k hrest
      · split
        · exact ih (h.congr (d' := { o with tableSize := v }) rfl rfl rfl) k hrest
        · exact ih h k hrest

/-- the entries the relay acts on are a sublist of the frame … -/
theorem initCount_inForce_le (kvs : List (Nat × Nat)) : initCount (inForce kvs) ≤ initCount kvs := by
  induction kvs with
  | nil => exact Nat.le_refl _
  | cons kv rest ih =>
    obtain ⟨id, v⟩ := kv
    simp only [inForce]
    split
    · simp only [initCount]; omega
    · simp only [initCount]; omega

theorem initCount_eq_zero_of_not_any (rest : List (Nat × Nat))
    (h : ¬ rest.any (fun kv => kv.1 == settingInitialWindowSize) = true) : initCount rest = 0 := by
  induction rest with
  | nil => rfl
  | cons kv t ih =>
    obtain ⟨i, w⟩ := kv
    simp only [List.any_cons, Bool.or_eq_true, beq_iff_eq, not_or] at h
    simp only [initCount, h.1, if_false, Nat.zero_add]
    exact ih h.2

/-- … that names SETTINGS_INITIAL_WINDOW_SIZE at most once (its last occurrence): `relay.applySettings`
    calls `updateInitialWindowSize` — and scans the queues — at most once per frame -/
theorem initCount_inForce (kvs : List (Nat × Nat)) : initCount (inForce kvs) ≤ 1 := by
  induction kvs with
  | nil => exact Nat.zero_le _
  | cons kv rest ih =>
    obtain ⟨id, v⟩ := kv
    simp only [inForce]
    split
    · exact ih
    · rename_i hn
      simp only [initCount]
      by_cases hid : id = settingInitialWindowSize
      · have hz : initCount rest = 0 := by
          apply initCount_eq_zero_of_not_any
          intro hany
          exact hn ⟨Or.inl hid, by rw [hid]; exact hany⟩
        have := initCount_inForce_le rest
        simp only [hid, if_true]; omega
      · simp only [hid, if_false]; omega

/-- **`relay.applySettings`, any frame**: whatever identifiers a SETTINGS frame repeats, every frame
    released while it is applied is within the credit in force afterwards -/
theorem Released.applySettings {o : Dir α} {L : Ledger} (h : Book o L) (ord : Nat → List Nat)
    (kvs : List (Nat × Nat)) :
    Released (applySettings o ord kvs).1 (applySettings o ord kvs).2 :=
  Released.applyEach h ord 0 (inForce kvs) (initCount_inForce kvs)

theorem Released.header {d : Dir α} {L : Ledger} (h : Book d L) (sid : Nat) (block : List α) (es : Bool) (p : Prio) :
    Released (d.header sid block es p).1 (d.header sid block es p).2 := by
  unfold Dir.header
  exact (Released.enqEmit (h.congr (d' := { d with encSeq := d.encSeq + 1 }) rfl rfl rfl) _).1

theorem Released.pushPromise {d : Dir α} {L : Ledger} (h : Book d L) (sid pr : Nat) (block : List α) :
    Released (d.pushPromise sid pr block).1 (d.pushPromise sid pr block).2 := by
  unfold Dir.pushPromise
  exact (Released.enqEmit (h.congr (d' := { d with encSeq := d.encSeq + 1 }) rfl rfl rfl) _).1

theorem Released.process {d o : Dir α} {Ld Lo : Ledger} (hd : Book d Ld) (ho : Book o Lo)
    (ord : Nat → List Nat) (op : Op α) :
    Released (process d o ord op).1 (process d o ord op).2.2.fwd ∧
    Released (process d o ord op).2.1 (process d o ord op).2.2.back := by
  cases op with
  | data sid payload pad es => exact ⟨(Released.enqEmitAll hd _).1, Released.nil o⟩
  | headers sid es eh prio frag reenc =>
    simp only [H2.process]
    split
    · exact ⟨Released.header hd sid reenc es prio, Released.nil o⟩
    · exact ⟨Released.nil _, Released.nil o⟩
  | continuation sid eh frag reenc =>
    simp only [H2.process]
    split
    · split
      · rename_i prio es hc
        exact ⟨Released.header (Book.congr (d' := { d with hdrBuf := d.hdrBuf ++ frag }) hd rfl rfl rfl) sid reenc _ prio,
          Released.nil o⟩
      · rename_i promised hc
        exact ⟨Released.pushPromise (Book.congr (d' := { d with hdrBuf := d.hdrBuf ++ frag }) hd rfl rfl rfl) sid promised reenc,
          Released.nil o⟩
      · exact ⟨Released.nil _, Released.nil o⟩
    · exact ⟨Released.nil _, Released.nil o⟩
  | pushPromise sid promised eh frag reenc =>
    simp only [H2.process]
    split
    · exact ⟨Released.pushPromise hd sid promised reenc, Released.nil o⟩
    · exact ⟨Released.nil _, Released.nil o⟩
  | priority sid prio => exact ⟨(Released.enqEmit hd _).1, Released.nil o⟩
  | rst sid code => exact ⟨(Released.enqEmit hd _).1, Released.nil o⟩
  | windowUpdate sid inc => exact ⟨Released.nil d, Released.windowUpdate ho (ord 0) sid inc⟩
  | settings kvs => exact ⟨Released.nil d, Released.applySettings ho ord kvs⟩
  | settingsAck => exact ⟨Released.nil d, Released.nil o⟩
  | ping ack data => exact ⟨Released.nil d, Released.nil o⟩
  | goAway last code debug => exact ⟨Released.nil d, Released.nil o⟩
  | unknown typ => exact ⟨Released.nil d, Released.nil o⟩

theorem Released.step {d o : Dir α} {Ld Lo : Ledger} (hd : Book d Ld) (ho : Book o Lo)
    (ord : Nat → List Nat) (op : Op α) :
    Released (step d o ord op).1 (step d o ord op).2.2.fwd ∧
    Released (step d o ord op).2.1 (step d o ord op).2.2.back := by
  unfold H2.step
  by_cases hdead : d.dead = true
  · simp only [hdead, if_true]
    exact ⟨Released.nil d, Released.nil o⟩
  · have hdead' : d.dead = false := by simpa using hdead
    by_cases hok : orderOk d op = true
    · simp only [hdead', hok, if_true, Bool.false_eq_true, if_false]
      have := Released.process hd ho ord op
      exact ⟨this.1.mono (Keeps.of_streams_eq rfl), this.2⟩
    · have hok' : orderOk d op = false := by simpa using hok
      simp only [hdead', hok', Bool.false_eq_true, if_false]
      exact ⟨Released.nil _, Released.nil o⟩

end H2
end FwdVerif
