/-
  C17 helper lemmas, part 2: the token-level stack machine is compositional.
  A token run that succeeds on its own succeeds in the same way when the bottom frame already holds
  finished branches and further frames lie below it (`embedFrames`).  Consequences: the branches of
  `a|b` are the branches of `a` followed by those of `b`; `(?:a)` is one group around `a`.
-/
import FwdVerif.Lemmas.C17Lex

namespace FwdVerif
namespace C17

/-- put a frame stack on top of a context: the bottom frame gets the branch prefix `B` and the
    group flags `on/off`, the frames `below` stay underneath -/
def embedFrames (B : List (List Raw)) (on off : Flags) (below : List Frame) : List Frame → List Frame
  | [] => []
  | [f] => { f with branches := B ++ f.branches, on := on, off := off } :: below
  | f :: g :: fs => f :: embedFrames B on off below (g :: fs)

theorem embedFrames_cons_ne {B on off below} (f : Frame) (fs : List Frame) :
    ∃ x xs, embedFrames B on off below (f :: fs) = x :: xs := by
  cases fs with
  | nil => exact ⟨_, _, rfl⟩
  | cons g gs => exact ⟨_, _, rfl⟩

theorem act_embed {B on off below} {fs fs' : List Frame} {t : Tok} (h : act fs t = some fs') :
    act (embedFrames B on off below fs) t = some (embedFrames B on off below fs') := by
  cases fs with
  | nil => cases t <;> simp [act] at h
  | cons f rest =>
    cases rest with
    | nil =>
      cases t with
      | atom r => simp only [act, Option.some.injEq] at h; subst h; rfl
      | rep k =>
        simp only [act] at h
        cases hr : repRev k f.items with
        | none => simp [hr] at h
        | some it =>
          simp only [hr, Option.map_some, Option.some.injEq] at h; subst h
          simp [embedFrames, act, hr]
      | bar =>
        simp only [act, Option.some.injEq] at h; subst h
        simp [embedFrames, act, Frame.close, List.append_assoc]
      | opn o1 o2 => simp only [act, Option.some.injEq] at h; subst h; rfl
      | clo => simp [act] at h
    | cons g rest' =>
      cases t with
      | atom r => simp only [act, Option.some.injEq] at h; subst h; rfl
      | rep k =>
        simp only [act] at h
        cases hr : repRev k f.items with
        | none => simp [hr] at h
        | some it =>
          simp only [hr, Option.map_some, Option.some.injEq] at h; subst h
          simp [embedFrames, act, hr]
      | bar => simp only [act, Option.some.injEq] at h; subst h; rfl
      | opn o1 o2 => simp only [act, Option.some.injEq] at h; subst h; rfl
      | clo =>
        simp only [act, Option.some.injEq] at h; subst h
        cases rest' with
        | nil => simp [embedFrames, act]
        | cons q r => simp [embedFrames, act]

theorem runToks_embed {B on off below} {ts : List Tok} {fs fs' : List Frame}
    (h : runToks fs ts = some fs') :
    runToks (embedFrames B on off below fs) ts = some (embedFrames B on off below fs') := by
  induction ts generalizing fs with
  | nil => simp only [runToks, Option.some.injEq] at h; subst h; rfl
  | cons t ts ih =>
    simp only [runToks] at h ⊢
    cases ha : act fs t with
    | none => simp [ha] at h
    | some fs1 =>
      simp only [ha] at h
      rw [act_embed ha]
      exact ih h

theorem runToks_append (fs : List Frame) (a b : List Tok) :
    runToks fs (a ++ b) = (runToks fs a).bind (fun fs' => runToks fs' b) := by
  induction a generalizing fs with
  | nil => rfl
  | cons t ts ih =>
    simp only [List.cons_append, runToks]
    cases act fs t with
    | none => rfl
    | some fs1 => exact ih fs1

theorem parseToks_ok {ts : List Tok} {A : List (List Raw)} (h : parseToks ts = some A) :
    ∃ f : Frame, runToks [{}] ts = some [f] ∧ f.close = A := by
  unfold parseToks at h
  cases hr : runToks [{}] ts with
  | none => simp [hr] at h
  | some fs =>
    simp only [hr] at h
    match fs, h with
    | [f], h => simp only [finish, Option.some.injEq] at h; exact ⟨f, rfl, h⟩

/-- branches are never an empty list -/
theorem parseToks_ne_nil {ts : List Tok} {A : List (List Raw)} (h : parseToks ts = some A) : A ≠ [] := by
  obtain ⟨f, _, hf⟩ := parseToks_ok h
  subst hf
  simp [Frame.close]

/-- `a|b`: the branches of `a` followed by the branches of `b` -/
theorem parseToks_join {ta tb : List Tok} {A B : List (List Raw)}
    (ha : parseToks ta = some A) (hb : parseToks tb = some B) :
    parseToks (ta ++ .bar :: tb) = some (A ++ B) := by
  obtain ⟨fa, hra, hfa⟩ := parseToks_ok ha
  obtain ⟨fb, hrb, hfb⟩ := parseToks_ok hb
  have hstart : act [fa] .bar = some (embedFrames A fa.on fa.off [] [{}]) := by
    simp [act, embedFrames, hfa]
  have := runToks_embed (B := A) (on := fa.on) (off := fa.off) (below := []) hrb
  unfold parseToks
  rw [runToks_append, hra]
  simp only [Option.bind_some, runToks, hstart, this]
  simp [embedFrames, finish, Frame.close, ← hfb, List.append_assoc]

/-- `(?:a)`: one non-capturing group around the alternation of `a`'s branches -/
theorem parseToks_wrap {ta : List Tok} {A : List (List Raw)} (ha : parseToks ta = some A) :
    parseToks (.opn {} {} :: (ta ++ [.clo])) = some [[.group {} {} (mkAlt A)]] := by
  obtain ⟨fa, hra, hfa⟩ := parseToks_ok ha
  have hstart : act [{}] (.opn {} {}) = some (embedFrames [] {} {} [{}] [{}]) := by
    simp [act, embedFrames]
  have := runToks_embed (B := []) (on := {}) (off := {}) (below := [{}]) hra
  unfold parseToks
  simp only [runToks, hstart]
  rw [runToks_append, this]
  simp only [Option.bind_some, runToks, embedFrames, act, List.nil_append]
  simp [finish, Frame.close] at hfa ⊢
  rw [hfa]

/-! ### text level -/

theorem branchesOf_ok {src : Bytes} {A : List (List Raw)} (h : branchesOf src = .ok A) :
    ∃ ts, lexAll src = .ok ts ∧ parseToks ts = some A := by
  unfold branchesOf at h
  cases hl : lexAll src with
  | error e => simp [hl] at h
  | ok ts =>
    simp only [hl] at h
    cases hp : parseToks ts with
    | none => simp [hp] at h
    | some bs => simp only [hp, Except.ok.injEq] at h; subst h; exact ⟨ts, rfl, hp⟩

theorem branchesOf_of {src : Bytes} {ts : List Tok} {A : List (List Raw)}
    (hl : lexAll src = .ok ts) (hp : parseToks ts = some A) : branchesOf src = .ok A := by
  simp [branchesOf, hl, hp]

theorem branchesOf_ne_nil {src : Bytes} {A : List (List Raw)} (h : branchesOf src = .ok A) : A ≠ [] := by
  obtain ⟨ts, _, hp⟩ := branchesOf_ok h
  exact parseToks_ne_nil hp

theorem branchesOf_join {a b : Bytes} {A B : List (List Raw)}
    (ha : branchesOf a = .ok A) (hb : branchesOf b = .ok B) :
    branchesOf (a ++ 124 :: b) = .ok (A ++ B) := by
  obtain ⟨ta, hla, hpa⟩ := branchesOf_ok ha
  obtain ⟨tb, hlb, hpb⟩ := branchesOf_ok hb
  exact branchesOf_of (lexAll_join hla hlb) (parseToks_join hpa hpb)

theorem branchesOf_wrap {a : Bytes} {A : List (List Raw)} (ha : branchesOf a = .ok A) :
    branchesOf (wrapSrc a) = .ok [[.group {} {} (mkAlt A)]] := by
  obtain ⟨ta, hla, hpa⟩ := branchesOf_ok ha
  exact branchesOf_of (lexAll_wrap hla) (parseToks_wrap hpa)

end C17
end FwdVerif
