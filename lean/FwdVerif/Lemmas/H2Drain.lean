/-
  Whole-connection drain of the HTTP/2 relay model.

  Two quantities of one direction are conserved by everything the gate does (`emitOn`, scans):

    connSlack d   = connWin − Σ over all buffers of the flow-controlled octets queued
    slack d s     = win s − flow-controlled octets queued on s     (buffer of `s`, or a fresh one)

  WINDOW_UPDATE adds its increment to them, SETTINGS_INITIAL_WINDOW_SIZE shifts every `slack d s`
  by the change of the initial window, nothing else that the *receiving* endpoint sends touches
  them.  With `AllStuck` (no stranding) a queue whose two slacks are non-negative is empty; a
  stream whose slack is negative and that had something queued still has something queued.

  The second half lifts this to schedules: a suffix of events that enqueues nothing on the
  direction (`quiet`) and that the receiver's reader loop accepts acts on the direction exactly by
  its WINDOW_UPDATE / SETTINGS frames.  Core-only.
-/
import FwdVerif.Lemmas.H2Order
import FwdVerif.Lemmas.H2Credit
import FwdVerif.Lemmas.H2Encode

namespace FwdVerif
namespace H2

variable {α : Type}

/-! ### octets queued on the whole connection -/

/-- flow-controlled octets waiting in all buffers of a direction -/
def queuedTotal : SMap α → Int
  | [] => 0
  | e :: m => fcSum e.2.queue + queuedTotal m

theorem queuedTotal_nonneg (m : SMap α) : 0 ≤ queuedTotal m := by
  induction m with
  | nil => simp [queuedTotal]
  | cons e m ih => have := fcSum_nonneg e.2.queue; simp only [queuedTotal]; omega

theorem queuedTotal_get_le (m : SMap α) (s : Nat) (st : Stream α) (h : m.get s = some st) :
    fcSum st.queue ≤ queuedTotal m := by
  induction m with
  | nil => simp [SMap.get] at h
  | cons e m ih =>
    obtain ⟨a, w⟩ := e
    simp only [SMap.get] at h
    simp only [queuedTotal]
    by_cases has : a = s
    · simp only [has, if_true] at h
      injection h with h
      subst h
      have := queuedTotal_nonneg m
      omega
    · simp only [has, if_false] at h
      have := ih h
      have := fcSum_nonneg w.queue
      omega

theorem queuedTotal_set_some (m : SMap α) (s : Nat) (st st' : Stream α) (h : m.get s = some st) :
    queuedTotal (m.set s st') = queuedTotal m - fcSum st.queue + fcSum st'.queue := by
  induction m with
  | nil => simp [SMap.get] at h
  | cons e m ih =>
    obtain ⟨a, w⟩ := e
    simp only [SMap.get] at h
    simp only [SMap.set]
    by_cases has : a = s
    · simp only [has, if_true] at h ⊢
      injection h with h
      subst h
      simp only [queuedTotal]
      omega
    · simp only [has, if_false] at h ⊢
      simp only [queuedTotal, ih h]
      omega

theorem queuedTotal_set_none (m : SMap α) (s : Nat) (st' : Stream α) (h : m.get s = none) :
    queuedTotal (m.set s st') = queuedTotal m + fcSum st'.queue := by
  induction m with
  | nil => simp [SMap.set, queuedTotal]
  | cons e m ih =>
    obtain ⟨a, w⟩ := e
    simp only [SMap.get] at h
    simp only [SMap.set]
    by_cases has : a = s
    · simp [has] at h
    · simp only [has, if_false] at h ⊢
      simp only [queuedTotal, ih h]
      omega

theorem queuedTotal_mapWin (m : SMap α) (f : Int → Int) : queuedTotal (m.mapWin f) = queuedTotal m := by
  induction m with
  | nil => rfl
  | cons e m ih =>
    simp only [SMap.mapWin, List.map_cons, queuedTotal] at ih ⊢
    rw [ih]

/-- something flow-controlled is queued somewhere -/
theorem exists_queued_of_total_pos (m : SMap α) (h : 0 < queuedTotal m) :
    ∃ e ∈ m, 0 < fcSum e.2.queue := by
  induction m with
  | nil => simp [queuedTotal] at h
  | cons e m ih =>
    simp only [queuedTotal] at h
    by_cases he : 0 < fcSum e.2.queue
    · exact ⟨e, by simp, he⟩
    · obtain ⟨x, hx, hp⟩ := ih (by omega)
      exact ⟨x, by simp [hx], hp⟩

/-! ### the two slacks -/

/-- connection window minus everything flow-controlled that is queued -/
def Dir.connSlack (d : Dir α) : Int := d.connWin - queuedTotal d.streams

/-- stream window minus what is queued on the stream (for a stream without buffer: the window a
    new buffer would get) -/
def Dir.slack (d : Dir α) (s : Nat) : Int := (d.buf s).win - fcSum (d.buf s).queue

theorem Dir.buf_some {d : Dir α} {s : Nat} {st : Stream α} (h : d.streams.get s = some st) : d.buf s = st := by
  simp [Dir.buf, h]

theorem Dir.buf_none {d : Dir α} {s : Nat} (h : d.streams.get s = none) :
    d.buf s = { win := d.initWin, queue := [] } := by
  simp [Dir.buf, h]

/-- the buffers after one buffer was replaced -/
theorem Dir.buf_of_set {d d' : Dir α} {s : Nat} {st' : Stream α} (hs : d'.streams = d.streams.set s st')
    (hi : d'.initWin = d.initWin) (t : Nat) : d'.buf t = if s = t then st' else d.buf t := by
  simp only [Dir.buf, hs, hi, SMap.get_set]
  by_cases h : s = t <;> simp [h]

/-- the same flow-control state (the reader-loop fields may differ) -/
structure FlowEq (d d' : Dir α) : Prop where
  streams : d'.streams = d.streams
  connWin : d'.connWin = d.connWin
  initWin : d'.initWin = d.initWin

theorem FlowEq.refl (d : Dir α) : FlowEq d d := ⟨rfl, rfl, rfl⟩

theorem FlowEq.buf {d d' : Dir α} (h : FlowEq d d') (t : Nat) : d'.buf t = d.buf t := by
  simp only [Dir.buf, h.streams, h.initWin]

theorem FlowEq.slack {d d' : Dir α} (h : FlowEq d d') (t : Nat) : d'.slack t = d.slack t := by
  simp only [Dir.slack, h.buf]

theorem FlowEq.connSlack {d d' : Dir α} (h : FlowEq d d') : d'.connSlack = d.connSlack := by
  simp only [Dir.connSlack, h.streams, h.connWin]

theorem FlowEq.queueOf {d d' : Dir α} (h : FlowEq d d') (t : Nat) : d'.queueOf t = d.queueOf t := by
  simp only [Dir.queueOf, h.streams]

/-! ### the gate conserves both slacks -/

theorem emitQ_fc (win conn : Int) (q : List (QFrame α)) :
    fcSum (emitQ win conn q).1 + fcSum (emitQ win conn q).2.1 = fcSum q := by
  rw [← fcSum_append, emitQ_split]

theorem emitOn_initWin (d : Dir α) (s : Nat) : (d.emitOn s).1.initWin = d.initWin := by
  rcases d.emitOn_spec s with ⟨_, he⟩ | ⟨_, _, _, he1⟩
  · rw [he]
  · rw [he1]

theorem emitOn_connSlack (d : Dir α) (s : Nat) : (d.emitOn s).1.connSlack = d.connSlack := by
  rcases d.emitOn_spec s with ⟨_, he⟩ | ⟨st, hs, _, he1⟩
  · rw [he]
  · rw [he1]
    simp only [Dir.connSlack, queuedTotal_set_some _ _ _ _ hs, emitQ_conn]
    have := emitQ_fc st.win d.connWin st.queue
    omega

theorem emitOn_slack (d : Dir α) (s t : Nat) : (d.emitOn s).1.slack t = d.slack t := by
  rcases d.emitOn_spec s with ⟨_, he⟩ | ⟨st, hs, _, he1⟩
  · rw [he]
  · have hb := Dir.buf_of_set (d := d) (d' := (d.emitOn s).1) (s := s)
      (st' := { win := (emitQ st.win d.connWin st.queue).2.2.1, queue := (emitQ st.win d.connWin st.queue).2.1 })
      (by rw [he1]) (by rw [he1]) t
    simp only [Dir.slack, hb]
    by_cases h : s = t
    · subst h
      simp only [if_true, Dir.buf_some hs, emitQ_win]
      have := emitQ_fc st.win d.connWin st.queue
      omega
    · simp only [h, if_false]

theorem emitList_initWin (d : Dir α) (ss : List Nat) : (d.emitList ss).1.initWin = d.initWin := by
  induction ss generalizing d with
  | nil => rfl
  | cons s t ih => simp only [Dir.emitList]; rw [ih, emitOn_initWin]

theorem emitList_connSlack (d : Dir α) (ss : List Nat) : (d.emitList ss).1.connSlack = d.connSlack := by
  induction ss generalizing d with
  | nil => rfl
  | cons s t ih => simp only [Dir.emitList]; rw [ih, emitOn_connSlack]

theorem emitList_slack (d : Dir α) (ss : List Nat) (t : Nat) : (d.emitList ss).1.slack t = d.slack t := by
  induction ss generalizing d with
  | nil => rfl
  | cons s r ih => simp only [Dir.emitList]; rw [ih, emitOn_slack]

/-! ### WINDOW_UPDATE and SETTINGS_INITIAL_WINDOW_SIZE -/

/-- rewriting the window of one buffer (creating it) -/
theorem setWin_connSlack (d : Dir α) (s : Nat) (w : Int) :
    ({ d with streams := d.streams.set s { d.buf s with win := w } } : Dir α).connSlack = d.connSlack := by
  simp only [Dir.connSlack]
  rcases d.buf_spec s with ⟨st, hs, hb⟩ | ⟨hn, hb⟩
  · rw [queuedTotal_set_some _ _ _ _ hs, hb]
    simp only []
    omega
  · rw [queuedTotal_set_none _ _ _ hn, hb]
    simp [fcSum]

theorem setWin_slack (d : Dir α) (s : Nat) (n : Int) (t : Nat) :
    ({ d with streams := d.streams.set s { d.buf s with win := (d.buf s).win + n } } : Dir α).slack t =
      d.slack t + (if t = s then n else 0) := by
  have hb := Dir.buf_of_set (d := d)
    (d' := { d with streams := d.streams.set s { d.buf s with win := (d.buf s).win + n } }) (s := s) rfl rfl t
  simp only [Dir.slack, hb]
  by_cases h : s = t
  · subst h
    simp only [if_true]
    omega
  · have h' : ¬ t = s := fun x => h x.symm
    simp only [h, h', if_false]
    omega

theorem windowUpdate_initWin (d : Dir α) (order : List Nat) (s n : Nat) :
    (d.windowUpdate order s n).1.initWin = d.initWin := by
  unfold Dir.windowUpdate
  by_cases hs : s = 0
  · subst hs
    simp only [if_true]
    rw [emitOn_initWin]
    exact emitList_initWin _ _
  · simp only [hs, if_false]
    rw [emitOn_initWin]

/-- a WINDOW_UPDATE on the connection adds its increment to the connection slack … -/
theorem windowUpdate_connSlack (d : Dir α) (order : List Nat) (s n : Nat) :
    (d.windowUpdate order s n).1.connSlack = d.connSlack + (if s = 0 then (n : Int) else 0) := by
  unfold Dir.windowUpdate
  by_cases hs : s = 0
  · subst hs
    simp only [if_true]
    rw [emitOn_connSlack, setWin_connSlack]
    unfold Dir.pass
    rw [emitList_connSlack]
    simp only [Dir.connSlack]
    omega
  · simp only [hs, if_false]
    rw [emitOn_connSlack, setWin_connSlack]
    omega

/-- … and every WINDOW_UPDATE adds its increment to the slack of the stream it names -/
theorem windowUpdate_slack (d : Dir α) (order : List Nat) (s n : Nat) (t : Nat) :
    (d.windowUpdate order s n).1.slack t = d.slack t + (if t = s then (n : Int) else 0) := by
  unfold Dir.windowUpdate
  by_cases hs : s = 0
  · subst hs
    simp only [if_true]
    rw [emitOn_slack, setWin_slack]
    unfold Dir.pass
    rw [emitList_slack]
    rfl
  · simp only [hs, if_false]
    rw [emitOn_slack, setWin_slack]

theorem setInitWin_initWin (d : Dir α) (order : List Nat) (v : Nat) : (d.setInitWin order v).1.initWin = v := by
  unfold Dir.setInitWin Dir.pass
  rw [emitList_initWin]

theorem setInitWin_connSlack (d : Dir α) (order : List Nat) (v : Nat) :
    (d.setInitWin order v).1.connSlack = d.connSlack := by
  unfold Dir.setInitWin Dir.pass
  rw [emitList_connSlack]
  simp only [Dir.connSlack, queuedTotal_mapWin]

/-- SETTINGS_INITIAL_WINDOW_SIZE shifts the slack of every stream, with or without buffer, by the
    change of the initial window -/
theorem setInitWin_slack (d : Dir α) (order : List Nat) (v : Nat) (t : Nat) :
    (d.setInitWin order v).1.slack t = d.slack t + ((v : Int) - d.initWin) := by
  unfold Dir.setInitWin Dir.pass
  rw [emitList_slack]
  simp only [Dir.slack, Dir.buf, SMap.get_mapWin]
  cases hg : d.streams.get t with
  | none => simp only [Option.map_none, fcSum]; omega
  | some st => simp only [Option.map_some]; omega

/-- the value SETTINGS_INITIAL_WINDOW_SIZE ends with after a SETTINGS frame (the last entry wins) -/
def lastInit (iw : Int) : List (Nat × Nat) → Int
  | [] => iw
  | (id, v) :: rest => lastInit (if id = settingInitialWindowSize then (v : Int) else iw) rest

theorem applyEach_initWin (o : Dir α) (ord : Nat → List Nat) (k : Nat) (kvs : List (Nat × Nat)) :
    (applyEach o ord k kvs).1.initWin = lastInit o.initWin kvs := by
  induction kvs generalizing o k with
  | nil => rfl
  | cons kv rest ih =>
    obtain ⟨id, v⟩ := kv
    simp only [H2.applyEach, lastInit]
    split
    · rw [ih, setInitWin_initWin]
    · split
      · exact ih _ _
      · split
        · exact ih _ _
        · exact ih _ _

theorem lastInit_indep (x y : Int) (t : List (Nat × Nat))
    (h : t.any (fun kv => kv.1 == settingInitialWindowSize) = true) : lastInit x t = lastInit y t := by
  induction t generalizing x y with
  | nil => simp at h
  | cons kv rest ih =>
    obtain ⟨i, v⟩ := kv
    simp only [lastInit]
    by_cases hi : i = settingInitialWindowSize
    · simp [hi]
    · simp only [hi, if_false]
      apply ih
      simpa [hi] using h

/-- skipping the superseded values (`relay.applySettings`) leaves the same initial window in force -/
theorem lastInit_inForce (iw : Int) (kvs : List (Nat × Nat)) : lastInit iw (inForce kvs) = lastInit iw kvs := by
  induction kvs generalizing iw with
  | nil => rfl
  | cons kv rest ih =>
    obtain ⟨i, v⟩ := kv
    simp only [inForce]
    split
    · rename_i hc
      rw [ih]
      simp only [lastInit]
      by_cases hi : i = settingInitialWindowSize
      · have hany := hc.2
        rw [hi] at hany
        simp only [hi, if_true]
        exact lastInit_indep _ _ rest hany
      · simp [hi]
    · simp only [lastInit]; exact ih _

theorem applyEach_connSlack (o : Dir α) (ord : Nat → List Nat) (k : Nat) (kvs : List (Nat × Nat)) :
    (applyEach o ord k kvs).1.connSlack = o.connSlack := by
  induction kvs generalizing o k with
  | nil => rfl
  | cons kv rest ih =>
    obtain ⟨id, v⟩ := kv
    simp only [H2.applyEach]
    split
    · rw [ih, setInitWin_connSlack]
    · split
      · exact ih _ _
      · split
        · exact ih _ _
        · exact ih _ _

/-- a SETTINGS frame keeps `slack − initWin` of every stream -/
theorem applyEach_slack (o : Dir α) (ord : Nat → List Nat) (k : Nat) (kvs : List (Nat × Nat)) (t : Nat) :
    (applyEach o ord k kvs).1.slack t - (applyEach o ord k kvs).1.initWin = o.slack t - o.initWin := by
  induction kvs generalizing o k with
  | nil => rfl
  | cons kv rest ih =>
    obtain ⟨id, v⟩ := kv
    simp only [H2.applyEach]
    split
    · rw [ih, setInitWin_slack, setInitWin_initWin]
      omega
    · split
      · exact ih _ _
      · split
        · exact ih _ _
        · exact ih _ _

theorem Fifo.applyEach {o : Dir α} {H : Hist α} (h : Fifo o H) (ord : Nat → List Nat) (k : Nat)
    (kvs : List (Nat × Nat)) :
    Fifo (applyEach o ord k kvs).1 (H.addOut (applyEach o ord k kvs).2) := by
  induction kvs generalizing o H k with
  | nil => exact h
  | cons kv rest ih =>
    obtain ⟨id, v⟩ := kv
    simp only [H2.applyEach]
    split
    · simp only []
      rw [Hist.addOut_append]
      exact ih (h.setInitWin (ord k) v) (k + 1)
    · split
      · exact ih (h.congr (d' := { o with maxFrame := v }) rfl) k
      · split
        · exact ih (h.congr (d' := { o with tableSize := v }) rfl) k
        · exact ih h k

/-! ### the drain criterion -/

/-- **no stranding + both slacks non-negative ⇒ the queue is empty** -/
theorem AllStuck.queue_nil {d : Dir α} (h : AllStuck d) (s : Nat) (hc : 0 ≤ d.connSlack) (hw : 0 ≤ d.slack s) :
    d.queueOf s = [] := by
  cases hg : d.streams.get s with
  | none => simp [Dir.queueOf, hg]
  | some st =>
    have hst := h s st hg
    have htot := queuedTotal_get_le _ _ _ hg
    simp only [Dir.slack, Dir.buf_some hg] at hw
    simp only [Dir.connSlack] at hc
    simp only [Dir.queueOf, hg]
    cases hq : st.queue with
    | nil => rfl
    | cons f r =>
      rw [hq] at hst htot hw
      simp only [stuck] at hst
      simp only [fcSum] at htot hw
      have := fcSum_nonneg r
      omega

/-! ### nothing leaves without credit -/

/-- the stream still has something queued, or its window is not negative (a release leaves the
    window ≥ 0, an increment keeps it so) -/
def Room (d : Dir α) (s : Nat) : Prop := d.queueOf s ≠ [] ∨ 0 ≤ (d.buf s).win

theorem emitQ_room (win conn : Int) (q : List (QFrame α)) (h : q ≠ [] ∨ 0 ≤ win) :
    (emitQ win conn q).2.1 ≠ [] ∨ 0 ≤ (emitQ win conn q).2.2.1 := by
  by_cases he : (emitQ win conn q).1 = []
  · have hs := emitQ_split win conn q
    have hw := emitQ_win win conn q
    rw [he] at hs hw
    simp only [List.nil_append] at hs
    simp only [fcSum] at hw
    rw [hs, hw]
    rcases h with h | h
    · exact Or.inl h
    · exact Or.inr (by omega)
  · exact Or.inr (emitQ_win_nonneg win conn q he)

theorem Room.of_flowEq {d d' : Dir α} (e : FlowEq d d') {s : Nat} (h : Room d s) : Room d' s := by
  unfold Room at h ⊢
  rw [e.queueOf, e.buf]
  exact h

theorem Room.emitOn {d : Dir α} {s : Nat} (h : Room d s) (u : Nat) : Room (d.emitOn u).1 s := by
  rcases d.emitOn_spec u with ⟨_, he⟩ | ⟨st, hs, _, he1⟩
  · rw [he]; exact h
  · have hb := Dir.buf_of_set (d := d) (d' := (d.emitOn u).1) (s := u)
      (st' := { win := (emitQ st.win d.connWin st.queue).2.2.1, queue := (emitQ st.win d.connWin st.queue).2.1 })
      (by rw [he1]) (by rw [he1]) s
    unfold Room at h ⊢
    rw [← Dir.buf_queue] at h ⊢
    rw [hb]
    by_cases hus : u = s
    · subst hus
      simp only [if_true]
      rw [Dir.buf_some hs] at h
      exact emitQ_room _ _ _ h
    · simp only [hus, if_false]
      exact h

theorem Room.emitList {d : Dir α} {s : Nat} (h : Room d s) (us : List Nat) : Room (d.emitList us).1 s := by
  induction us generalizing d with
  | nil => exact h
  | cons u r ih => simp only [Dir.emitList]; exact ih (h.emitOn u)

theorem Room.addWin {d : Dir α} {s : Nat} (h : Room d s) (u n : Nat) :
    Room ({ d with streams := d.streams.set u { d.buf u with win := (d.buf u).win + n } } : Dir α) s := by
  have hb := Dir.buf_of_set (d := d)
    (d' := { d with streams := d.streams.set u { d.buf u with win := (d.buf u).win + n } }) (s := u) rfl rfl s
  unfold Room at h ⊢
  rw [← Dir.buf_queue] at h ⊢
  rw [hb]
  by_cases hus : u = s
  · subst hus
    simp only [if_true]
    rcases h with h | h
    · exact Or.inl h
    · exact Or.inr (by omega)
  · simp only [hus, if_false]
    exact h

theorem Room.windowUpdate {d : Dir α} {s : Nat} (h : Room d s) (order : List Nat) (u n : Nat) :
    Room (d.windowUpdate order u n).1 s := by
  unfold Dir.windowUpdate
  by_cases hu : u = 0
  · subst hu
    simp only [if_true]
    -- `Room` does not read the connection window
    have h0 : Room ({ d with connWin := d.connWin + n } : Dir α) s := h
    exact ((h0.emitList _).addWin 0 n).emitOn 0
  · simp only [hu, if_false]
    exact (h.addWin u n).emitOn u

/-! ### what one frame does to the opposite relay -/

/-- the action of a frame on the relay of the opposite direction (`r.peer.…` in `processFrame`) -/
def otherEffect (o : Dir α) (ord : Nat → List Nat) : Op α → Dir α × List (QFrame α)
  | .windowUpdate s n => o.windowUpdate (ord 0) s n
  | .settings kvs => applySettings o ord kvs
  | _ => (o, [])

theorem process_other_eq (d o : Dir α) (ord : Nat → List Nat) (op : Op α) :
    (process d o ord op).2.1 = (otherEffect o ord op).1 ∧
    (process d o ord op).2.2.back = (otherEffect o ord op).2 := by
  cases op with
  | data sid payload pad es => exact ⟨rfl, rfl⟩
  | headers sid es eh prio frag reenc => simp only [H2.process, otherEffect]; split <;> exact ⟨rfl, rfl⟩
  | continuation sid eh frag reenc =>
    simp only [H2.process, otherEffect]
    split
    · split <;> exact ⟨rfl, rfl⟩
    · exact ⟨rfl, rfl⟩
  | pushPromise sid promised eh frag reenc => simp only [H2.process, otherEffect]; split <;> exact ⟨rfl, rfl⟩
  | priority sid prio => exact ⟨rfl, rfl⟩
  | rst sid code => exact ⟨rfl, rfl⟩
  | windowUpdate sid inc => exact ⟨rfl, rfl⟩
  | settings kvs => exact ⟨rfl, rfl⟩
  | settingsAck => exact ⟨rfl, rfl⟩
  | ping ack data => exact ⟨rfl, rfl⟩
  | goAway last code debug => exact ⟨rfl, rfl⟩
  | unknown typ => exact ⟨rfl, rfl⟩

def isUnknown : Op α → Bool
  | .unknown _ => true
  | _ => false

theorem process_fatal (d o : Dir α) (ord : Nat → List Nat) (op : Op α) :
    (process d o ord op).2.2.fatal = isUnknown op := by
  cases op with
  | data sid p pad es => rfl
  | headers sid es eh prio frag reenc => simp only [H2.process, isUnknown]; split <;> rfl
  | continuation sid eh frag reenc =>
    simp only [H2.process, isUnknown]
    split
    · split <;> rfl
    · rfl
  | pushPromise sid promised eh frag reenc => simp only [H2.process, isUnknown]; split <;> rfl
  | priority sid prio => rfl
  | rst sid code => rfl
  | windowUpdate sid inc => rfl
  | settings kvs => rfl
  | settingsAck => rfl
  | ping ack data => rfl
  | goAway last code debug => rfl
  | unknown typ => rfl

/-- credit a frame grants on stream `t` of the opposite direction (stream 0 = the connection) -/
def wuInc : Op α → Nat → Int
  | .windowUpdate s n, t => if t = s then (n : Int) else 0
  | _, _ => 0

/-- the opposite direction's initial window after the frame -/
def opInit (iw : Int) : Op α → Int
  | .settings kvs => lastInit iw kvs
  | _ => iw

/-- the frame carries no SETTINGS_INITIAL_WINDOW_SIZE -/
def noInitOp : Op α → Bool
  | .settings kvs => initCount kvs == 0
  | _ => true

theorem applyEach_flowEq (o : Dir α) (ord : Nat → List Nat) (k : Nat) (kvs : List (Nat × Nat))
    (h : initCount kvs = 0) :
    FlowEq o (applyEach o ord k kvs).1 ∧ (applyEach o ord k kvs).2 = [] := by
  induction kvs generalizing o k with
  | nil => exact ⟨FlowEq.refl o, rfl⟩
  | cons kv rest ih =>
    obtain ⟨id, v⟩ := kv
    simp only [initCount] at h
    have hid : ¬ id = settingInitialWindowSize := by
      intro hx; simp [hx] at h
    have hrest : initCount rest = 0 := by simp [hid] at h; exact h
    simp only [H2.applyEach, hid, if_false]
    split
    · have := ih { o with maxFrame := v } k hrest
      exact ⟨⟨this.1.streams, this.1.connWin, this.1.initWin⟩, this.2⟩
    · split
      · have := ih { o with tableSize := v } k hrest
        exact ⟨⟨this.1.streams, this.1.connWin, this.1.initWin⟩, this.2⟩
      · exact ih o k hrest

/-- how a direction moves: slacks, initial window, FIFO, and (when no initial-window change is
    involved: `ni`) `Room` -/
structure Moves (o o' : Dir α) (rel : List (QFrame α)) (g : Nat → Int) (iw' : Int) (ni : Bool) : Prop where
  conn : o'.connSlack = o.connSlack + g 0
  slack : ∀ t, o'.slack t - o'.initWin = o.slack t - o.initWin + g t
  init : o'.initWin = iw'
  fifo : ∀ H : Hist α, Fifo o H → Fifo o' (H.addOut rel)
  room : ni = true → ∀ s, Room o s → Room o' s

theorem Moves.of_flowEq {o o' : Dir α} (e : FlowEq o o') : Moves o o' [] (fun _ => 0) o.initWin true :=
  { conn := by rw [e.connSlack]; omega,
    slack := by intro t; rw [e.slack, e.initWin]; omega,
    init := e.initWin,
    fifo := fun H h => h.congr e.streams,
    room := fun _ s h => h.of_flowEq e }

theorem Moves.trans {a b c : Dir α} {r1 r2 : List (QFrame α)} {g1 g2 : Nat → Int} {i1 i2 : Int} {n1 n2 : Bool}
    (h1 : Moves a b r1 g1 i1 n1) (h2 : Moves b c r2 g2 i2 n2) :
    Moves a c (r1 ++ r2) (fun t => g1 t + g2 t) i2 (n1 && n2) :=
  { conn := by rw [h2.conn, h1.conn]; omega,
    slack := by intro t; rw [h2.slack, h1.slack]; omega,
    init := h2.init,
    fifo := by intro H h; rw [Hist.addOut_append]; exact h2.fifo _ (h1.fifo H h),
    room := by
      intro hn s h
      simp only [Bool.and_eq_true] at hn
      exact h2.room hn.2 s (h1.room hn.1 s h) }

theorem Moves.otherEffect (o : Dir α) (ord : Nat → List Nat) (op : Op α) :
    Moves o (otherEffect o ord op).1 (otherEffect o ord op).2 (wuInc op) (opInit o.initWin op) (noInitOp op) := by
  cases op with
  | windowUpdate s n =>
    refine { conn := ?_, slack := ?_, init := ?_, fifo := ?_, room := ?_ }
    · simp only [H2.otherEffect, windowUpdate_connSlack, wuInc]
      by_cases hs : s = 0
      · simp [hs]
      · have : ¬ 0 = s := fun x => hs x.symm
        simp [hs, this]
    · intro t
      simp only [H2.otherEffect, windowUpdate_slack, windowUpdate_initWin, wuInc]
      split <;> omega
    · exact windowUpdate_initWin o (ord 0) s n
    · exact fun H h => h.windowUpdate (ord 0) s n
    · exact fun _ t h => h.windowUpdate (ord 0) s n
  | settings kvs =>
    refine { conn := ?_, slack := ?_, init := ?_, fifo := ?_, room := ?_ }
    · simp only [H2.otherEffect, H2.applySettings, applyEach_connSlack, wuInc]; omega
    · intro t
      simp only [H2.otherEffect, H2.applySettings, applyEach_slack, wuInc]; omega
    · exact (applyEach_initWin o ord 0 (inForce kvs)).trans (lastInit_inForce o.initWin kvs)
    · exact fun H h => h.applyEach ord 0 (inForce kvs)
    · intro hn t h
      have hc : initCount kvs = 0 := by simpa [noInitOp] using hn
      have hc' : initCount (inForce kvs) = 0 := by have := initCount_inForce_le kvs; omega
      exact h.of_flowEq (applyEach_flowEq o ord 0 (inForce kvs) hc').1
  | data sid payload pad es => exact Moves.of_flowEq (FlowEq.refl o)
  | headers sid es eh prio frag reenc => exact Moves.of_flowEq (FlowEq.refl o)
  | continuation sid eh frag reenc => exact Moves.of_flowEq (FlowEq.refl o)
  | pushPromise sid promised eh frag reenc => exact Moves.of_flowEq (FlowEq.refl o)
  | priority sid prio => exact Moves.of_flowEq (FlowEq.refl o)
  | rst sid code => exact Moves.of_flowEq (FlowEq.refl o)
  | settingsAck => exact Moves.of_flowEq (FlowEq.refl o)
  | ping ack data => exact Moves.of_flowEq (FlowEq.refl o)
  | goAway last code debug => exact Moves.of_flowEq (FlowEq.refl o)
  | unknown typ => exact Moves.of_flowEq (FlowEq.refl o)

/-- a frame read and processed by the reader loop of `d` acts on the opposite relay `o` by
    `otherEffect`; the reader stays alive unless the frame type is unknown -/
theorem step_accepted (d o : Dir α) (ord : Nat → List Nat) (op : Op α) (hd : d.dead = false)
    (hok : orderOk d op = true) :
    (step d o ord op).2.1 = (otherEffect o ord op).1 ∧ (step d o ord op).2.2.back = (otherEffect o ord op).2 ∧
    (step d o ord op).1.expectCont = nextExpect d op ∧ (step d o ord op).1.dead = isUnknown op := by
  unfold H2.step
  have hd' : ¬ d.dead = true := by simp [hd]
  rw [if_neg hd', if_pos hok]
  exact ⟨(process_other_eq d o ord op).1, (process_other_eq d o ord op).2, rfl, process_fatal d o ord op⟩

/-- frames the sender of a direction may send without enqueueing anything on it -/
def senderQuiet : Op α → Bool
  | .windowUpdate _ _ | .settings _ | .settingsAck | .ping _ _ | .goAway _ _ _ | .unknown _ => true
  | _ => false

theorem step_senderQuiet (d o : Dir α) (ord : Nat → List Nat) (op : Op α) (h : senderQuiet op = true) :
    FlowEq d (step d o ord op).1 ∧ (step d o ord op).2.2.fwd = [] := by
  unfold H2.step
  split
  · exact ⟨FlowEq.refl d, rfl⟩
  · split
    · cases op with
      | windowUpdate s n => exact ⟨⟨rfl, rfl, rfl⟩, rfl⟩
      | settings kvs => exact ⟨⟨rfl, rfl, rfl⟩, rfl⟩
      | settingsAck => exact ⟨⟨rfl, rfl, rfl⟩, rfl⟩
      | ping ack data => exact ⟨⟨rfl, rfl, rfl⟩, rfl⟩
      | goAway last code debug => exact ⟨⟨rfl, rfl, rfl⟩, rfl⟩
      | unknown typ => exact ⟨⟨rfl, rfl, rfl⟩, rfl⟩
      | data sid payload pad es => simp [senderQuiet] at h
      | headers sid es eh prio frag reenc => simp [senderQuiet] at h
      | continuation sid eh frag reenc => simp [senderQuiet] at h
      | pushPromise sid promised eh frag reenc => simp [senderQuiet] at h
      | priority sid prio => simp [senderQuiet] at h
      | rst sid code => simp [senderQuiet] at h
    · exact ⟨⟨rfl, rfl, rfl⟩, rfl⟩

/-- a frame the reader loop of `d` does not process (the loop has ended, or the Framer's order
    check fails and ends it) leaves the opposite relay alone -/
theorem step_rejected (d o : Dir α) (ord : Nat → List Nat) (op : Op α)
    (h : d.dead = true ∨ orderOk d op = false) :
    (step d o ord op).2.1 = o ∧ (step d o ord op).2.2.back = [] ∧
    (step d o ord op).1.dead = true ∧ (step d o ord op).1.expectCont = d.expectCont := by
  unfold H2.step
  by_cases hd : d.dead = true
  · rw [if_pos hd]
    exact ⟨rfl, rfl, hd, rfl⟩
  · rw [if_neg hd]
    have hok : ¬ orderOk d op = true := by
      rcases h with h | h
      · exact absurd h hd
      · simp [h]
    rw [if_neg hok]
    exact ⟨rfl, rfl, rfl, rfl⟩

/-- the Framer's order check reads only `expectCont` -/
theorem orderOk_expect (d : Dir α) (op : Op α) : orderOk d op = orderOk ({ expectCont := d.expectCont } : Dir α) op := by
  cases op <;> rfl

theorem nextExpect_expect (d : Dir α) (op : Op α) :
    nextExpect d op = nextExpect ({ expectCont := d.expectCont } : Dir α) op := by
  cases op <;> rfl

/-! ### sides and directions -/

def Side.other : Side → Side
  | .client => .server
  | .server => .client

theorem Side.other_ne (a : Side) : ¬ a.other = a := by cases a <;> simp [Side.other]

theorem Side.eq_other_of_ne {a b : Side} (h : ¬ a = b) : a = b.other := by
  cases a <;> cases b <;> simp_all [Side.other]

/-- the relay that carries the frames sent by `side` (and reads them): `cs` for the client -/
def Relay.dir (r : Relay α) : Side → Dir α
  | .client => r.cs
  | .server => r.sc

/-- a frame sent by `side`: its own relay reads it, the opposite one is the `peer` -/
theorem Relay.step_own (r : Relay α) (side : Side) (ord : Nat → List Nat) (op : Op α) :
    (r.step side ord op).1.dir side = (H2.step (r.dir side) (r.dir side.other) ord op).1 ∧
    (r.step side ord op).1.dir side.other = (H2.step (r.dir side) (r.dir side.other) ord op).2.1 ∧
    (r.step side ord op).2 = (H2.step (r.dir side) (r.dir side.other) ord op).2.2 := by
  cases side <;> exact ⟨rfl, rfl, rfl⟩

/-- a frame sent by the other side -/
theorem Relay.step_peer (r : Relay α) (side : Side) (ord : Nat → List Nat) (op : Op α) :
    (r.step side.other ord op).1.dir side = (H2.step (r.dir side.other) (r.dir side) ord op).2.1 ∧
    (r.step side.other ord op).1.dir side.other = (H2.step (r.dir side.other) (r.dir side) ord op).1 ∧
    (r.step side.other ord op).2 = (H2.step (r.dir side.other) (r.dir side) ord op).2.2 := by
  cases side <;> exact ⟨rfl, rfl, rfl⟩

/-- queued frames released on the direction of sender `side` by one scheduled frame -/
def relOn (side : Side) (x : Side × Op α × Out α) : List (QFrame α) :=
  if x.1 = side then x.2.2.fwd else x.2.2.back

/-- … and by a whole trace of `Relay.run`, in writer order -/
def releasedOn (side : Side) : List (Side × Op α × Out α) → List (QFrame α)
  | [] => []
  | x :: xs => relOn side x ++ releasedOn side xs

/-! ### suffixes that enqueue nothing on a direction -/

/-- no frame of `sfx` sent by `side` is relayed through a queue (DATA, header blocks, PRIORITY,
    RST_STREAM are); frames of the other side are arbitrary -/
def quietFor (side : Side) : List (Ev α) → Bool
  | [] => true
  | e :: es => (if e.side = side then senderQuiet e.op else true) && quietFor side es

/-- the frames of the receiver (`side.other`) that its reader loop processes, starting from the
    loop state `dead`, `ec` (= `expectCont`): a frame failing the Framer's order check ends the
    loop, so does a frame of unknown type after it was processed -/
def readOps (side : Side) : Bool → Option Nat → List (Ev α) → List (Op α)
  | _, _, [] => []
  | dead, ec, e :: es =>
    if e.side = side then readOps side dead ec es
    else if dead = false ∧ orderOk ({ expectCont := ec } : Dir α) e.op = true then
      e.op :: readOps side (isUnknown e.op) (nextExpect ({ expectCont := ec } : Dir α) e.op) es
    else readOps side true ec es

def grantSum (t : Nat) : List (Op α) → Int
  | [] => 0
  | op :: ops => wuInc op t + grantSum t ops

def initAfterOps (iw : Int) : List (Op α) → Int
  | [] => iw
  | op :: ops => initAfterOps (opInit iw op) ops

def noInitOps : List (Op α) → Bool
  | [] => true
  | op :: ops => noInitOp op && noInitOps ops

theorem Moves.congr {o o' : Dir α} {r r' : List (QFrame α)} {g g' : Nat → Int} {i i' : Int} {n n' : Bool}
    (h : Moves o o' r g i n) (hr : r = r') (hg : ∀ t, g t = g' t) (hi : i = i') (hn : n = n') :
    Moves o o' r' g' i' n' := by
  have : g = g' := funext hg
  subst hr; subst this; subst hi; subst hn
  exact h

/-- **a quiet suffix acts on the direction exactly by the WINDOW_UPDATE and SETTINGS frames the
    receiver's reader loop processes** -/
theorem quiet_run (side : Side) (sfx : List (Ev α)) :
    ∀ (r : Relay α) (dead : Bool) (ec : Option Nat), quietFor side sfx = true →
      (r.dir side.other).dead = dead → (r.dir side.other).expectCont = ec →
      Moves (r.dir side) ((r.run sfx).1.dir side) (releasedOn side (r.run sfx).2)
        (fun t => grantSum t (readOps side dead ec sfx))
        (initAfterOps (r.dir side).initWin (readOps side dead ec sfx))
        (noInitOps (readOps side dead ec sfx)) := by
  induction sfx with
  | nil =>
    intro r dead ec _ _ _
    exact Moves.of_flowEq (FlowEq.refl _)
  | cons e es ih =>
    intro r dead ec hq hd he
    obtain ⟨sd, ord, op⟩ := e
    simp only [quietFor, Bool.and_eq_true] at hq
    by_cases hs : sd = side
    · subst hs
      have hsq : senderQuiet op = true := by simpa using hq.1
      have st := r.step_own sd ord op
      have fq := step_senderQuiet (r.dir sd) (r.dir sd.other) ord op hsq
      have sr := step_other (r.dir sd) (r.dir sd.other) ord op
      have ih' := ih (r.step sd ord op).1 dead ec hq.2
        (by rw [st.2.1, sr.2.2]; exact hd) (by rw [st.2.1, sr.2.1]; exact he)
      have m1 : Moves (r.dir sd) ((r.step sd ord op).1.dir sd) [] (fun _ => 0) (r.dir sd).initWin true := by
        rw [st.1]; exact Moves.of_flowEq fq.1
      refine (m1.trans ih').congr ?_ ?_ ?_ ?_
      · simp only [Relay.run, releasedOn, relOn, if_true, st.2.2, fq.2]
      · intro t; simp only [readOps, if_true]; omega
      · simp only [readOps, if_true, st.1, fq.1.initWin]
      · simp only [readOps, if_true, Bool.true_and]
    · have hso : sd = side.other := Side.eq_other_of_ne hs
      subst hso
      have st := r.step_peer side ord op
      have hne : ¬ side.other = side := Side.other_ne side
      by_cases hacc : dead = false ∧ orderOk ({ expectCont := ec } : Dir α) op = true
      · have hd' : (r.dir side.other).dead = false := by rw [hd]; exact hacc.1
        have hok : orderOk (r.dir side.other) op = true := by rw [orderOk_expect, he]; exact hacc.2
        have sa := step_accepted (r.dir side.other) (r.dir side) ord op hd' hok
        have ih' := ih (r.step side.other ord op).1 (isUnknown op)
          (nextExpect ({ expectCont := ec } : Dir α) op) hq.2
          (by rw [st.2.1, sa.2.2.2]) (by rw [st.2.1, sa.2.2.1, nextExpect_expect, he])
        have m1 := Moves.otherEffect (r.dir side) ord op
        rw [← sa.1, ← sa.2.1, ← st.1] at m1
        refine (m1.trans ih').congr ?_ ?_ ?_ ?_
        · simp only [Relay.run, releasedOn, relOn, hne, if_false, st.2.2]
        · intro t; simp only [readOps, hne, if_false, hacc, and_self, if_true, grantSum]
        · simp only [readOps, hne, if_false, hacc, and_self, if_true, initAfterOps, m1.init]
        · simp only [readOps, hne, if_false, hacc, and_self, if_true, noInitOps]
      · have hrej : (r.dir side.other).dead = true ∨ orderOk (r.dir side.other) op = false := by
          rw [hd, orderOk_expect, he]
          cases dead with
          | true => exact Or.inl rfl
          | false =>
            right
            cases hx : orderOk ({ expectCont := ec } : Dir α) op with
            | false => rfl
            | true => exact absurd ⟨rfl, hx⟩ hacc
        have sj := step_rejected (r.dir side.other) (r.dir side) ord op hrej
        have ih' := ih (r.step side.other ord op).1 true ec hq.2
          (by rw [st.2.1, sj.2.2.1]) (by rw [st.2.1, sj.2.2.2, he])
        have m1 : Moves (r.dir side) ((r.step side.other ord op).1.dir side) [] (fun _ => 0) (r.dir side).initWin true := by
          rw [st.1, sj.1]; exact Moves.of_flowEq (FlowEq.refl _)
        refine (m1.trans ih').congr ?_ ?_ ?_ ?_
        · simp only [Relay.run, releasedOn, relOn, hne, if_false, st.2.2, sj.2.1]
        · intro t; simp only [readOps, hne, if_false, hacc, if_false]; omega
        · simp only [readOps, hne, if_false, hacc, st.1, sj.1]
        · simp only [readOps, hne, if_false, hacc, Bool.true_and]

/-! ### consequences for a direction that moved -/

/-- what was released on stream `s` while the direction moved, followed by what is still queued,
    is what was queued before (nothing was enqueued meanwhile) -/
theorem Moves.released_split {o o' : Dir α} {rel : List (QFrame α)} {g : Nat → Int} {iw : Int} {ni : Bool}
    (m : Moves o o' rel g iw ni) {H : Hist α} (hf : Fifo o H) (s : Nat) :
    onStream s rel ++ o'.queueOf s = o.queueOf s := by
  have h0 := hf.split s
  have h1 := (m.fifo H hf).split s
  rw [Hist.addOut_out, Hist.addOut_enq, ← h0, List.append_assoc] at h1
  exact List.append_cancel_left h1

/-- the credit covers everything queued: `gc` on the connection, `gs s` on stream `s` -/
def Sufficient (d : Dir α) (gc : Int) (gs : Nat → Int) : Prop :=
  queuedTotal d.streams ≤ d.connWin + gc ∧
  ∀ s ∈ d.streams.keys, d.queueOf s ≠ [] → fcSum (d.queueOf s) ≤ (d.buf s).win + gs s

instance (d : Dir α) (gc : Int) (gs : Nat → Int) : Decidable (Sufficient d gc gs) := by
  unfold Sufficient; exact inferInstance

theorem Dir.mem_keys_of_queue {d : Dir α} {s : Nat} (h : d.queueOf s ≠ []) : s ∈ d.streams.keys := by
  unfold Dir.queueOf at h
  cases hg : d.streams.get s with
  | none => simp [hg] at h
  | some st => exact SMap.mem_keys_of_get _ _ _ hg

/-- **drain**: the direction moved without anything being enqueued, the credit it received covers
    what was queued, and nothing that fits is stranded at the end ⇒ every queue is empty and each
    stream's queue went out whole and in order -/
theorem Moves.drained {o o' : Dir α} {rel : List (QFrame α)} {g : Nat → Int} {iw : Int} {ni : Bool}
    (m : Moves o o' rel g iw ni) {H : Hist α} (hf : Fifo o H) (hst : AllStuck o')
    (hc : Sufficient o (g 0) (fun t => g t + (iw - o.initWin))) :
    (∀ s, o'.queueOf s = []) ∧ ∀ s, onStream s rel = o.queueOf s := by
  have hconn : 0 ≤ o'.connSlack := by
    rw [m.conn]; have := hc.1; simp only [Dir.connSlack]; omega
  have hnil : ∀ s, o'.queueOf s = [] := by
    intro s
    by_cases hq : o.queueOf s = []
    · have := m.released_split hf s
      rw [hq] at this
      exact (List.append_eq_nil_iff.mp this).2
    · apply hst.queue_nil s hconn
      have h1 := m.slack s
      have h2 : fcSum (o.queueOf s) ≤ (o.buf s).win + (g s + (iw - o.initWin)) :=
        hc.2 s (Dir.mem_keys_of_queue hq) hq
      rw [m.init] at h1
      simp only [Dir.slack, Dir.buf_queue] at h1 ⊢
      omega
  refine ⟨hnil, ?_⟩
  intro s
  have := m.released_split hf s
  rw [hnil s, List.append_nil] at this
  exact this

/-- **no credit, no delivery** (stream): with no change of the initial window involved, a stream
    that had something queued and got less stream credit than its queue needs still has something
    queued -/
theorem Moves.starved {o o' : Dir α} {rel : List (QFrame α)} {g : Nat → Int} {iw : Int}
    (m : Moves o o' rel g iw true) (hi : iw = o.initWin) (s : Nat) (hq : o.queueOf s ≠ [])
    (hlt : (o.buf s).win + g s < fcSum (o.queueOf s)) : o'.queueOf s ≠ [] := by
  intro hnil
  have hr : Room o' s := m.room rfl s (Or.inl hq)
  have h1 := m.slack s
  rw [m.init, hi] at h1
  simp only [Dir.slack, Dir.buf_queue] at h1
  rw [hnil] at h1
  simp only [fcSum] at h1
  rcases hr with hr | hr
  · exact hr hnil
  · omega

/-- **no credit, no delivery** (connection) -/
theorem Moves.conn_starved {o o' : Dir α} {rel : List (QFrame α)} {g : Nat → Int} {iw : Int} {ni : Bool}
    (m : Moves o o' rel g iw ni) (hnn : 0 ≤ o'.connWin) (hlt : o.connWin + g 0 < queuedTotal o.streams) :
    0 < queuedTotal o'.streams := by
  have := m.conn
  simp only [Dir.connSlack] at this
  omega

/-! ### WINDOW_UPDATE lists -/

/-- a WINDOW_UPDATE frame of the receiver of direction `side`, increment in 1 … 2³¹−1 (what the
    Framer delivers: it rejects a zero increment and the 32nd bit is reserved) -/
def isGrant (side : Side) (e : Ev α) : Bool :=
  match e.op with
  | .windowUpdate _ n => e.side == side.other && decide (1 ≤ n) && decide (n ≤ 2147483647)
  | _ => false

def grantsOnly (side : Side) : List (Ev α) → Bool
  | [] => true
  | e :: es => isGrant side e && grantsOnly side es

/-- total of the increments on stream `t` (0 = the connection) sent to direction `side` -/
def grantOn (side : Side) (t : Nat) : List (Ev α) → Int
  | [] => 0
  | e :: es => (if e.side = side then 0 else wuInc e.op t) + grantOn side t es

theorem isGrant_spec {side : Side} {e : Ev α} (h : isGrant side e = true) :
    ∃ s n, e.op = .windowUpdate s n ∧ e.side = side.other ∧ 1 ≤ n ∧ n ≤ 2147483647 := by
  obtain ⟨sd, ord, op⟩ := e
  cases op with
  | windowUpdate s n =>
    simp only [isGrant, Bool.and_eq_true, beq_iff_eq, decide_eq_true_eq] at h
    exact ⟨s, n, rfl, h.1.1, h.1.2, h.2⟩
  | _ => simp [isGrant] at h

theorem wuInc_nonneg (op : Op α) (t : Nat) : 0 ≤ wuInc op t := by
  cases op with
  | windowUpdate s n => simp only [wuInc]; split <;> omega
  | _ => simp [wuInc]

/-- what the reader loop processes never grants more than what was sent -/
theorem grantSum_readOps_le (side : Side) (t : Nat) (sfx : List (Ev α)) (dead : Bool) (ec : Option Nat) :
    grantSum t (readOps side dead ec sfx) ≤ grantOn side t sfx := by
  induction sfx generalizing dead ec with
  | nil => simp [readOps, grantSum, grantOn]
  | cons e es ih =>
    simp only [readOps, grantOn]
    split
    · have := ih dead ec; omega
    · split
      · simp only [grantSum]
        have := ih (isUnknown e.op) (nextExpect ({ expectCont := ec } : Dir α) e.op); omega
      · have := ih true ec
        have := wuInc_nonneg e.op t; omega

theorem grantsOnly_quiet (side : Side) (ups : List (Ev α)) (h : grantsOnly side ups = true) :
    quietFor side ups = true := by
  induction ups with
  | nil => rfl
  | cons e es ih =>
    simp only [grantsOnly, Bool.and_eq_true] at h
    obtain ⟨s, n, hop, hsd, _, _⟩ := isGrant_spec h.1
    simp only [quietFor, hsd, Side.other_ne, if_false, Bool.true_and]
    exact ih h.2

theorem grantsOnly_noInit (side : Side) (ups : List (Ev α)) (h : grantsOnly side ups = true) (dead : Bool)
    (ec : Option Nat) (iw : Int) :
    noInitOps (readOps side dead ec ups) = true ∧ initAfterOps iw (readOps side dead ec ups) = iw := by
  induction ups generalizing dead ec with
  | nil => exact ⟨rfl, rfl⟩
  | cons e es ih =>
    simp only [grantsOnly, Bool.and_eq_true] at h
    obtain ⟨s, n, hop, hsd, _, _⟩ := isGrant_spec h.1
    simp only [readOps, hsd, Side.other_ne, if_false]
    split
    · simp only [noInitOps, initAfterOps, hop, noInitOp, opInit, Bool.true_and]
      exact ih h.2 _ _
    · exact ih h.2 _ _

/-- a running reader loop with no header block open reads every WINDOW_UPDATE of the list -/
theorem grantsOnly_read (side : Side) (t : Nat) (ups : List (Ev α)) (h : grantsOnly side ups = true) :
    grantSum t (readOps side false none ups) = grantOn side t ups := by
  induction ups with
  | nil => rfl
  | cons e es ih =>
    simp only [grantsOnly, Bool.and_eq_true] at h
    obtain ⟨s, n, hop, hsd, _, _⟩ := isGrant_spec h.1
    have hok : orderOk ({ expectCont := none } : Dir α) e.op = true := by rw [hop]; rfl
    have hnx : nextExpect ({ expectCont := none } : Dir α) e.op = none := by rw [hop]; rfl
    have hun : isUnknown e.op = false := by rw [hop]; rfl
    simp only [readOps, grantOn, hsd, Side.other_ne, if_false, hok, and_self, if_true, grantSum, hnx, hun]
    rw [ih h.2]

/-! ### schedules -/

def Ghost.hist (g : Ghost α) : Side → Hist α
  | .client => g.Hcs
  | .server => g.Hsc

def Ghost.ledger (g : Ghost α) : Side → Ledger
  | .client => g.Lcs
  | .server => g.Lsc

theorem RInv.dir {r : Relay α} {g : Ghost α} (h : RInv r g) (side : Side) :
    Inv (r.dir side) (g.ledger side) (g.hist side) := by
  cases side
  · exact h.cs
  · exact h.sc

theorem Relay.runG_append (r : Relay α) (g : Ghost α) (a b : List (Ev α)) :
    r.runG g (a ++ b) = (r.runG g a).1.runG (r.runG g a).2 b := by
  induction a generalizing r g with
  | nil => rfl
  | cons e es ih => simp only [List.cons_append, Relay.runG]; exact ih _ _

/-- the reader loop of the relay is running and the Framer is not inside a header block -/
def Dir.readerReady (d : Dir α) : Prop := d.dead = false ∧ d.expectCont = none

instance (d : Dir α) : Decidable d.readerReady := by unfold Dir.readerReady; exact inferInstance

/-- the frames the receiver's reader loop processes out of `sfx`, from the relay state `r` -/
def Relay.readOps (r : Relay α) (side : Side) (sfx : List (Ev α)) : List (Op α) :=
  H2.readOps side (r.dir side.other).dead (r.dir side.other).expectCont sfx

/-- the credit a suffix gives to direction `side` from the relay state `r`: increments of the
    WINDOW_UPDATE frames read, and for streams the net change of SETTINGS_INITIAL_WINDOW_SIZE -/
def Relay.connCredit (r : Relay α) (side : Side) (sfx : List (Ev α)) : Int := grantSum 0 (r.readOps side sfx)

def Relay.streamCredit (r : Relay α) (side : Side) (sfx : List (Ev α)) (s : Nat) : Int :=
  grantSum s (r.readOps side sfx) + (initAfterOps (r.dir side).initWin (r.readOps side sfx) - (r.dir side).initWin)

theorem drain_of_quiet {r : Relay α} {g : Ghost α} (h : RInv r g) (side : Side) (sfx : List (Ev α))
    (hq : quietFor side sfx = true)
    (hc : Sufficient (r.dir side) (r.connCredit side sfx) (r.streamCredit side sfx)) :
    (∀ s, ((r.run sfx).1.dir side).queueOf s = []) ∧
    ∀ s, onStream s (releasedOn side (r.run sfx).2) = (r.dir side).queueOf s := by
  have m := quiet_run side sfx r _ _ hq rfl rfl
  have hend := (h.run sfx).dir side
  rw [Relay.runG_fst] at hend
  exact m.drained (h.dir side).fifo hend.stuck hc

theorem starved_of_updates {r : Relay α} (side : Side) (ups : List (Ev α)) (hu : grantsOnly side ups = true)
    (s : Nat) (hq : (r.dir side).queueOf s ≠ [])
    (hlt : ((r.dir side).buf s).win + grantOn side s ups < fcSum ((r.dir side).queueOf s)) :
    ((r.run ups).1.dir side).queueOf s ≠ [] := by
  have m := quiet_run side ups r _ _ (grantsOnly_quiet side ups hu) rfl rfl
  have hn := grantsOnly_noInit side ups hu (r.dir side.other).dead (r.dir side.other).expectCont (r.dir side).initWin
  rw [hn.1, hn.2] at m
  refine m.starved rfl s hq ?_
  have := grantSum_readOps_le side s ups (r.dir side.other).dead (r.dir side.other).expectCont
  omega

theorem conn_starved_of_quiet {r : Relay α} {g : Ghost α} (h : RInv r g) (side : Side) (sfx : List (Ev α))
    (hq : quietFor side sfx = true)
    (hlt : (r.dir side).connWin + grantOn side 0 sfx < queuedTotal (r.dir side).streams) :
    0 < queuedTotal ((r.run sfx).1.dir side).streams := by
  have m := quiet_run side sfx r _ _ hq rfl rfl
  have hend := (h.run sfx).dir side
  rw [Relay.runG_fst] at hend
  refine m.conn_starved hend.book.connNonneg ?_
  have := grantSum_readOps_le side 0 sfx (r.dir side.other).dead (r.dir side.other).expectCont
  omega

theorem Sufficient.congr {d : Dir α} {gc gc' : Int} {gs gs' : Nat → Int} (h : Sufficient d gc gs)
    (hc : gc = gc') (hs : ∀ s, gs s = gs' s) : Sufficient d gc' gs' := by
  have : gs = gs' := funext hs
  subst hc; subst this
  exact h

/-- with the reader loop running and no header block open, a list of WINDOW_UPDATE frames gives
    exactly the sums of its increments -/
theorem credit_of_updates (r : Relay α) (side : Side) (ups : List (Ev α)) (hr : (r.dir side.other).readerReady)
    (hu : grantsOnly side ups = true) :
    r.connCredit side ups = grantOn side 0 ups ∧ ∀ s, r.streamCredit side ups s = grantOn side s ups := by
  have hn := grantsOnly_noInit side ups hu false none (r.dir side).initWin
  constructor
  · simp only [Relay.connCredit, Relay.readOps, hr.1, hr.2]
    exact grantsOnly_read side 0 ups hu
  · intro s
    simp only [Relay.streamCredit, Relay.readOps, hr.1, hr.2, hn.2, grantsOnly_read side s ups hu]
    omega

/-! ### interleaved suffixes read in full -/

theorem lastInit_noInit (iw : Int) (kvs : List (Nat × Nat)) (h : initCount kvs = 0) : lastInit iw kvs = iw := by
  induction kvs generalizing iw with
  | nil => rfl
  | cons kv rest ih =>
    obtain ⟨id, v⟩ := kv
    simp only [initCount] at h
    have hid : ¬ id = settingInitialWindowSize := by
      intro hx; simp [hx] at h
    have hrest : initCount rest = 0 := by simp [hid] at h; exact h
    simp only [lastInit, hid, if_false]
    exact ih iw hrest

theorem opInit_noInit (iw : Int) (op : Op α) (h : noInitOp op = true) : opInit iw op = iw := by
  cases op with
  | settings kvs => exact lastInit_noInit iw kvs (by simpa [noInitOp] using h)
  | _ => rfl

/-- `fairFrom side ec sfx` (decidable): a continuation that enqueues nothing on the direction of
    sender `side` and whose receiver frames are all read and carry no
    SETTINGS_INITIAL_WINDOW_SIZE:
    frames of `side`      WINDOW_UPDATE, SETTINGS, SETTINGS ack, PING, GOAWAY, unknown types only;
    frames of the receiver  anything, provided they pass the Framer's order check (`ec` = the header
                          block open at the start: CONTINUATION exactly while a HEADERS block is
                          open), are of a known type (F39), and SETTINGS frames do not set
                          SETTINGS_INITIAL_WINDOW_SIZE -/
def fairFrom (side : Side) : Option Nat → List (Ev α) → Bool
  | _, [] => true
  | ec, e :: es =>
    if e.side = side then senderQuiet e.op && fairFrom side ec es
    else orderOk ({ expectCont := ec } : Dir α) e.op && !isUnknown e.op && noInitOp e.op &&
      fairFrom side (nextExpect ({ expectCont := ec } : Dir α) e.op) es

theorem fairFrom_spec (side : Side) (sfx : List (Ev α)) (ec : Option Nat) (h : fairFrom side ec sfx = true) :
    quietFor side sfx = true ∧ (∀ t, grantSum t (readOps side false ec sfx) = grantOn side t sfx) ∧
    ∀ iw, initAfterOps iw (readOps side false ec sfx) = iw := by
  induction sfx generalizing ec with
  | nil => exact ⟨rfl, fun _ => rfl, fun _ => rfl⟩
  | cons e es ih =>
    simp only [fairFrom] at h
    by_cases hs : e.side = side
    · simp only [hs, if_true, Bool.and_eq_true] at h
      have := ih ec h.2
      refine ⟨?_, ?_, ?_⟩
      · simp only [quietFor, hs, if_true, h.1, this.1, Bool.and_self]
      · intro t; simp only [readOps, grantOn, hs, if_true, this.2.1 t]; omega
      · intro iw; simp only [readOps, hs, if_true, this.2.2 iw]
    · simp only [hs, if_false, Bool.and_eq_true, Bool.not_eq_true'] at h
      obtain ⟨⟨⟨hok, hun⟩, hni⟩, hrest⟩ := h
      have := ih _ hrest
      refine ⟨?_, ?_, ?_⟩
      · simp only [quietFor, hs, if_false, Bool.true_and, this.1]
      · intro t
        simp only [readOps, grantOn, hs, if_false, hok, and_self, if_true, grantSum, hun, this.2.1 t]
      · intro iw
        simp only [readOps, hs, if_false, hok, and_self, if_true, initAfterOps, hun, opInit_noInit iw e.op hni,
          this.2.2 iw]

/-- with the reader loop ready, such a continuation gives exactly the sums of its increments -/
theorem credit_of_fair (r : Relay α) (side : Side) (sfx : List (Ev α)) (hr : (r.dir side.other).readerReady)
    (hf : fairFrom side none sfx = true) :
    r.connCredit side sfx = grantOn side 0 sfx ∧ ∀ s, r.streamCredit side sfx s = grantOn side s sfx := by
  have h := fairFrom_spec side sfx none hf
  constructor
  · simp only [Relay.connCredit, Relay.readOps, hr.1, hr.2]
    exact h.2.1 0
  · intro s
    simp only [Relay.streamCredit, Relay.readOps, hr.1, hr.2, h.2.1 s, h.2.2]
    omega

theorem Relay.run_append_fst (r : Relay α) (a b : List (Ev α)) : (r.run (a ++ b)).1 = ((r.run a).1.run b).1 := by
  induction a generalizing r with
  | nil => rfl
  | cons e es ih => simp only [List.cons_append, Relay.run]; exact ih _

/-! ### a frame that fits goes straight through (used to evaluate examples with a full window) -/

theorem SMap.set_set (m : SMap α) (s : Nat) (a b : Stream α) : (m.set s a).set s b = m.set s b := by
  induction m with
  | nil => simp [SMap.set]
  | cons e m ih =>
    obtain ⟨k, w⟩ := e
    simp only [SMap.set]
    by_cases h : k = s
    · simp [h, SMap.set]
    · simp [h, SMap.set, ih]

theorem splitData_fits (m : Nat) (d : List α) (h : d.length ≤ m) : splitData m d = [d] := by
  unfold splitData
  cases hl : d.length with
  | zero => rfl
  | succ n => simp only [splitDataAux]; rw [if_pos h]

/-- DATA on a stream without buffer that fits the frame size limit and both windows is released at
    once, whole -/
theorem Dir.data_fits (d : Dir α) (sid : Nat) (payload : List α) (es : Bool)
    (hnew : d.streams.get sid = none) (hm : payload.length ≤ d.maxFrame)
    (hc : (payload.length : Int) ≤ d.connWin) (hw : (payload.length : Int) ≤ d.initWin) :
    d.data sid payload es =
      ({ d with connWin := d.connWin - payload.length,
                streams := d.streams.set sid { win := d.initWin - payload.length, queue := [] } },
       [.data sid es payload]) := by
  have hfc : (QFrame.data sid es payload).fc = payload.length := rfl
  have hsid : (QFrame.data sid es payload).sid = sid := rfl
  have hgate : ¬ (((payload.length : Nat) : Int) > d.connWin ∨ ((payload.length : Nat) : Int) > d.initWin) := by omega
  simp only [Dir.data, splitData_fits _ _ hm, dataQ, Dir.enqEmitAll, Dir.enqEmit, hsid, Dir.buf_none hnew,
    List.nil_append, Dir.emitOn, SMap.get_set, if_true, emitQ, hfc, hgate, if_false, SMap.set_set,
    List.append_nil]

/-- the client's relay reading such a DATA frame -/
theorem Relay.step_data_fits (r : Relay α) (ord : Nat → List Nat) (sid : Nat) (payload : List α) (pad : Option Nat)
    (es : Bool) (hd : r.cs.dead = false) (he : r.cs.expectCont = none)
    (hnew : r.cs.streams.get sid = none) (hm : payload.length ≤ r.cs.maxFrame)
    (hc : (payload.length : Int) ≤ r.cs.connWin) (hw : (payload.length : Int) ≤ r.cs.initWin) :
    (r.step .client ord (.data sid payload pad es)).1 =
      { cs := { r.cs with connWin := r.cs.connWin - payload.length,
                          streams := r.cs.streams.set sid { win := r.cs.initWin - payload.length, queue := [] },
                          expectCont := none, dead := false },
        sc := r.sc } := by
  have hok : orderOk r.cs (.data sid payload pad es) = true := by simp [orderOk, he]
  have hd' : ¬ r.cs.dead = true := by simp [hd]
  simp only [Relay.step, H2.step]
  rw [if_neg hd', if_pos hok]
  simp only [H2.process, Dir.data_fits r.cs sid payload es hnew hm hc hw, nextExpect, he]

theorem Relay.runG_append_fst (r : Relay α) (g : Ghost α) (a b : List (Ev α)) :
    (r.runG g (a ++ b)).1 = ((r.runG g a).1.run b).1 := by
  rw [Relay.runG_append, Relay.runG_fst]

/-! ### the example of `c10_drain_connection` (Theorems/C10.lean) -/

namespace DrainExample

/-- the connection window is closed by a 65 535-octet body on stream 5 (released at once: the
    server had raised SETTINGS_MAX_FRAME_SIZE), the server lowers its initial window to 25; bodies
    of 30 and 20 octets on streams 1 and 3 are queued behind the closed connection window (stream 1
    also lacks 5 octets of stream credit) -/
def queued : List (Ev Unit) :=
  [⟨.server, fun _ => [], .settings [(5, 65535)]⟩,
   ⟨.client, fun _ => [], .data 5 (List.replicate 65535 ()) none true⟩,
   ⟨.server, fun _ => [], .settings [(4, 25)]⟩,
   ⟨.client, fun _ => [], .data 1 (List.replicate 30 ()) none true⟩,
   ⟨.client, fun _ => [], .data 3 (List.replicate 20 ()) none true⟩]

/-- the server grants 50 on the connection in three increments and 5 on stream 1 in two,
    interleaved; the second connection increment lets stream 3 overtake stream 1 -/
def updates : List (Ev Unit) :=
  [⟨.server, fun _ => [3, 1], .windowUpdate 0 15⟩,
   ⟨.server, fun _ => [], .windowUpdate 1 2⟩,
   ⟨.server, fun _ => [1, 3], .windowUpdate 0 10⟩,
   ⟨.server, fun _ => [], .windowUpdate 1 3⟩,
   ⟨.server, fun _ => [], .windowUpdate 0 25⟩]

/-- the state after the first two frames of `queued`, computed without walking through the
    65 535 octets (`Relay.step_data_fits`) -/
theorem bulk :
    (Relay.run {} (queued.take 2)).1 =
      ({ cs := { maxFrame := 65535, connWin := 0, streams := [(5, { win := 0, queue := [] })] }, sc := {} } : Relay Unit) := by
  have h1 : (Relay.step ({} : Relay Unit) .server (fun _ => []) (.settings [(5, 65535)])).1 =
      { cs := { maxFrame := 65535 }, sc := {} } := rfl
  simp only [queued, List.take, Relay.run, h1]
  rw [Relay.step_data_fits _ _ _ _ _ _ rfl rfl rfl (by rw [List.length_replicate]; decide)
    (by rw [List.length_replicate]; decide) (by rw [List.length_replicate]; decide)]
  simp only [List.length_replicate]
  rfl

/-- the state after `queued`: connection window 0, 30 and 20 octets queued on streams 1 and 3 -/
def state : Relay Unit :=
  { cs := { maxFrame := 65535, connWin := 0, initWin := 25,
            streams := [(5, { win := -65510, queue := [] }),
                        (1, { win := 25, queue := [.data 1 true (List.replicate 30 ())] }),
                        (3, { win := 25, queue := [.data 3 true (List.replicate 20 ())] })] },
    sc := {} }

theorem state_eq : (Relay.runG {} {} queued).1 = state := by
  have : queued = queued.take 2 ++ queued.drop 2 := rfl
  rw [Relay.runG_fst, this, Relay.run_append_fst, bulk]
  rfl

end DrainExample

end H2
end FwdVerif
