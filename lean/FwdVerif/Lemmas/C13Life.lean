/-
  C13 — helper lemmas for the life-cycle of accepted connections (Model/C13Life.lean): the invariant of one
  connection, the invariant of the listener over all interleavings, and what holds once handleLoop returned.
-/
import FwdVerif.Model.C13Life
import FwdVerif.Lemmas.C13Dial

namespace FwdVerif
namespace C13

/-- one connection, any layout: the hook has run at most once, and as long as handleLoop has not returned
    nothing has been closed or counted -/
structure AInv (c : AConn) : Prop where
  le : c.hook ≤ 1
  live : c.phase ≠ .closed → c.hook = 0 ∧ c.socketOpen = true

/-- the code's layout: a connection whose handleLoop has returned is closed and counted -/
structure AInvCode (c : AConn) : Prop extends AInv c where
  gone : c.phase = .closed → c.hook = 1 ∧ c.socketOpen = false

theorem ainv_new : AInv AConn.new := ⟨by decide, fun _ => ⟨rfl, rfl⟩⟩

theorem ainvCode_new : AInvCode AConn.new := ⟨ainv_new, fun h => by cases h⟩

theorem next_ne_closed (k : LStack) (ph : Phase) (h : ph ≠ .closed) : ph.next k ≠ .closed := by
  cases ph <;> simp [Phase.next] at h ⊢ <;> split <;> try split
  all_goals simp

theorem ainv_step (lay : Layout) (k : LStack) (c : AConn) (e : AEv) (h : AInv c) : AInv (c.step lay k e) := by
  cases e with
  | ok =>
    simp only [AConn.step]
    split
    · exact h
    · rename_i hp
      exact ⟨h.le, fun _ => h.live hp⟩
  | fail cause =>
    simp only [AConn.step]
    split
    · exact h
    · rename_i hp
      refine ⟨?_, fun hc => absurd rfl hc⟩
      have := h.le
      show (if c.hook = 0 ∧ 0 < closeCalls lay k c.phase cause then 1 else c.hook) ≤ 1
      split <;> omega

theorem closeCalls_code_pos (k : LStack) (ph : Phase) (cause : EndCause) : 0 < closeCalls .code k ph cause := by
  simp [closeCalls, Layout.code]

theorem socketClosedBy_code (k : LStack) (ph : Phase) (cause : EndCause) : socketClosedBy .code k ph cause = true := by
  simp [socketClosedBy, Layout.code]

theorem ainvCode_step (k : LStack) (c : AConn) (e : AEv) (h : AInvCode c) : AInvCode (c.step .code k e) := by
  refine ⟨ainv_step _ k c e h.toAInv, ?_⟩
  cases e with
  | ok =>
    simp only [AConn.step]
    split
    · exact h.gone
    · rename_i hp
      intro hc
      exact absurd hc (next_ne_closed k c.phase hp)
  | fail cause =>
    simp only [AConn.step]
    split
    · exact h.gone
    · rename_i hp
      intro _
      have h0 := (h.live hp).1
      simp [h0, closeCalls_code_pos, socketClosedBy_code]

theorem ainv_run (lay : Layout) (k : LStack) (c : AConn) (evs : List AEv) (h : AInv c) : AInv (c.run lay k evs) := by
  induction evs generalizing c with
  | nil => exact h
  | cons e rest ih => exact ih _ (ainv_step lay k c e h)

theorem ainvCode_run (k : LStack) (c : AConn) (evs : List AEv) (h : AInvCode c) : AInvCode (c.run .code k evs) := by
  induction evs generalizing c with
  | nil => exact h
  | cons e rest ih => exact ih _ (ainvCode_step k c e h)

/-! ## the listener -/

structure ALInv (P : AConn → Prop) (s : ALSt) : Prop where
  act : s.active = (s.accepted : Int) - (s.closedCount : Int)
  len : s.conns.length = s.accepted
  each : ∀ c ∈ s.conns, P c

theorem alinv_init (P : AConn → Prop) : ALInv P ALSt.init :=
  ⟨by simp [ALSt.init, ALSt.closedCount], rfl, fun c hc => by simp [ALSt.init] at hc⟩

theorem hook_sum_set (l : List AConn) (i : Nat) (c c' : AConn) (h : l[i]? = some c) :
    ((l.set i c').map fun x => x.hook).sum + c.hook = (l.map fun x => x.hook).sum + c'.hook := by
  induction l generalizing i with
  | nil => simp at h
  | cons x xs ih =>
    cases i with
    | zero =>
      simp at h
      subst h
      simp only [List.set, List.map_cons, List.sum_cons]
      omega
    | succ j =>
      simp at h
      have := ih j h
      simp only [List.set, List.map_cons, List.sum_cons]
      omega

theorem mem_set_cases (l : List AConn) (i : Nat) (c' x : AConn) (h : x ∈ l.set i c') : x = c' ∨ x ∈ l := by
  induction l generalizing i with
  | nil => simp at h
  | cons y ys ih =>
    cases i with
    | zero =>
      simp [List.set] at h
      rcases h with h | h
      · exact Or.inl h
      · exact Or.inr (List.mem_cons_of_mem _ h)
    | succ j =>
      simp [List.set] at h
      rcases h with h | h
      · exact Or.inr (by simp [h])
      · rcases ih j h with h | h
        · exact Or.inl h
        · exact Or.inr (List.mem_cons_of_mem _ h)

theorem alinv_step (P : AConn → Prop) (lay : Layout) (k : LStack) (hnew : P AConn.new)
    (hstep : ∀ c e, P c → P (c.step lay k e)) (s : ALSt) (op : ALOp) (h : ALInv P s) :
    ALInv P (s.step lay k op) := by
  cases op with
  | accept =>
    refine ⟨?_, ?_, ?_⟩
    · have := h.act
      simp only [ALSt.step, ALSt.closedCount] at *
      simp [AConn.new]
      omega
    · simp [ALSt.step, h.len]
    · intro c hc
      simp only [ALSt.step, List.mem_append, List.mem_singleton] at hc
      rcases hc with hc | hc
      · exact h.each c hc
      · rw [hc]; exact hnew
  | acceptError => exact ⟨h.act, h.len, h.each⟩
  | conn i e =>
    simp only [ALSt.step]
    cases hi : s.conns[i]? with
    | none => exact h
    | some c =>
      have hmem : c ∈ s.conns := List.mem_of_getElem? hi
      refine ⟨?_, ?_, ?_⟩
      · have := h.act
        have hs := hook_sum_set s.conns i c (c.step lay k e) hi
        simp only [ALSt.closedCount] at *
        omega
      · simp [h.len]
      · intro x hx
        rcases mem_set_cases _ _ _ _ hx with hx | hx
        · rw [hx]; exact hstep c e (h.each c hmem)
        · exact h.each x hx

theorem alinv_run (P : AConn → Prop) (lay : Layout) (k : LStack) (hnew : P AConn.new)
    (hstep : ∀ c e, P c → P (c.step lay k e)) (s : ALSt) (ops : List ALOp) (h : ALInv P s) :
    ALInv P (s.run lay k ops) := by
  induction ops generalizing s with
  | nil => exact h
  | cons op rest ih => exact ih _ (alinv_step P lay k hnew hstep s op h)

theorem hook_sum_le_length (l : List AConn) (h : ∀ c ∈ l, c.hook ≤ 1) : (l.map fun c => c.hook).sum ≤ l.length := by
  induction l with
  | nil => simp
  | cons x xs ih =>
    have := h x (by simp)
    have := ih (fun c hc => h c (List.mem_cons_of_mem _ hc))
    simp
    omega

theorem hook_sum_eq_length (l : List AConn) (h : ∀ c ∈ l, c.hook = 1) : (l.map fun c => c.hook).sum = l.length := by
  induction l with
  | nil => simp
  | cons x xs ih =>
    have := h x (by simp)
    have := ih (fun c hc => h c (List.mem_cons_of_mem _ hc))
    simp
    omega

theorem filter_length_zero (l : List AConn) (p : AConn → Bool) (h : ∀ c ∈ l, p c = false) : (l.filter p).length = 0 := by
  induction l with
  | nil => simp
  | cons x xs ih =>
    have hx := h x (by simp)
    have := ih (fun c hc => h c (List.mem_cons_of_mem _ hc))
    simp [List.filter, hx, this]

/-! ## a connection dropped without `Close` -/

/-- some connection's handleLoop has returned without the hook having run -/
def HasDropped (s : ALSt) : Prop := ∃ (j : Nat) (c : AConn), s.conns[j]? = some c ∧ c.phase = .closed ∧ c.hook = 0

theorem closed_step_fix (lay : Layout) (k : LStack) (c : AConn) (e : AEv) (h : c.phase = .closed) :
    c.step lay k e = c := by
  cases e <;> simp [AConn.step, h]

theorem dropped_step (lay : Layout) (k : LStack) (s : ALSt) (op : ALOp) (h : HasDropped s) :
    HasDropped (s.step lay k op) := by
  obtain ⟨j, c, hj, hp, h0⟩ := h
  cases op with
  | accept =>
    refine ⟨j, c, ?_, hp, h0⟩
    have hlt : j < s.conns.length := by
      rcases Nat.lt_or_ge j s.conns.length with h | h
      · exact h
      · rw [List.getElem?_eq_none h] at hj; cases hj
    simp only [ALSt.step]
    rw [List.getElem?_append_left hlt]; exact hj
  | acceptError => exact ⟨j, c, hj, hp, h0⟩
  | conn i e =>
    simp only [ALSt.step]
    cases hi : s.conns[i]? with
    | none => exact ⟨j, c, hj, hp, h0⟩
    | some c0 =>
      refine ⟨j, c, ?_, hp, h0⟩
      simp only [List.getElem?_set]
      by_cases hij : i = j
      · subst hij
        rw [hi] at hj
        cases hj
        have hlt : i < s.conns.length := by
          rcases Nat.lt_or_ge i s.conns.length with h | h
          · exact h
          · rw [List.getElem?_eq_none h] at hi; cases hi
        simp [hlt, closed_step_fix lay k c e hp]
      · simp [hij, hj]

theorem dropped_run (lay : Layout) (k : LStack) (s : ALSt) (ops : List ALOp) (h : HasDropped s) :
    HasDropped (s.run lay k ops) := by
  induction ops generalizing s with
  | nil => exact h
  | cons op rest ih => exact ih _ (dropped_step lay k s op h)

theorem hook_sum_lt_length (l : List AConn) (h : ∀ c ∈ l, c.hook ≤ 1) (j : Nat) (c : AConn)
    (hj : l[j]? = some c) (h0 : c.hook = 0) : (l.map fun c => c.hook).sum < l.length := by
  induction l generalizing j with
  | nil => simp at hj
  | cons x xs ih =>
    have hx := h x (by simp)
    have hle := hook_sum_le_length xs (fun c hc => h c (List.mem_cons_of_mem _ hc))
    cases j with
    | zero =>
      simp at hj
      subst hj
      simp only [List.map_cons, List.sum_cons, List.length_cons]
      omega
    | succ j' =>
      simp at hj
      have := ih (fun c hc => h c (List.mem_cons_of_mem _ hc)) j' hj
      simp only [List.map_cons, List.sum_cons, List.length_cons]
      omega

theorem active_pos_of_dropped (s : ALSt) (hi : ALInv AInv s) (hd : HasDropped s) : 1 ≤ s.active := by
  obtain ⟨j, c, hj, _, h0⟩ := hd
  have hlt := hook_sum_lt_length s.conns (fun c hc => (hi.each c hc).le) j c hj h0
  have := hi.act; have := hi.len
  simp only [ALSt.closedCount] at *
  omega

theorem alrun_append (lay : Layout) (k : LStack) (s : ALSt) (a b : List ALOp) :
    s.run lay k (a ++ b) = (s.run lay k a).run lay k b := by
  simp [ALSt.run, List.foldl_append]

end C13
end FwdVerif
