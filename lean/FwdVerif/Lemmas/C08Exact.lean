/-
  C08 helper lemmas, part 5: panic-freedom of the parts, closed form of the v2 reader, and what the
  buffer-free reader does on constructed well-formed headers.
-/
import FwdVerif.Lemmas.C08Parse

namespace FwdVerif
namespace C08

theorem v1Fields_ne_panic : ∀ (fs : List Bytes) (pos : Nat) (a : V1Acc), v1Fields fs pos a ≠ .panic := by
  intro fs
  induction fs with
  | nil => intro pos a; simp [v1Fields]
  | cons f fs ih =>
    intro pos a
    unfold v1Fields
    split
    · split
      · simp
      · exact ih _ _
    · split
      · simp
      · exact ih _ _
    · split
      · simp
      · exact ih _ _
    · split
      · simp
      · exact ih _ _
    · exact ih _ _

theorem parseV1Header_ne_panic {b : Bytes} (h : 11 ≤ b.length) : parseV1Header b ≠ .panic := by
  unfold parseV1Header
  have : slFrom b 11 = .ok (b.drop 11) := by simp [slFrom, h]
  rw [this]
  simp only [bind_ok]
  apply bind_ne_panic (v1Fields_ne_panic _ _ _)
  intro a _
  split <;> simp

theorem parseKeep_ne_panic {b rest : Bytes} (h : 11 ≤ b.length) : parseKeep b rest ≠ .panic := by
  unfold parseKeep
  have := parseV1Header_ne_panic h
  cases hp : parseV1Header b <;> simp_all

theorem lineS_ne_panic (bs : Bytes) (fuel idx : Nat) (h : 12 ≤ idx) : lineS bs fuel idx ≠ .panic := by
  unfold lineS
  cases hu : untilS bs fuel idx with
  | ok p =>
    obtain ⟨b, rest⟩ := p
    obtain ⟨m, h1, _, h3, _, hb, _⟩ := untilS_ok hu
    apply parseKeep_ne_panic
    rw [hb]; simp [List.length_take]; omega
  | err e => simp
  | panic => exact absurd hu (untilS_ne_panic _ _ _)

theorem readV1S_ne_panic (bs : Bytes) : readV1S bs ≠ .panic := by
  unfold readV1S
  split
  · cases hu : untilS bs 94 13 with
    | ok p => obtain ⟨b, rest⟩ := p; simp
    | err e => simp
    | panic => exact absurd hu (untilS_ne_panic _ _ _)
  · split
    · split
      · split
        · apply parseKeep_ne_panic; simp [List.length_take]; omega
        · exact lineS_ne_panic _ _ _ (by omega)
      · simp
    · split
      · split
        · split
          · apply parseKeep_ne_panic; simp [List.length_take]; omega
          · exact lineS_ne_panic _ _ _ (by omega)
        · simp
      · simp

theorem sl_ok {b : Bytes} {lo hi : Nat} (h1 : lo ≤ hi) (h2 : hi ≤ b.length) : sl b lo hi = .ok ((b.take hi).drop lo) := by
  simp [sl, h1, h2]

theorem be16_sl {tr : Bytes} {lo : Nat} (h : lo + 2 ≤ tr.length) :
    (sl tr lo (lo + 2) >>= be16) = .ok ((tr.getD lo 0).toNat * 256 + (tr.getD (lo + 1) 0).toNat) := by
  rw [sl_ok (by omega) h]
  simp only [bind_ok]
  have e : (tr.take (lo + 2)).drop lo = [tr.getD lo 0, tr.getD (lo + 1) 0] := by
    apply List.ext_getElem
    · simp [List.length_take]; omega
    · intro i h1 h2
      have : i < 2 := by simpa using h2
      simp only [List.getElem_drop, List.getElem_take]
      match i, this with
      | 0, _ => simp [List.getD, List.getElem?_eq_getElem (show lo < tr.length by omega)]
      | 1, _ => simp [List.getD, List.getElem?_eq_getElem (show lo + 1 < tr.length by omega)]
  rw [e]; rfl

theorem slFrom_ok {b : Bytes} {lo : Nat} (h : lo ≤ b.length) : slFrom b lo = .ok (b.drop lo) := by
  simp [slFrom, h]

/-- closed form of the v2 reader after the 16 fixed bytes -/
theorem v2Rest_eq (b12 fam : UInt8) (n : Nat) (s : Bytes) :
    v2Rest b12 fam n s =
      if n > 2048 then .err .v2TooLong
      else if n > s.length then .err .v2Short
      else match v2Refusal b12 fam n with
        | some e => .err e
        | none => .ok (v2Hdr b12 fam (s.take n), s.drop n) := by
  unfold v2Rest
  split
  · rfl
  · split
    · rfl
    · rename_i hn1 hn2
      have hlen : (s.take n).length = n := by simp [List.length_take]; omega
      unfold v2Refusal v2Hdr
      dsimp only
      by_cases hc0 : (b12.toNat % 16 == 0) = true
      · have hc1 : ¬ (b12.toNat % 16 == 1) = true := by
          have : b12.toNat % 16 = 0 := by simpa using hc0
          simp [this]
        simp only [hc0, hc1, if_true, if_false, Bool.false_eq_true]
        by_cases hz : (n == 0) = true
        · have : n = 0 := by simpa using hz
          subst this
          simp
        · have hz' : n ≠ 0 := by simpa using hz
          simp [hz', hlen, slFrom]
          intro h; omega
      · simp only [hc0, if_false, Bool.false_eq_true]
        by_cases hc1 : (b12.toNat % 16 == 1) = true
        · simp only [hc1, if_true, Bool.true_and]
          by_cases hz : (n == 0) = true
          · simp [hz]
          · simp only [hz, if_false, Bool.false_eq_true]
            have hz' : n ≠ 0 := by simpa using hz
            by_cases h4 : (fam == 0x11 || fam == 0x12) = true
            · simp only [h4, if_true]
              by_cases h12 : n < 12
              · simp [h12, hlen]
              · have h12' : 12 ≤ n := by omega
                simp only [hlen, h12, if_false]
                rw [sl_ok (by omega) (by omega), sl_ok (by omega) (by omega)]
                simp only [bind_ok]
                rw [be16_sl (tr := s.take n) (lo := 8) (by omega), be16_sl (tr := s.take n) (lo := 10) (by omega)]
                simp only [bind_ok]
                by_cases he : n = 12
                · subst he
                  simp [hlen]
                · simp [hlen, slFrom, h12']
                  omega
            · simp only [h4, if_false, Bool.false_eq_true]
              by_cases h6 : (fam == 0x21 || fam == 0x22) = true
              · simp only [h6, if_true]
                by_cases h36 : n < 36
                · simp [h36, hlen]
                · have h36' : 36 ≤ n := by omega
                  simp only [hlen, h36, if_false]
                  rw [sl_ok (by omega) (by omega), sl_ok (by omega) (by omega)]
                  simp only [bind_ok]
                  rw [be16_sl (tr := s.take n) (lo := 32) (by omega), be16_sl (tr := s.take n) (lo := 34) (by omega)]
                  simp only [bind_ok]
                  by_cases he : n = 36
                  · subst he
                    simp [hlen]
                  · simp [hlen, slFrom, h36']
                    omega
              · simp only [h6, if_false, Bool.false_eq_true]
                by_cases hu : (fam == 0x31 || fam == 0x32) = true
                · simp [hu]
                · simp [hu, hlen, hz', slFrom]
                  intro h; omega
        · simp only [hc1, if_false, Bool.false_eq_true, Bool.false_and]
          by_cases hz : n = 0
          · subst hz; simp
          · simp [hlen, hz, slFrom]
            intro h; omega

theorem Clean.no_space {f : Bytes} (h : Clean f) : ∀ c ∈ f, c ≠ 32 := fun c hc => (h c hc).1
theorem Clean.no_cr {f : Bytes} (h : Clean f) : ∀ c ∈ f, c ≠ 13 := fun c hc => (h c hc).2

theorem splitSp_tail (l : V1Line) (h1 : Clean l.src) (h2 : Clean l.dst) (h3 : Clean l.sport) (h4 : Clean l.dport) :
    splitSp l.tail = [l.src, l.dst, l.sport, l.dport] := by
  unfold V1Line.tail
  rw [splitSp_append h1.no_space, splitSp_append h2.no_space, splitSp_append h3.no_space, splitSp_clean h4.no_space]

theorem tag_length (k : V1Kind) : k.tag.length = 4 := by cases k <;> rfl

theorem body_drop11 (l : V1Line) : l.body.drop 11 = l.tail := by
  unfold V1Line.body
  cases l.kind <;> simp [v1Ident, V1Kind.tag, sTCP4, sTCP6]

theorem body_length (l : V1Line) : l.body.length = 11 + l.tail.length := by
  unfold V1Line.body
  cases l.kind <;> simp [v1Ident, V1Kind.tag, sTCP4, sTCP6] <;> omega

/-- a line whose fields `net.ParseIP`/`strconv.Atoi` accept is never shorter than the optimistic
    read of its kind: 32 bytes for `TCP4` (two dotted quads of ≥ 7 characters), 22 for `TCP6`
    (`::` twice, two one-digit ports) -/
theorem v1_line_min (l : V1Line) {a d : Bytes} {sp dp : Int}
    (h1 : parseIP l.src = some a) (h2 : parseIP l.dst = some d)
    (h3 : atoi l.sport = some sp) (h4 : atoi l.dport = some dp)
    (hv4 : l.kind = .tcp4 → isV4Text l.src = true ∧ isV4Text l.dst = true) :
    (match l.kind with | .tcp4 => 32 | .tcp6 => 22) ≤ l.bytes.length := by
  have := atoi_length h3
  have := atoi_length h4
  have hl : l.bytes.length = 11 + l.tail.length + 2 := by
    simp [V1Line.bytes, body_length, crlf]
  have ht : l.tail.length = l.src.length + 1 + (l.dst.length + 1 + (l.sport.length + 1 + l.dport.length)) := by
    simp [V1Line.tail]; omega
  cases hk : l.kind with
  | tcp4 =>
    obtain ⟨v1, v2⟩ := hv4 hk
    have := parseIP_v4_length v1 h1
    have := parseIP_v4_length v2 h2
    show 32 ≤ l.bytes.length
    omega
  | tcp6 =>
    have := parseIP_length h1
    have := parseIP_length h2
    show 22 ≤ l.bytes.length
    omega

theorem parseV1Header_line (l : V1Line) {a d : Bytes} {sp dp : Int}
    (h1 : parseIP l.src = some a) (h2 : parseIP l.dst = some d)
    (h3 : atoi l.sport = some sp) (h4 : atoi l.dport = some dp) :
    parseV1Header l.body = .ok (v1Hdr a d sp dp) := by
  unfold parseV1Header
  have hs : slFrom l.body 11 = .ok (l.body.drop 11) := by
    have : 11 ≤ l.body.length := by rw [body_length]; omega
    simp [slFrom, this]
  rw [hs]
  simp only [bind_ok]
  rw [body_drop11, splitSp_tail l (parseIP_clean h1) (parseIP_clean h2) (atoi_clean h3) (atoi_clean h4)]
  simp [v1Fields, h1, h2, h3, h4, v1Hdr]

theorem tag_no_cr (k : V1Kind) : ∀ c ∈ k.tag, c ≠ 13 := by cases k <;> decide

theorem body_no_cr (l : V1Line) (h1 : Clean l.src) (h2 : Clean l.dst) (h3 : Clean l.sport) (h4 : Clean l.dport) :
    ∀ c ∈ l.body, c ≠ 13 := by
  intro c hc
  unfold V1Line.body V1Line.tail at hc
  simp only [List.mem_append, List.mem_cons] at hc
  rcases hc with hc | hc | hc | hc | hc | hc | hc | hc | hc | hc
  · exact (by decide : ∀ c ∈ v1Ident, c ≠ 13) c hc
  · exact tag_no_cr l.kind c hc
  · subst hc; decide
  · exact h1.no_cr c hc
  · subst hc; decide
  · exact h2.no_cr c hc
  · subst hc; decide
  · exact h3.no_cr c hc
  · subst hc; decide
  · exact h4.no_cr c hc

/-- line `body ++ CRLF` followed by anything: the first CRLF is the line's own -/
theorem firstCRLFEnd_line {body : Bytes} (h : ∀ c ∈ body, c ≠ 13) (p : Bytes) :
    firstCRLFEnd (body ++ crlf ++ p) = some (body.length + 2) := by
  rw [List.append_assoc, firstCRLFEnd_append_clean h]
  simp [crlf, firstCRLFEnd]
  omega

/-- after an optimistic read of `k` bytes (`k` = 22 or 32): either the line ends exactly there or the
    byte-wise scan finds its end; both hand the line without CRLF to the parser and leave `p`. -/
theorem v1_after_optimistic {bs body p : Bytes} (hbs : bs = body ++ crlf ++ p)
    (hn : firstCRLFEnd bs = some (body.length + 2)) (k : Nat) (hk1 : 3 ≤ k)
    (hk : k ≤ body.length + 2) (h107 : body.length + 2 ≤ 107) :
    (if crlfAt bs (k - 2) = true then parseKeep (bs.take (k - 2)) (bs.drop k) else lineS bs (107 - k) k)
      = parseKeep body p := by
  obtain ⟨_, hat, hbefore⟩ := firstCRLFEnd_some hn
  have htake : bs.take body.length = body := by rw [hbs]; simp
  have hdrop : bs.drop (body.length + 2) = p := by
    rw [hbs]
    have : (body ++ crlf).length = body.length + 2 := by simp [crlf]
    rw [← this, List.drop_left]
  by_cases he : k = body.length + 2
  · have e1 : k - 2 = body.length := by omega
    have e2 : body.length + 2 - 2 = body.length := by omega
    rw [e2] at hat
    rw [e1, hat, if_pos rfl, htake, he, hdrop]
  · have hf : crlfAt bs (k - 2) = false := hbefore _ (by omega)
    rw [hf]
    simp only [Bool.false_eq_true, if_false]
    unfold lineS
    rw [untilS_found bs hn (107 - k) k (by omega) (by omega) (by omega)]
    have e2 : body.length + 2 - 2 = body.length := by omega
    simp only [e2, htake, hdrop]


/-! ### the buffer-free reader on constructed inputs -/

theorem v2Rest_ne_panic (b12 fam : UInt8) (n : Nat) (s : Bytes) : v2Rest b12 fam n s ≠ .panic := by
  rw [v2Rest_eq]
  split
  · simp
  · split
    · simp
    · split <;> simp

theorem readHeaderS_ne_panic (bs : Bytes) : readHeaderS bs ≠ .panic := by
  unfold readHeaderS
  split
  · split
    · unfold readV2S
      split
      · split
        · simp
        · exact v2Rest_ne_panic _ _ _ _
      · simp
    · split
      · exact readV1S_ne_panic bs
      · simp
  · simp

/-- a TCP4/TCP6 line, CRLF, payload -/
theorem readHeaderS_v1_line (l : V1Line) {a d : Bytes} {sp dp : Int}
    (h1 : parseIP l.src = some a) (h2 : parseIP l.dst = some d)
    (h3 : atoi l.sport = some sp) (h4 : atoi l.dport = some dp)
    (hmax : l.bytes.length ≤ 107)
    (hmin : (match l.kind with | .tcp4 => 32 | .tcp6 => 22) ≤ l.bytes.length) (p : Bytes) :
    readHeaderS (l.bytes ++ p) = .ok (v1Hdr a d sp dp, p) := by
  have c1 := parseIP_clean h1
  have c2 := parseIP_clean h2
  have c3 := atoi_clean h3
  have c4 := atoi_clean h4
  have hblen : l.bytes.length = l.body.length + 2 := by simp [V1Line.bytes, crlf]
  have hbs : l.bytes ++ p = l.body ++ crlf ++ p := rfl
  have hn : firstCRLFEnd (l.bytes ++ p) = some (l.body.length + 2) := by
    rw [hbs]; exact firstCRLFEnd_line (body_no_cr l c1 c2 c3 c4) p
  have hlen : (l.bytes ++ p).length = l.body.length + 2 + p.length := by
    rw [List.length_append, hblen]
  have hpk := parseV1Header_line l h1 h2 h3 h4
  have hfinal : parseKeep l.body p = .ok (v1Hdr a d sp dp, p) := by
    unfold parseKeep; rw [hpk]
  unfold readHeaderS
  cases hk : l.kind with
  | tcp4 =>
    have hmin : 32 ≤ l.bytes.length := by simpa [hk] using hmin
    have h32 : 32 ≤ (l.bytes ++ p).length := by rw [List.length_append]; omega
    rw [if_pos (by omega)]
    have hopt := v1_after_optimistic hbs hn 32 (by omega) (by omega) (by omega)
    have hform : l.bytes ++ p = 80 :: 82 :: 79 :: 88 :: 89 :: 32 :: 84 :: 67 :: 80 :: 52 :: 32 :: (l.tail ++ 13 :: 10 :: p) := by
      simp [V1Line.bytes, V1Line.body, hk, v1Ident, V1Kind.tag, sTCP4, crlf]
    have e1 : v2Ident.isPrefixOf ((l.bytes ++ p).take 13) = false := by
      rw [hform]; simp [v2Ident, List.isPrefixOf]
    have e2 : v1Ident.isPrefixOf ((l.bytes ++ p).take 13) = true := by
      rw [hform]; simp [v1Ident]
    have e3 : (((l.bytes ++ p).take 13).drop 6 == sUnknown) = false := by
      rw [hform]; simp [sUnknown]
    have e4 : (((l.bytes ++ p).take 10).drop 6 == sTCP4) = true := by
      rw [hform]; simp [sTCP4]
    rw [e1, e2]
    simp only [Bool.false_eq_true, if_false, if_true]
    unfold readV1S
    rw [e3, e4]
    simp only [Bool.false_eq_true, if_false, if_true]
    rw [if_pos h32]
    rw [← hfinal]
    exact hopt
  | tcp6 =>
    have hmin : 22 ≤ l.bytes.length := by simpa [hk] using hmin
    have h24 : 22 ≤ (l.bytes ++ p).length := by rw [List.length_append]; omega
    rw [if_pos (by omega)]
    have hopt := v1_after_optimistic hbs hn 22 (by omega) (by omega) (by omega)
    have hform : l.bytes ++ p = 80 :: 82 :: 79 :: 88 :: 89 :: 32 :: 84 :: 67 :: 80 :: 54 :: 32 :: (l.tail ++ 13 :: 10 :: p) := by
      simp [V1Line.bytes, V1Line.body, hk, v1Ident, V1Kind.tag, sTCP6, crlf]
    have e1 : v2Ident.isPrefixOf ((l.bytes ++ p).take 13) = false := by
      rw [hform]; simp [v2Ident, List.isPrefixOf]
    have e2 : v1Ident.isPrefixOf ((l.bytes ++ p).take 13) = true := by
      rw [hform]; simp [v1Ident]
    have e3 : (((l.bytes ++ p).take 13).drop 6 == sUnknown) = false := by
      rw [hform]; simp [sUnknown]
    have e4 : (((l.bytes ++ p).take 10).drop 6 == sTCP4) = false := by
      rw [hform]; simp [sTCP4]
    have e5 : (((l.bytes ++ p).take 10).drop 6 == sTCP6) = true := by
      rw [hform]; simp [sTCP6]
    rw [e1, e2]
    simp only [Bool.false_eq_true, if_false, if_true]
    unfold readV1S
    rw [e3, e4, e5]
    simp only [Bool.false_eq_true, if_false, if_true]
    rw [if_pos h24]
    rw [← hfinal]
    exact hopt

/-- `PROXY UNKNOWN<tail>\r\n`, payload: `hn` says the line's CRLF is the first one -/
theorem readHeaderS_unknown' (tail : Bytes) (p : Bytes)
    (hn : firstCRLFEnd (unknownBody tail ++ crlf ++ p) = some ((unknownBody tail).length + 2))
    (hmax : (unknownBody tail ++ crlf).length ≤ 107) :
    readHeaderS (unknownBody tail ++ crlf ++ p) = .ok (unknownHdr (unknownBody tail), p) := by
  have hform : unknownBody tail ++ crlf ++ p =
      80 :: 82 :: 79 :: 88 :: 89 :: 32 :: 85 :: 78 :: 75 :: 78 :: 79 :: 87 :: 78 :: (tail ++ crlf ++ p) := by
    simp [unknownBody, v1Ident, sUnknown]
  have hblen : (unknownBody tail).length = 13 + tail.length := by
    simp [unknownBody, v1Ident, sUnknown]; omega
  have hlen : (unknownBody tail ++ crlf ++ p).length = (unknownBody tail).length + 2 + p.length := by
    simp [crlf]; omega
  have hmax' : (unknownBody tail).length + 2 ≤ 107 := by simpa [crlf] using hmax
  unfold readHeaderS
  rw [if_pos (by omega)]
  have e1 : v2Ident.isPrefixOf ((unknownBody tail ++ crlf ++ p).take 13) = false := by
    rw [hform]; simp [v2Ident, List.isPrefixOf]
  have e2 : v1Ident.isPrefixOf ((unknownBody tail ++ crlf ++ p).take 13) = true := by
    rw [hform]; simp [v1Ident]
  have e3 : (((unknownBody tail ++ crlf ++ p).take 13).drop 6 == sUnknown) = true := by
    rw [hform]; simp [sUnknown]
  rw [e1, e2]
  simp only [Bool.false_eq_true, if_false, if_true]
  unfold readV1S
  rw [e3]
  simp only [if_true]
  rw [untilS_found _ hn 94 13 (by omega) (by omega) (by omega)]
  have htake : (unknownBody tail ++ crlf ++ p).take ((unknownBody tail).length + 2 - 2) = unknownBody tail := by
    have : (unknownBody tail).length + 2 - 2 = (unknownBody tail).length := by omega
    rw [this, List.append_assoc, List.take_left]
  have hdrop : (unknownBody tail ++ crlf ++ p).drop ((unknownBody tail).length + 2) = p := by
    have : (unknownBody tail ++ crlf).length = (unknownBody tail).length + 2 := by simp [crlf]
    rw [← this, List.drop_left]
  simp only [htake, hdrop]

/-- `PROXY UNKNOWN<tail>\r\n`, payload -/
theorem readHeaderS_unknown (tail : Bytes)
    (hcr : firstCRLFEnd (tail ++ crlf) = some (tail.length + 2))
    (hmax : (unknownBody tail ++ crlf).length ≤ 107) (p : Bytes) :
    readHeaderS (unknownBody tail ++ crlf ++ p) = .ok (unknownHdr (unknownBody tail), p) := by
  apply readHeaderS_unknown' tail p _ hmax
  have hblen : (unknownBody tail).length = 13 + tail.length := by
    simp [unknownBody, v1Ident, sUnknown]; omega
  have hpre : ∀ c ∈ v1Ident ++ sUnknown, c ≠ 13 := by decide
  have e : unknownBody tail ++ crlf ++ p = (v1Ident ++ sUnknown) ++ ((tail ++ crlf) ++ p) := by
    simp [unknownBody]
  rw [e, firstCRLFEnd_append_clean hpre, firstCRLFEnd_append_of_some hcr]
  simp [v1Ident, sUnknown, hblen]; omega

/-- a complete v2 header (16 fixed bytes, announced remainder), payload -/
theorem readHeaderS_v2 (b12 fam l1 l2 : UInt8) (body p : Bytes)
    (hlen : body.length = l1.toNat * 256 + l2.toNat) :
    readHeaderS (v2Head b12 fam l1 l2 ++ body ++ p) =
      if b12.toNat / 16 != 2 then .err .v2Version
      else if body.length > 2048 then .err .v2TooLong
      else match v2Refusal b12 fam body.length with
        | some e => .err e
        | none => .ok (v2Hdr b12 fam body, p) := by
  have hform : v2Head b12 fam l1 l2 ++ body ++ p = v2Ident ++ b12 :: fam :: l1 :: l2 :: (body ++ p) := by
    simp [v2Head]
  have hl : (v2Head b12 fam l1 l2 ++ body ++ p).length = 16 + body.length + p.length := by
    simp [v2Head, v2Ident]; omega
  unfold readHeaderS
  rw [if_pos (by omega)]
  have e1 : v2Ident.isPrefixOf ((v2Head b12 fam l1 l2 ++ body ++ p).take 13) = true := by
    rw [hform]; simp [v2Ident, List.isPrefixOf]
  rw [e1]
  simp only [if_true]
  unfold readV2S
  rw [if_pos (by omega)]
  have g12 : (v2Head b12 fam l1 l2 ++ body ++ p).getD 12 0 = b12 := by rw [hform]; simp [v2Ident]
  have g13 : (v2Head b12 fam l1 l2 ++ body ++ p).getD 13 0 = fam := by rw [hform]; simp [v2Ident]
  have g14 : (v2Head b12 fam l1 l2 ++ body ++ p).getD 14 0 = l1 := by rw [hform]; simp [v2Ident]
  have g15 : (v2Head b12 fam l1 l2 ++ body ++ p).getD 15 0 = l2 := by rw [hform]; simp [v2Ident]
  have gd : (v2Head b12 fam l1 l2 ++ body ++ p).drop 16 = body ++ p := by rw [hform]; simp [v2Ident]
  rw [g12, g13, g14, g15, gd, ← hlen]
  split
  · rfl
  · rw [v2Rest_eq]
    split
    · rfl
    · rw [if_neg (by simp)]
      simp

end C08
end FwdVerif
