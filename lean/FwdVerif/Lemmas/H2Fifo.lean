/-
  Per-stream FIFO conservation of the HTTP/2 relay model: for every stream, what was released so
  far followed by what is still queued is exactly what was enqueued, in that order.  Core-only.
-/
import FwdVerif.Lemmas.H2Flow

namespace FwdVerif
namespace H2

variable {α : Type}

/-- per-stream history of one direction: frames enqueued and frames released, oldest first -/
structure Hist (α : Type) where
  enq : Nat → List (QFrame α) := fun _ => []
  out : Nat → List (QFrame α) := fun _ => []

def Hist.addOut1 (H : Hist α) (q : QFrame α) : Hist α :=
  { H with out := fun s => if s = q.sid then H.out s ++ [q] else H.out s }

def Hist.addEnq1 (H : Hist α) (q : QFrame α) : Hist α :=
  { H with enq := fun s => if s = q.sid then H.enq s ++ [q] else H.enq s }

def Hist.addOut (H : Hist α) (qs : List (QFrame α)) : Hist α := qs.foldl Hist.addOut1 H
def Hist.addEnq (H : Hist α) (qs : List (QFrame α)) : Hist α := qs.foldl Hist.addEnq1 H

theorem Hist.addOut_append (H : Hist α) (a b : List (QFrame α)) :
    H.addOut (a ++ b) = (H.addOut a).addOut b := by simp [Hist.addOut, List.foldl_append]

theorem Hist.addEnq_append (H : Hist α) (a b : List (QFrame α)) :
    H.addEnq (a ++ b) = (H.addEnq a).addEnq b := by simp [Hist.addEnq, List.foldl_append]

theorem Hist.addOut_enq (H : Hist α) (qs : List (QFrame α)) : (H.addOut qs).enq = H.enq := by
  induction qs generalizing H with
  | nil => rfl
  | cons q t ih => simp only [Hist.addOut, List.foldl_cons] at ih ⊢; rw [ih]; rfl

theorem Hist.addEnq_out (H : Hist α) (qs : List (QFrame α)) : (H.addEnq qs).out = H.out := by
  induction qs generalizing H with
  | nil => rfl
  | cons q t ih => simp only [Hist.addEnq, List.foldl_cons] at ih ⊢; rw [ih]; rfl

theorem Hist.addOut_same (H : Hist α) (qs : List (QFrame α)) (s : Nat) (h : ∀ q ∈ qs, q.sid = s) (t : Nat) :
    (H.addOut qs).out t = if t = s then H.out t ++ qs else H.out t := by
  induction qs generalizing H with
  | nil => simp [Hist.addOut]
  | cons q r ih =>
    have hq : q.sid = s := h q (by simp)
    have := ih (H.addOut1 q) (fun x hx => h x (by simp [hx]))
    simp only [Hist.addOut, List.foldl_cons] at this ⊢
    rw [this]
    simp only [Hist.addOut1, hq]
    split <;> simp

theorem Hist.addOut1_addEnq (H : Hist α) (q : QFrame α) (b : List (QFrame α)) :
    (H.addOut1 q).addEnq b = (H.addEnq b).addOut1 q := by
  induction b generalizing H with
  | nil => rfl
  | cons x r ih =>
    simp only [Hist.addEnq, List.foldl_cons] at ih ⊢
    rw [← ih]
    rfl

theorem Hist.addOut_addEnq (H : Hist α) (a b : List (QFrame α)) :
    (H.addOut a).addEnq b = (H.addEnq b).addOut a := by
  induction a generalizing H with
  | nil => rfl
  | cons q t ih =>
    simp only [Hist.addOut, List.foldl_cons] at ih ⊢
    rw [ih, Hist.addOut1_addEnq]

/-- the queue of a stream (empty when it has no buffer) -/
def Dir.queueOf (d : Dir α) (s : Nat) : List (QFrame α) :=
  match d.streams.get s with
  | some st => st.queue
  | none => []

structure Fifo (d : Dir α) (H : Hist α) : Prop where
  split : ∀ s, H.out s ++ d.queueOf s = H.enq s
  sids : ∀ s st, d.streams.get s = some st → ∀ q ∈ st.queue, q.sid = s

theorem Fifo.init : Fifo ({} : Dir α) {} :=
  { split := by intro s; simp [Dir.queueOf, SMap.get], sids := by intro s st h; simp [SMap.get] at h }

theorem Fifo.congr {d d' : Dir α} {H : Hist α} (h : Fifo d H) (h3 : d'.streams = d.streams) : Fifo d' H :=
  { split := by intro s; have := h.split s; simpa [Dir.queueOf, h3] using this,
    sids := by rw [h3]; exact h.sids }

theorem Fifo.emitOn {d : Dir α} {H : Hist α} (h : Fifo d H) (s : Nat) :
    Fifo (d.emitOn s).1 (H.addOut (d.emitOn s).2) := by
  rcases d.emitOn_spec s with ⟨_, he⟩ | ⟨st, hs, he2, he1⟩
  · rw [he]; exact h
  · rw [he1, he2]
    have hsid : ∀ q ∈ (emitQ st.win d.connWin st.queue).1, q.sid = s :=
      fun q hq => h.sids s st hs q (mem_of_emitQ _ _ _ q hq)
    refine { split := ?_, sids := ?_ }
    · intro t
      rw [Hist.addOut_same H _ s hsid t, Hist.addOut_enq]
      simp only [Dir.queueOf, SMap.get_set]
      by_cases hst : s = t
      · subst hst
        simp only [if_true]
        have := h.split s
        simp only [Dir.queueOf, hs] at this
        rw [← this, List.append_assoc, emitQ_split]
      · have hts : ¬ t = s := fun x => hst x.symm
        simp only [hst, hts, if_false]
        exact h.split t
    · intro t st' ht q hq
      simp only [SMap.get_set] at ht
      by_cases hst : s = t
      · subst hst
        simp only [if_true] at ht
        injection ht with ht
        subst ht
        exact h.sids s st hs q (mem_of_emitQ_rest _ _ _ q hq)
      · simp only [hst, if_false] at ht
        exact h.sids t st' ht q hq

theorem Dir.buf_queue (d : Dir α) (s : Nat) : (d.buf s).queue = d.queueOf s := by
  unfold Dir.buf Dir.queueOf
  cases d.streams.get s <;> rfl

theorem Fifo.enqueue {d : Dir α} {H : Hist α} (h : Fifo d H) (f : QFrame α) :
    Fifo { d with streams := d.streams.set f.sid { d.buf f.sid with queue := (d.buf f.sid).queue ++ [f] } }
      (H.addEnq [f]) := by
  refine { split := ?_, sids := ?_ }
  · intro t
    simp only [Hist.addEnq, List.foldl_cons, List.foldl_nil, Hist.addEnq1, Dir.queueOf, SMap.get_set]
    by_cases hst : f.sid = t
    · subst hst
      simp only [if_true]
      rw [Dir.buf_queue, ← List.append_assoc, h.split]
    · have hts : ¬ t = f.sid := fun x => hst x.symm
      simp only [hst, hts, if_false]
      exact h.split t
  · intro t st' ht q hq
    simp only [SMap.get_set] at ht
    by_cases hst : f.sid = t
    · subst hst
      simp only [if_true] at ht
      injection ht with ht
      subst ht
      simp only [List.mem_append, List.mem_singleton] at hq
      rcases hq with hq | hq
      · rcases d.buf_spec f.sid with ⟨st, hs, hb⟩ | ⟨hn, hb⟩
        · rw [hb] at hq; exact h.sids _ st hs q hq
        · rw [hb] at hq; simp at hq
      · rw [hq]
    · simp only [hst, if_false] at ht
      exact h.sids t st' ht q hq

theorem Fifo.enqEmit {d : Dir α} {H : Hist α} (h : Fifo d H) (f : QFrame α) :
    Fifo (d.enqEmit f).1 ((H.addEnq [f]).addOut (d.enqEmit f).2) := by
  unfold Dir.enqEmit
  exact (h.enqueue f).emitOn f.sid

theorem Fifo.enqEmitAll {d : Dir α} {H : Hist α} (h : Fifo d H) (fs : List (QFrame α)) :
    Fifo (d.enqEmitAll fs).1 ((H.addEnq fs).addOut (d.enqEmitAll fs).2) := by
  induction fs generalizing d H with
  | nil => exact h
  | cons f t ih =>
    simp only [Dir.enqEmitAll]
    have := ih (h.enqEmit f)
    rw [Hist.addOut_addEnq, ← Hist.addEnq_append, ← Hist.addOut_append] at this
    exact this

theorem Fifo.emitList {d : Dir α} {H : Hist α} (h : Fifo d H) (ss : List Nat) :
    Fifo (d.emitList ss).1 (H.addOut (d.emitList ss).2) := by
  induction ss generalizing d H with
  | nil => exact h
  | cons s t ih =>
    simp only [Dir.emitList]
    rw [Hist.addOut_append]
    exact ih (h.emitOn s)

theorem Fifo.pass {d : Dir α} {H : Hist α} (h : Fifo d H) (order : List Nat) :
    Fifo (d.pass order).1 (H.addOut (d.pass order).2) := h.emitList _

/-- changing the window of one buffer (creating it) leaves the queues alone -/
theorem Fifo.addWin {d : Dir α} {H : Hist α} (h : Fifo d H) (s : Nat) (w : Int) :
    Fifo { d with streams := d.streams.set s { d.buf s with win := w } } H := by
  refine { split := ?_, sids := ?_ }
  · intro t
    simp only [Dir.queueOf, SMap.get_set]
    by_cases hst : s = t
    · subst hst
      simp only [if_true]
      rw [Dir.buf_queue]
      exact h.split s
    · simp only [hst, if_false]
      exact h.split t
  · intro t st' ht q hq
    simp only [SMap.get_set] at ht
    by_cases hst : s = t
    · subst hst
      simp only [if_true] at ht
      injection ht with ht
      subst ht
      rcases d.buf_spec s with ⟨st, hs, hb⟩ | ⟨hn, hb⟩
      · rw [hb] at hq; exact h.sids _ st hs q hq
      · rw [hb] at hq; simp at hq
    · simp only [hst, if_false] at ht
      exact h.sids t st' ht q hq

theorem Fifo.windowUpdate {d : Dir α} {H : Hist α} (h : Fifo d H) (order : List Nat) (s n : Nat) :
    Fifo (d.windowUpdate order s n).1 (H.addOut (d.windowUpdate order s n).2) := by
  unfold Dir.windowUpdate
  by_cases hs : s = 0
  · subst hs
    simp only [if_true]
    rw [Hist.addOut_append]
    have h1 : Fifo ({ d with connWin := d.connWin + n } : Dir α) H := h.congr rfl
    exact ((h1.pass order).addWin 0 _).emitOn 0
  · simp only [hs, if_false, List.nil_append]
    exact (h.addWin s _).emitOn s

theorem Fifo.setInitWin {d : Dir α} {H : Hist α} (h : Fifo d H) (order : List Nat) (v : Nat) :
    Fifo (d.setInitWin order v).1 (H.addOut (d.setInitWin order v).2) := by
  unfold Dir.setInitWin
  refine Fifo.pass ?_ order
  refine { split := ?_, sids := ?_ }
  · intro t
    have := h.split t
    simp only [Dir.queueOf, SMap.get_mapWin] at this ⊢
    cases hg : d.streams.get t with
    | none => simpa [hg] using this
    | some st => simpa [hg] using this
  · intro t st' ht q hq
    simp only [SMap.get_mapWin] at ht
    cases hg : d.streams.get t with
    | none => simp [hg] at ht
    | some st =>
      simp only [hg, Option.map_some, Option.some.injEq] at ht
      subst ht
      exact h.sids t st hg q hq

end H2
end FwdVerif
