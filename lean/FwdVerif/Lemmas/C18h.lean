/-
  C18 helper lemmas, part h: the tag look-up machine of `Model/C18Tag.lean`.
-/
import FwdVerif.Lemmas.C18g
import FwdVerif.Model.C18Tag
import FwdVerif.Model.C18Dial

namespace FwdVerif
namespace C18

open Req

/-- invariant of a modifier whose tag was filled in by the constructor: the cell holds the tag and
    every request either has not looked yet or holds exactly that tag -/
def TagFixed (tag : Bytes) (s : TagState) : Prop :=
  s.cell = some tag ∧ ∀ p ∈ s.reqs, p = .idle ∨ p = .has tag

theorem tagFixed_construct (name : Bytes) (rnd : Nat → Bytes) (n : Nat) :
    TagFixed (mkTag name (rnd 0)) (constructEager name rnd n) := by
  refine ⟨rfl, fun p hp => ?_⟩
  exact Or.inl (List.eq_of_mem_replicate hp)

theorem tagStep_length (name : Bytes) (rnd : Nat → Bytes) (s : TagState) (k : Nat) :
    (tagStep name rnd s k).reqs.length = s.reqs.length := by
  unfold tagStep
  cases hk : s.reqs[k]? with
  | none => rfl
  | some p =>
    cases p with
    | idle => cases hc : s.cell <;> simp
    | sawNil => simp
    | drew t => simp
    | has t => rfl

theorem tagFixed_step {name : Bytes} {rnd : Nat → Bytes} {tag : Bytes} {s : TagState}
    (h : TagFixed tag s) (k : Nat) : TagFixed tag (tagStep name rnd s k) := by
  unfold tagStep
  cases hk : s.reqs[k]? with
  | none => exact h
  | some p =>
    have hmem : p ∈ s.reqs := List.mem_of_getElem? hk
    cases p with
    | idle =>
      simp only [h.1]
      refine ⟨rfl, fun q hq => ?_⟩
      rcases List.mem_or_eq_of_mem_set hq with hq | hq
      · exact h.2 q hq
      · exact Or.inr hq
    | sawNil => rcases h.2 _ hmem with h0 | h0 <;> cases h0
    | drew t => rcases h.2 _ hmem with h0 | h0 <;> cases h0
    | has t => exact h

theorem tagFixed_run {name : Bytes} {rnd : Nat → Bytes} {tag : Bytes} (sched : List Nat) {s : TagState}
    (h : TagFixed tag s) : TagFixed tag (tagRun name rnd s sched) := by
  induction sched generalizing s with
  | nil => exact h
  | cons k rest ih => exact ih (tagFixed_step h k)

/-- a request that holds a tag keeps it, whatever anybody does afterwards (either construction) -/
theorem tagStep_has_stable (name : Bytes) (rnd : Nat → Bytes) {s : TagState} {k : Nat} {t : Bytes}
    (h : s.reqs[k]? = some (.has t)) (j : Nat) : (tagStep name rnd s j).reqs[k]? = some (.has t) := by
  by_cases hjk : j = k
  · subst hjk
    unfold tagStep
    simp only [h]
  · unfold tagStep
    cases hj : s.reqs[j]? with
    | none => exact h
    | some p =>
      cases p with
      | idle => cases hc : s.cell <;> simp [List.getElem?_set_ne hjk, h]
      | sawNil => simp [List.getElem?_set_ne hjk, h]
      | drew t' => simp [List.getElem?_set_ne hjk, h]
      | has t' => exact h

theorem tagRun_has_stable (name : Bytes) (rnd : Nat → Bytes) (sched : List Nat) {s : TagState} {k : Nat}
    {t : Bytes} (h : s.reqs[k]? = some (.has t)) : (tagRun name rnd s sched).reqs[k]? = some (.has t) := by
  induction sched generalizing s with
  | nil => exact h
  | cons j rest ih => exact ih (tagStep_has_stable name rnd h j)

/-- with the tag filled in by the constructor the look-up is ONE step: a request that takes it holds the tag -/
theorem tagFixed_stepped {name : Bytes} {rnd : Nat → Bytes} {tag : Bytes} {s : TagState}
    (h : TagFixed tag s) {k : Nat} (hk : k < s.reqs.length) :
    (tagStep name rnd s k).reqs[k]? = some (.has tag) := by
  unfold tagStep
  have hget : s.reqs[k]? = some s.reqs[k] := List.getElem?_eq_getElem hk
  have hmem : s.reqs[k] ∈ s.reqs := List.getElem_mem hk
  rcases h.2 _ hmem with h0 | h0
  · rw [hget, h0]
    simp only [h.1]
    simp [hk]
  · rw [hget, h0]
    show s.reqs[k]? = _
    rw [hget, h0]

theorem tagFixed_run_holds {name : Bytes} {rnd : Nat → Bytes} {tag : Bytes} (sched : List Nat)
    {s : TagState} (h : TagFixed tag s) {k : Nat} (hk : k < s.reqs.length) (hs : k ∈ sched) :
    (tagRun name rnd s sched).reqs[k]? = some (.has tag) := by
  induction sched generalizing s with
  | nil => cases hs
  | cons j rest ih =>
    by_cases hjk : j = k
    · subst hjk
      exact tagRun_has_stable name rnd rest (tagFixed_stepped h hk)
    · have hs' : k ∈ rest := by
        rcases List.mem_cons.mp hs with h0 | h0
        · exact absurd h0.symm hjk
        · exact h0
      exact ih (tagFixed_step h j) (by rw [tagStep_length]; exact hk) hs'

theorem tagOf_eq_some {s : TagState} {k : Nat} {t : Bytes} :
    tagOf s k = some t ↔ s.reqs[k]? = some (.has t) := by
  unfold tagOf
  cases hk : s.reqs[k]? with
  | none => simp
  | some p => cases p <;> simp

theorem mem_tagsHeld {s : TagState} {t : Bytes} : t ∈ tagsHeld s ↔ TagPc.has t ∈ s.reqs := by
  unfold tagsHeld
  rw [List.mem_filterMap]
  constructor
  · rintro ⟨p, hp, he⟩
    cases p <;> simp at he
    rw [← he]; exact hp
  · intro h
    exact ⟨_, h, rfl⟩

theorem eraseDups_length_le_one {a : Bytes} : ∀ (l : List Bytes), (∀ x ∈ l, x = a) → l.eraseDups.length ≤ 1
  | [], _ => by simp
  | x :: xs, h => by
    have hx : x = a := h x (List.mem_cons_self ..)
    have hf : xs.filter (fun y => !y == x) = [] := by
      rw [List.filter_eq_nil_iff]
      intro y hy
      have : y = a := h y (List.mem_cons_of_mem _ hy)
      simp [this, hx]
    rw [List.eraseDups_cons, hf]
    simp

/-! ### the CONNECT dial machine (`Model/C18Dial.lean`) -/

/-- invariant of the per-request dialer: whatever a request's own dialer holds is that request's header
    set; it holds it from `assign` on; what went out is it -/
def DialOwn {α : Type} (hdr : Nat → α) (s : DialState α) : Prop :=
  ∀ k, (s.own k = none ∨ s.own k = some (hdr k)) ∧
    (s.pcs k = .assigned ∨ s.pcs k = .dialled → s.own k = some (hdr k)) ∧
    (∀ h, s.pcs k = .sent h → h = hdr k)

theorem dialOwn_init {α : Type} (hdr : Nat → α) : DialOwn hdr (DialState.init α) := by
  intro k
  refine ⟨Or.inl rfl, ?_, ?_⟩
  · intro h; rcases h with h | h <;> cases h
  · intro h hh; cases hh

theorem dialOwn_step {α : Type} {hdr : Nat → α} {s : DialState α} (h : DialOwn hdr s) (j : Nat) :
    DialOwn hdr (connStep false hdr s j) := by
  unfold connStep
  cases hj : s.pcs j with
  | idle =>
    intro k
    by_cases hk : k = j
    · subst hk
      simp [updAt]
    · simp only [Bool.false_eq_true, if_false, updAt, hk]
      exact h k
  | assigned =>
    intro k
    by_cases hk : k = j
    · subst hk
      simp only [updAt, if_true]
      refine ⟨(h k).1, fun _ => (h k).2.1 (Or.inl hj), ?_⟩
      intro h' hh; cases hh
    · simp only [updAt, hk, if_false]
      exact h k
  | dialled =>
    have ho := (h j).2.1 (Or.inr hj)
    simp only [Bool.false_eq_true, if_false, ho]
    intro k
    by_cases hk : k = j
    · subst hk
      simp only [updAt, if_true]
      refine ⟨(h k).1, ?_, ?_⟩
      · intro h'; rcases h' with h' | h' <;> cases h'
      · intro h' hh; cases hh; rfl
    · simp only [updAt, hk, if_false]
      exact h k
  | sent h' => exact h

theorem dialOwn_run {α : Type} {hdr : Nat → α} (sched : List Nat) {s : DialState α} (h : DialOwn hdr s) :
    DialOwn hdr (connRun false hdr s sched) := by
  induction sched generalizing s with
  | nil => exact h
  | cons j rest ih => exact ih (dialOwn_step h j)

/-- the entropy source of the concrete examples: the boundaries of `tagW` and `tagX` -/
def rndW : Nat → Bytes := fun k =>
  if k = 0 then Req.bs "0123456789abcdef0123" else Req.bs "0123456789abcdef0124"

/-- instance X behind an `http` upstream proxy (which is instance A = `cfgWhttp`) -/
def cfgXhttp : Cfg := { cfgX with upstream := .http (Req.bs "next.test:3128") none }

/-- the two concurrent CONNECTs of the dial examples: request 0 came through `fred`, request 1 has passed A -/
def dialReqs : Nat → Req.ConnectReq := fun i =>
  if i = 0 then connectWith 1 [Req.bs "1.0 fred"] else connectWith 1 [Req.bs "1.1 fwd-0123456789abcdef0123"]

end C18
end FwdVerif
