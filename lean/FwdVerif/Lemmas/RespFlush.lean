/-
  C02 — incremental delivery: when does `patternFlushWriter` (internal/martian/flush.go) flush?

  Model: `FwdVerif.Flush.flushes pat ws : List Bool`, one entry per write of `ws`;
  "there is a flush at write `i`" is `(flushes pat ws)[i]? = some true`.

  * `flush_if_contains`           a write that contains the pattern is flushed;
  * `flush_boundary`              the pattern split across two consecutive writes is flushed
                                      at the second one;
  * `flush_after_pattern_partial` whenever the bytes written so far end with the pattern, the
                                      write that completed it is flushed — provided that, when the
                                      pattern is split, the preceding write is non-empty;
  * `flush_after_pattern_witness` without that proviso the statement is FALSE for the code: a
                                      zero-length write between the two halves of the pattern
                                      resets `last` (pat = "\n\n", writes "\n", "", "\n").

  Core-only.
-/
import FwdVerif.Model.Flush

namespace FwdVerif
namespace Flush

/-! ## Specification vocabulary -/

/-- All bytes written up to and including write `i`. -/
def written (ws : List Bytes) (i : Nat) : Bytes := (ws.take (i + 1)).flatten

/-- `b` ends with the two pattern bytes. -/
def endsWithPair (pat : UInt8 × UInt8) (b : Bytes) : Prop := ∃ pre, b = pre ++ [pat.1, pat.2]

/-- Boolean (kernel-reducible) version of `endsWithPair`. -/
def endsWithPairB (pat : UInt8 × UInt8) : Bytes → Bool
  | [] => false
  | [_] => false
  | [a, b] => a == pat.1 && b == pat.2
  | _ :: b :: c :: rest => endsWithPairB pat (b :: c :: rest)

theorem endsWithPairB_iff (pat : UInt8 × UInt8) (b : Bytes) :
    endsWithPairB pat b = true ↔ endsWithPair pat b := by
  induction b using endsWithPairB.induct with
  | case1 => simp [endsWithPairB, endsWithPair]
  | case2 x =>
    simp only [endsWithPairB, endsWithPair, Bool.false_eq_true, false_iff]
    intro ⟨pre, h⟩
    have hl := congrArg List.length h
    simp only [List.length_append, List.length_cons, List.length_nil] at hl
    omega
  | case3 x y =>
    simp only [endsWithPairB, endsWithPair, Bool.and_eq_true, beq_iff_eq]
    constructor
    · intro ⟨h1, h2⟩; exact ⟨[], by simp [h1, h2]⟩
    · intro ⟨pre, h⟩
      have hl := congrArg List.length h
      simp only [List.length_append, List.length_cons, List.length_nil] at hl
      have : pre = [] := List.eq_nil_of_length_eq_zero (by omega)
      subst this
      simpa using h
  | case4 x y z rest ih =>
    simp only [endsWithPairB, ih, endsWithPair]
    constructor
    · intro ⟨pre, h⟩; exact ⟨x :: pre, by simp [h]⟩
    · intro ⟨pre, h⟩
      cases pre with
      | nil => simp at h
      | cons c pre => simp at h; exact ⟨pre, h.2⟩

instance (pat : UInt8 × UInt8) (b : Bytes) : Decidable (endsWithPair pat b) :=
  decidable_of_iff _ (endsWithPairB_iff pat b)

/-! ## Basic facts about the model -/

theorem flushesFrom_length (pat : UInt8 × UInt8) (last : UInt8) (ws : List Bytes) :
    (flushesFrom pat last ws).length = ws.length := by
  induction ws generalizing last with
  | nil => rfl
  | cons p ws ih => simp [flushesFrom, ih]

theorem flushes_length (pat : UInt8 × UInt8) (ws : List Bytes) :
    (flushes pat ws).length = ws.length :=
  flushesFrom_length pat 0 ws

/-- The new `last` after a non-empty write is the last byte of that write. -/
theorem step_last_of_getLast? (pat : UInt8 × UInt8) (last : UInt8) (p : Bytes) (c : UInt8)
    (h : p.getLast? = some c) : (step pat last p).2 = c := by
  simp [step, h]

/-- The new `last` after an empty write is `0`. -/
theorem step_last_nil (pat : UInt8 × UInt8) (last : UInt8) : (step pat last []).2 = 0 := rfl

theorem step_flush_of_contains (pat : UInt8 × UInt8) (last : UInt8) (p : Bytes)
    (h : containsPair pat p = true) : (step pat last p).1 = true := by
  simp [step, h]

theorem step_flush_of_boundary (pat : UInt8 × UInt8) (p : Bytes)
    (h : p.head? = some pat.2) : (step pat pat.1 p).1 = true := by
  simp [step, h]

theorem containsPair_cons (pat : UInt8 × UInt8) (c : UInt8) (l : Bytes)
    (h : containsPair pat l = true) : containsPair pat (c :: l) = true := by
  cases l with
  | nil => simp [containsPair] at h
  | cons d l => simp [containsPair, h]

theorem containsPair_append_pair (pat : UInt8 × UInt8) (pre : Bytes) :
    containsPair pat (pre ++ [pat.1, pat.2]) = true := by
  induction pre with
  | nil => simp [containsPair]
  | cons c pre ih => exact containsPair_cons pat c _ ih

theorem containsPair_of_endsWithPair (pat : UInt8 × UInt8) (p : Bytes)
    (h : endsWithPair pat p) : containsPair pat p = true := by
  obtain ⟨pre, rfl⟩ := h
  exact containsPair_append_pair pat pre

/-- A suffix of length at least two of a string ending with the pattern ends with the pattern. -/
theorem endsWithPair_of_append (pat : UInt8 × UInt8) (x p : Bytes)
    (h : endsWithPair pat (x ++ p)) (hp : 2 ≤ p.length) : endsWithPair pat p := by
  obtain ⟨pre, h⟩ := h
  rcases List.append_eq_append_iff.mp h with ⟨a', _, h2⟩ | ⟨c', _, h2⟩
  · exact ⟨a', h2⟩
  · have hl := congrArg List.length h2
    simp only [List.length_append, List.length_cons, List.length_nil] at hl
    have : c' = [] := List.eq_nil_of_length_eq_zero (by omega)
    subst this
    exact ⟨[], by simpa using h2.symm⟩

/-- If `x ++ [c]` ends with the pattern then `c` is its second byte and `x` ends with the first. -/
theorem endsWithPair_append_singleton (pat : UInt8 × UInt8) (x : Bytes) (c : UInt8)
    (h : endsWithPair pat (x ++ [c])) : c = pat.2 ∧ ∃ pre, x = pre ++ [pat.1] := by
  obtain ⟨pre, h⟩ := h
  have h' : x ++ [c] = (pre ++ [pat.1]) ++ [pat.2] := by simpa using h
  have := List.append_inj' h' rfl
  exact ⟨by simpa using this.2, pre, this.1⟩

theorem getLast?_of_append_eq (x q pre : Bytes) (a : UInt8) (hq : q ≠ [])
    (h : x ++ q = pre ++ [a]) : q.getLast? = some a := by
  have := congrArg List.getLast? h
  simpa [List.getLast?_append, List.getLast?_eq_none_iff, hq] using this

/-! ## Flush at a write that contains the pattern -/

theorem flushesFrom_if_contains (pat : UInt8 × UInt8) (last : UInt8) (ws : List Bytes) (i : Nat)
    (p : Bytes) (hi : ws[i]? = some p) (hc : containsPair pat p = true) :
    (flushesFrom pat last ws)[i]? = some true := by
  induction ws generalizing last i with
  | nil => simp at hi
  | cons w ws ih =>
    cases i with
    | zero =>
      simp at hi
      subst hi
      simp [flushesFrom, step_flush_of_contains pat last w hc]
    | succ i =>
      simp at hi
      simpa [flushesFrom] using ih _ i hi

/-- A write that contains the pattern is followed by a flush. -/
theorem flush_if_contains (pat : UInt8 × UInt8) (ws : List Bytes) (i : Nat) (p : Bytes) :
    ws[i]? = some p → containsPair pat p = true → (flushes pat ws)[i]? = some true :=
  flushesFrom_if_contains pat 0 ws i p

/-- "data: a\n\n" | "data: b\n" | "data: c\n\ndata: d": writes 0 and 2 contain "\n\n". -/
example :
    flushes (10, 10)
      [[100, 97, 116, 97, 58, 32, 97, 10, 10],
       [100, 97, 116, 97, 58, 32, 98, 10],
       [100, 97, 116, 97, 58, 32, 99, 10, 10, 100, 97, 116, 97, 58, 32, 100]]
      = [true, false, true] := by decide

example : containsPair (10, 10) [100, 97, 116, 97, 58, 32, 99, 10, 10, 100] = true := by decide

/-- chunked: "5\r\nhello\r\n" is flushed with pattern "\r\n". -/
example : flushes (13, 10) [[53, 13, 10, 104, 101, 108, 108, 111, 13, 10], [104, 105]]
    = [true, false] := by decide

/-! ## Flush when the pattern is split across two consecutive writes -/

theorem flushesFrom_boundary (pat : UInt8 × UInt8) (last : UInt8) (ws : List Bytes) (i : Nat)
    (q p : Bytes) (hq : ws[i]? = some q) (hp : ws[i + 1]? = some p)
    (hql : q.getLast? = some pat.1) (hph : p.head? = some pat.2) :
    (flushesFrom pat last ws)[i + 1]? = some true := by
  induction ws generalizing last i with
  | nil => simp at hq
  | cons w ws ih =>
    cases i with
    | zero =>
      cases ws with
      | nil => simp at hp
      | cons w' ws =>
        simp at hq hp
        subst hq hp
        simp [flushesFrom, step_last_of_getLast? pat last w pat.1 hql,
          step_flush_of_boundary pat w' hph]
    | succ i =>
      simp at hq hp
      simpa [flushesFrom] using ih _ i hq hp

/-- The pattern split across two consecutive writes (the first ends with the first pattern byte,
    the second starts with the second pattern byte) is caught: the second write is followed by a
    flush, whatever else it contains. -/
theorem flush_boundary (pat : UInt8 × UInt8) (ws : List Bytes) (i : Nat) (q p : Bytes) :
    ws[i]? = some q → ws[i + 1]? = some p → q.getLast? = some pat.1 → p.head? = some pat.2 →
    (flushes pat ws)[i + 1]? = some true :=
  flushesFrom_boundary pat 0 ws i q p

/-- "data: a\n" | "\ndata: b" | "x": the event boundary is split over writes 0 and 1. -/
example :
    flushes (10, 10)
      [[100, 97, 116, 97, 58, 32, 97, 10], [10, 100, 97, 116, 97, 58, 32, 98], [120]]
      = [false, true, false] := by decide

example : ([100, 97, 116, 97, 58, 32, 97, 10] : Bytes).getLast? = some (10, 10).1 ∧
    ([10, 100, 97, 116, 97, 58, 32, 98] : Bytes).head? = some (10, 10).2 := by decide

/-! ## Flush whenever the output so far ends with the pattern -/

/-- The full end-of-pattern property: every non-empty write after which the bytes written so far
    end with the pattern is followed by a flush.  FALSE for the code, see
    `flush_after_pattern_witness`. -/
def flush_after_pattern_full : Prop :=
  ∀ (pat : UInt8 × UInt8) (ws : List Bytes) (i : Nat) (p : Bytes),
    ws[i]? = some p → p ≠ [] → endsWithPair pat (written ws i) →
    (flushes pat ws)[i]? = some true

theorem written_eq (ws : List Bytes) (i : Nat) (p : Bytes) (hi : ws[i]? = some p) :
    written ws i = (ws.take i).flatten ++ p := by
  simp [written, List.take_add_one, hi]

/-- Every non-empty write after which the bytes written so far end with the pattern is followed
    by a flush, provided that in the split case (the write contributes only the second pattern
    byte) the preceding write is non-empty. -/
theorem flush_after_pattern_partial (pat : UInt8 × UInt8) (ws : List Bytes) (i : Nat)
    (p : Bytes) :
    ws[i]? = some p → p ≠ [] → endsWithPair pat (written ws i) →
    (2 ≤ p.length ∨ ∃ q, 0 < i ∧ ws[i - 1]? = some q ∧ q ≠ []) →
    (flushes pat ws)[i]? = some true := by
  intro hi hne hend hside
  rw [written_eq ws i p hi] at hend
  by_cases h2 : 2 ≤ p.length
  · exact flush_if_contains pat ws i p hi
      (containsPair_of_endsWithPair pat p (endsWithPair_of_append pat _ p hend h2))
  · rcases hside with h | ⟨q, hpos, hq, hqne⟩
    · exact absurd h h2
    · -- `p = [c]`
      match p, hne, h2 with
      | [c], _, _ =>
        obtain ⟨hc, pre, hx⟩ := endsWithPair_append_singleton pat _ c hend
        obtain ⟨j, rfl⟩ : ∃ j, i = j + 1 := ⟨i - 1, by omega⟩
        simp only [Nat.add_sub_cancel] at hq
        have hx' : (ws.take j).flatten ++ q = pre ++ [pat.1] := by
          simpa [List.take_add_one, hq] using hx
        exact flush_boundary pat ws j q [c] hq hi
          (getLast?_of_append_eq _ q pre pat.1 hqne hx') (by simp [hc])
      | _ :: _ :: _, _, h2 => simp at h2

/-- The side condition of `flush_after_pattern_partial` excludes no first write: a one-byte
    first write cannot complete the pattern. -/
theorem not_endsWithPair_first_singleton (pat : UInt8 × UInt8) (ws : List Bytes) (c : UInt8)
    (h : ws[0]? = some [c]) : ¬ endsWithPair pat (written ws 0) := by
  rw [written_eq ws 0 [c] h]
  intro ⟨pre, hp⟩
  have hl := congrArg List.length hp
  simp only [List.take_zero, List.flatten_nil, List.nil_append, List.length_append,
    List.length_cons, List.length_nil] at hl
  omega

/-- "data: a\n" | "\n": after write 1 the output ends with "\n\n"; the predecessor is non-empty. -/
example :
    let ws : List Bytes := [[100, 97, 116, 97, 58, 32, 97, 10], [10]]
    ws[1]? = some [10] ∧ ([10] : Bytes) ≠ [] ∧ endsWithPair (10, 10) (written ws 1) ∧
      (∃ q, 0 < 1 ∧ ws[1 - 1]? = some q ∧ q ≠ []) ∧
      flushes (10, 10) ws = [false, true] :=
  ⟨rfl, by decide, ⟨[100, 97, 116, 97, 58, 32, 97], rfl⟩, ⟨_, by decide, rfl, by decide⟩,
    by decide⟩

/-- The same by evaluation, through the `Decidable (endsWithPair ..)` instance. -/
example : endsWithPair (10, 10) (written [[100, 97, 116, 97, 58, 32, 97, 10], [10]] 1) := by
  decide

example : ¬ endsWithPair (10, 10) (written [[100, 97, 116, 97, 58, 32, 97, 10], [10]] 0) := by
  decide

/-- "x" | "data: b\n\n": the write itself ends with the pattern (`2 ≤ p.length`). -/
example :
    let ws : List Bytes := [[120], [100, 97, 116, 97, 58, 32, 98, 10, 10]]
    endsWithPair (10, 10) (written ws 1) ∧ flushes (10, 10) ws = [false, true] :=
  ⟨⟨[120, 100, 97, 116, 97, 58, 32, 98], rfl⟩, by decide⟩

/-- The full property fails: a zero-length write between the two halves of the pattern resets
    `last`, so "\n" | "" | "\n" is never flushed although the output ends with "\n\n". -/
theorem flush_after_pattern_witness : ¬ flush_after_pattern_full := by
  intro h
  have := h (10, 10) [[10], [], [10]] 2 [10] rfl (by decide) ⟨[], rfl⟩
  revert this
  decide

example : flushes (10, 10) [[10], [], [10]] = [false, false, false] := by decide

example : endsWithPair (10, 10) (written [[10], [], [10]] 2) := ⟨[], rfl⟩

/-- Without the empty write in between, the same bytes are flushed. -/
example : flushes (10, 10) [[10], [10]] = [false, true] := by decide

end Flush
end FwdVerif
