/-
  C01 — helper lemmas about the client address the pipeline records (`Req.peerHost`) and the
  site-credential step (`C01.attachSiteCred`).  Core Lean only.

  §1 `net.SplitHostPort (net.JoinHostPort host port) = (host, port)`
  §2 cutting at the last colon
-/
import FwdVerif.Model.C01

namespace FwdVerif
namespace C01

open Req Ascii

/-! ## §1 -/

theorem indexOfByte_app {c : UInt8} {a : Bytes} (b : Bytes) (h : c ∉ a) :
    indexOfByte c (a ++ c :: b) = some a.length := by
  induction a with
  | nil => simp [indexOfByte]
  | cons x xs ih =>
    have hx : (x == c) = false := by
      cases hxc : (x == c) with
      | false => rfl
      | true => exact absurd (by simp [(beq_iff_eq.mp hxc)]) h
    have := ih (fun hm => h (List.mem_cons_of_mem _ hm))
    simp only [List.cons_append, indexOfByte, hx, this, Option.map_some, List.length_cons]
    rfl

theorem lastIndexOfByte_app {c : UInt8} (pre : Bytes) {p : Bytes} (hp : c ∉ p) :
    lastIndexOfByte c (pre ++ c :: p) = some pre.length := by
  unfold lastIndexOfByte
  have hr : (pre ++ c :: p).reverse = p.reverse ++ c :: pre.reverse := by simp
  rw [hr, indexOfByte_app pre.reverse (fun hx => hp (List.mem_reverse.mp hx))]
  simp only [Option.map_some, List.length_append, List.length_cons, List.length_reverse, Option.some.injEq]
  omega

theorem contains_false_of_not_mem {c : UInt8} {s : Bytes} (h : c ∉ s) : s.contains c = false := by
  cases hc : s.contains c with
  | false => rfl
  | true => exact absurd (List.contains_iff_mem.mp hc) h

/-- an address without colon is joined as `host:port` and split back -/
theorem split_join_plain {host port : Bytes} (hc : 58 ∉ host) (hl : 91 ∉ host) (hr : 93 ∉ host)
    (pc : 58 ∉ port) (pl : 91 ∉ port) (pr : 93 ∉ port) :
    netSplitHostPort (netJoinHostPort host port) = some (host, port) := by
  have hj : netJoinHostPort host port = host ++ 58 :: port := by
    unfold netJoinHostPort
    rw [contains_false_of_not_mem hc]
    simp
  rw [hj]
  unfold netSplitHostPort
  rw [lastIndexOfByte_app host pc]
  have hhead : ((host ++ 58 :: port).head? == some 91) = false := by
    cases host with
    | nil => simp
    | cons x xs =>
      have : x ≠ 91 := fun e => hl (by simp [e])
      simp [this]
  have h91 : (91 : UInt8) ∉ host ++ 58 :: port := by
    simp only [List.mem_append, List.mem_cons, not_or]
    exact ⟨hl, by decide, pl⟩
  have h93 : (93 : UInt8) ∉ host ++ 58 :: port := by
    simp only [List.mem_append, List.mem_cons, not_or]
    exact ⟨hr, by decide, pr⟩
  have htake : (host ++ 58 :: port).take host.length = host := by simp
  have hdrop : (host ++ 58 :: port).drop (host.length + 1) = port := by
    rw [← List.drop_drop]; simp
  simp only [hhead, Bool.false_eq_true, if_false, htake, hdrop, contains_false_of_not_mem hc,
    contains_false_of_not_mem h91, contains_false_of_not_mem h93, Bool.or_self]

/-- an address with a colon (an IPv6 literal) is joined as `[host]:port` and split back -/
theorem split_join_bracketed {host port : Bytes} (hc : 58 ∈ host) (hl : 91 ∉ host) (hr : 93 ∉ host)
    (pc : 58 ∉ port) (pl : 91 ∉ port) (pr : 93 ∉ port) :
    netSplitHostPort (netJoinHostPort host port) = some (host, port) := by
  have hj : netJoinHostPort host port = (91 :: host ++ [93]) ++ 58 :: port := by
    unfold netJoinHostPort
    rw [List.contains_iff_mem.mpr hc]
    simp
  have hj2 : netJoinHostPort host port = (91 :: host) ++ 93 :: (58 :: port) := by
    rw [hj]; simp
  unfold netSplitHostPort
  have hlast : lastIndexOfByte 58 (netJoinHostPort host port) = some (host.length + 2) := by
    rw [hj, lastIndexOfByte_app _ pc]; simp
  have hidx : indexOfByte 93 (netJoinHostPort host port) = some (host.length + 1) := by
    rw [hj2, indexOfByte_app (a := 91 :: host) _ (by
      simp only [List.mem_cons, not_or]; exact ⟨by decide, hr⟩)]
    simp
  have hhead : (netJoinHostPort host port).head? = some 91 := by rw [hj2]; rfl
  have hlen : (netJoinHostPort host port).length = host.length + 3 + port.length := by
    rw [hj2]; simp; omega
  have hd1 : (netJoinHostPort host port).drop 1 = host ++ 93 :: 58 :: port := by rw [hj2]; simp
  have hd2 : (netJoinHostPort host port).drop (host.length + 1 + 1) = 58 :: port := by
    rw [hj2, show host.length + 1 + 1 = (91 :: host).length + 1 from by simp, ← List.drop_drop]
    simp
  have hd3 : (netJoinHostPort host port).drop (host.length + 2 + 1) = port := by
    rw [show host.length + 2 + 1 = (host.length + 1 + 1) + 1 from by omega, ← List.drop_drop, hd2]
    rfl
  have ht : ((netJoinHostPort host port).take (host.length + 1)).drop 1 = host := by
    rw [hj2, show host.length + 1 = (91 :: host).length from by simp, List.take_left']
    rfl
    rfl
  have n91 : (91 : UInt8) ∉ host ++ 93 :: 58 :: port := by
    simp only [List.mem_append, List.mem_cons, not_or]
    exact ⟨hl, by decide, by decide, pl⟩
  have n93 : (93 : UInt8) ∉ 58 :: port := by
    simp only [List.mem_cons, not_or]
    exact ⟨by decide, pr⟩
  simp only [hlast, hhead, hidx, hlen, hd1, hd2, hd3, ht, beq_self_eq_true, if_true,
    contains_false_of_not_mem n91, contains_false_of_not_mem n93, Bool.or_self, Bool.false_eq_true, if_false]
  have : (host.length + 1 + 1 == host.length + 3 + port.length) = false := by
    simp only [beq_eq_false_iff_ne, ne_eq]; omega
  simp [this]

end C01
end FwdVerif
