/-
  C02 — the independent RFC 7230 reader of `Model/RespSpec.lean` reads back exactly what the writer
  `serialize` puts on the wire: one self-delimited response whatever follows it, a close-delimited
  response up to the end of the stream, and a whole connection response by response.

  Core-only.
-/
import FwdVerif.Model.RespSpec

namespace FwdVerif
namespace Resp

open Ascii
open Req (trimOWS splitComma)

/-! ### lines -/

private theorem takeWhile_append_stop {α : Type} (p : α → Bool) (l : List α) (b : α) (r : List α)
    (hl : ∀ a ∈ l, p a = true) (hb : p b = false) : (l ++ b :: r).takeWhile p = l := by
  induction l with
  | nil => simp [hb]
  | cons a l ih =>
    have ha : p a = true := hl a List.mem_cons_self
    simp only [List.cons_append, List.takeWhile_cons, ha, if_true]
    rw [ih (fun x hx => hl x (List.mem_cons_of_mem _ hx))]

theorem splitLine_append (l rest : Bytes) (h : (10 : UInt8) ∉ l) :
    splitLine (l ++ 13 :: 10 :: rest) = some (l, rest) := by
  induction l with
  | nil => simp [splitLine]
  | cons a l ih =>
    have hl : (10 : UInt8) ∉ l := fun hm => h (List.mem_cons_of_mem _ hm)
    have ih' := ih hl
    cases l with
    | nil =>
      simp only [List.nil_append, List.cons_append]
      simp only [splitLine]
      simp
    | cons b l =>
      have hb : b ≠ 10 := fun hb => h (by simp [hb])
      simp only [List.cons_append] at ih' ⊢
      simp only [splitLine, ih']
      simp [hb]

private theorem digit_props (n : Nat) : isDigit (digit n) = true ∧ (digit n).toNat - 48 = n % 10 ∧ digit n ≠ 10 := by
  have h : ∀ k : Fin 10, isDigit (UInt8.ofNat (48 + k.val)) = true ∧
      (UInt8.ofNat (48 + k.val)).toNat - 48 = k.val ∧ UInt8.ofNat (48 + k.val) ≠ 10 := by decide
  exact h ⟨n % 10, Nat.mod_lt _ (by decide)⟩

private theorem hexDigit_props (d : Nat) (hd : d < 16) :
    isHexByte (hexDigitByte d) = true ∧ hexVal (hexDigitByte d) = d := by
  have h : ∀ k : Fin 16, isHexByte (hexDigitByte k.val) = true ∧ hexVal (hexDigitByte k.val) = k.val := by decide
  exact h ⟨d, hd⟩


/-! ### status line -/

/-- the status line without its CRLF -/
def statusText (minor status : Nat) (reason : Bytes) : Bytes :=
  72 :: 84 :: 84 :: 80 :: 47 :: 49 :: 46 :: digit minor :: 32 ::
    digit (status / 100) :: digit (status / 10) :: digit status :: 32 :: reason

theorem statusLine_eq (minor status : Nat) (reason : Bytes) :
    statusLine minor status reason = statusText minor status reason ++ 13 :: 10 :: [] := rfl

theorem statusText_nolf (minor status : Nat) (reason : Bytes) (h : (10 : UInt8) ∉ reason) :
    (10 : UInt8) ∉ statusText minor status reason := by
  have h1 := (digit_props minor).2.2
  have h2 := (digit_props (status / 100)).2.2
  have h3 := (digit_props (status / 10)).2.2
  have h4 := (digit_props status).2.2
  simp only [statusText, List.mem_cons, not_or]
  refine ⟨by decide, by decide, by decide, by decide, by decide, by decide, by decide, Ne.symm h1, by decide,
    Ne.symm h2, Ne.symm h3, Ne.symm h4, by decide, h⟩

theorem parseStatusLine_statusText (minor status : Nat) (reason : Bytes)
    (hm : minor < 10) (hs : status < 1000) :
    parseStatusLine (statusText minor status reason) = some (minor, status, reason) := by
  have ⟨d1, v1, _⟩ := digit_props minor
  have ⟨d2, v2, _⟩ := digit_props (status / 100)
  have ⟨d3, v3, _⟩ := digit_props (status / 10)
  have ⟨d4, v4, _⟩ := digit_props status
  have e1 : minor % 10 = minor := Nat.mod_eq_of_lt hm
  have e2 : status / 100 % 10 * 100 + status / 10 % 10 * 10 + status % 10 = status := by omega
  simp [parseStatusLine, statusText, d1, d2, d3, d4, v1, v2, v3, v4, e1, e2]


/-! ### field lines -/

private theorem token_ne_colon {c : UInt8} (h : isTokenByte c = true) : c ≠ 58 := by
  rintro rfl; revert h; decide

private theorem token_ne_lf {c : UInt8} (h : isTokenByte c = true) : c ≠ 10 := by
  rintro rfl; revert h; decide

private theorem trimOWS_sp (v : Bytes) : trimOWS (32 :: v) = trimOWS v := by
  simp [trimOWS]

/-- a field line without its CRLF -/
def fieldText (f : Bytes × Bytes) : Bytes := f.1 ++ 58 :: 32 :: f.2

theorem fieldLine_eq (f : Bytes × Bytes) (rest : Bytes) :
    fieldLine f.1 f.2 ++ rest = fieldText f ++ 13 :: 10 :: rest := by
  simp [fieldLine, fieldText, crlf]

theorem fieldText_nolf {f : Bytes × Bytes} (h : LineWF f) : (10 : UInt8) ∉ fieldText f := by
  have hn : (10 : UInt8) ∉ f.1 := fun hm => token_ne_lf (List.all_eq_true.mp h.name_tok _ hm) rfl
  simp only [fieldText, List.mem_append, List.mem_cons, not_or]
  exact ⟨hn, by decide, by decide, h.value_nolf⟩

theorem fieldText_ne_nil {f : Bytes × Bytes} (h : LineWF f) : (fieldText f).isEmpty = false := by
  have := h.name_ne
  cases hf : f.1 with
  | nil => exact absurd hf this
  | cons a l => simp [fieldText, hf]

theorem parseFieldLine_fieldText {f : Bytes × Bytes} (h : LineWF f) :
    parseFieldLine (fieldText f) = some (normField f) := by
  have htw : (fieldText f).takeWhile (fun c => c != 58) = f.1 := by
    apply takeWhile_append_stop
    · intro a ha
      have := token_ne_colon (List.all_eq_true.mp h.name_tok a ha)
      simpa using this
    · decide
  have hne : f.1.isEmpty = false := by
    cases hf : f.1 with
    | nil => exact absurd hf h.name_ne
    | cons a l => rfl
  have hdrop : (fieldText f).drop f.1.length = 58 :: 32 :: f.2 := by
    simp [fieldText]
  simp only [parseFieldLine, htw, hne, h.name_tok, hdrop, normField, trimOWS_sp]
  simp


theorem fieldLines_cons (f : Bytes × Bytes) (fs : List (Bytes × Bytes)) :
    fieldLines (f :: fs) = fieldLine f.1 f.2 ++ fieldLines fs := by
  simp [fieldLines]

theorem length_le_fieldLines (fs : List (Bytes × Bytes)) : fs.length ≤ (fieldLines fs).length := by
  induction fs with
  | nil => simp
  | cons f fs ih =>
    rw [fieldLines_cons]
    simp only [List.length_cons, List.length_append, fieldLine, crlf]
    omega

theorem parseFieldsAux_fieldLines (fs : List (Bytes × Bytes)) (fuel : Nat) (rest : Bytes)
    (h : ∀ f ∈ fs, LineWF f) (hf : fs.length < fuel) :
    parseFieldsAux fuel (fieldLines fs ++ 13 :: 10 :: rest) = some (fs.map normField, rest) := by
  induction fs generalizing fuel with
  | nil =>
    cases fuel with
    | zero => omega
    | succ fuel =>
      have : splitLine (13 :: 10 :: rest) = some ([], rest) := splitLine_append [] rest (by simp)
      simp [fieldLines, parseFieldsAux, this]
  | cons f fs ih =>
    cases fuel with
    | zero => omega
    | succ fuel =>
      have hwf := h f List.mem_cons_self
      have ih' := ih fuel (fun g hg => h g (List.mem_cons_of_mem _ hg)) (by simpa using hf)
      rw [fieldLines_cons, List.append_assoc, fieldLine_eq]
      simp only [parseFieldsAux, splitLine_append _ _ (fieldText_nolf hwf), fieldText_ne_nil hwf,
        parseFieldLine_fieldText hwf, ih', List.map_cons]
      simp

theorem parseFields_fieldLines (fs : List (Bytes × Bytes)) (rest : Bytes)
    (h : ∀ f ∈ fs, LineWF f) :
    parseFields (fieldLines fs ++ crlf ++ rest) = some (fs.map normField, rest) := by
  have := length_le_fieldLines fs
  rw [parseFields, List.append_assoc]
  apply parseFieldsAux_fieldLines _ _ _ h
  simp only [List.length_append]
  omega


/-! ### chunk sizes -/

theorem hexAux_all (f n : Nat) (acc : Bytes) (h : ∀ c ∈ acc, isHexByte c = true) :
    ∀ c ∈ hexAux f n acc, isHexByte c = true := by
  induction f generalizing n acc with
  | zero => simpa [hexAux] using h
  | succ f ih =>
    unfold hexAux
    split
    · rename_i hlt
      intro c hc
      rcases List.mem_cons.mp hc with rfl | hc
      · exact (hexDigit_props n hlt).1
      · exact h c hc
    · apply ih
      intro c hc
      rcases List.mem_cons.mp hc with rfl | hc
      · exact (hexDigit_props _ (Nat.mod_lt _ (by decide))).1
      · exact h c hc

theorem hexAux_ne_nil (f n : Nat) (acc : Bytes) (h : acc ≠ []) : hexAux f n acc ≠ [] := by
  induction f generalizing n acc with
  | zero => simpa [hexAux] using h
  | succ f ih =>
    unfold hexAux
    split
    · simp
    · exact ih _ _ (by simp)

theorem hexAux_val (f n : Nat) (acc : Bytes) (hn : n < f) :
    (hexAux f n acc).foldl (fun a c => a * 16 + hexVal c) 0 =
      acc.foldl (fun a c => a * 16 + hexVal c) n := by
  induction f generalizing n acc with
  | zero => omega
  | succ f ih =>
    unfold hexAux
    split
    · rename_i hlt
      simp [(hexDigit_props n hlt).2]
    · rw [ih _ _ (by omega)]
      simp only [List.foldl_cons, (hexDigit_props _ (Nat.mod_lt n (by decide : 0 < 16))).2]
      congr 1
      omega

theorem hexNat_all (n : Nat) : ∀ c ∈ hexNat n, isHexByte c = true :=
  hexAux_all _ _ _ (by simp)

theorem hexNat_ne_nil (n : Nat) : (hexNat n).isEmpty = false := by
  have : hexNat n ≠ [] := by
    unfold hexNat hexAux
    split
    · simp
    · exact hexAux_ne_nil _ _ _ (by simp)
  cases h : hexNat n with
  | nil => exact absurd h this
  | cons a l => rfl

theorem parseHex_hexNat (n : Nat) : parseHex (hexNat n) = n := by
  simp [parseHex, hexNat, hexAux_val (n + 1) n [] (by omega)]

theorem hexNat_nolf (n : Nat) : (10 : UInt8) ∉ hexNat n := by
  intro h
  have := hexNat_all n _ h
  revert this; decide


/-! ### chunked coding -/

private theorem takeWhile_all {α : Type} (p : α → Bool) (l : List α) (h : ∀ a ∈ l, p a = true) :
    l.takeWhile p = l := by
  induction l with
  | nil => rfl
  | cons a l ih =>
    simp only [List.takeWhile_cons, h a List.mem_cons_self, if_true]
    rw [ih (fun x hx => h x (List.mem_cons_of_mem _ hx))]

theorem encodeChunked_nil (tr : List (Bytes × Bytes)) (rest : Bytes) :
    encodeChunked [] tr ++ rest = [48] ++ 13 :: 10 :: (fieldLines tr ++ crlf ++ rest) := by
  simp [encodeChunked, crlf]

theorem encodeChunked_cons (c : Bytes) (cs : List Bytes) (tr : List (Bytes × Bytes)) (rest : Bytes) :
    encodeChunked (c :: cs) tr ++ rest =
      hexNat c.length ++ 13 :: 10 :: (c ++ 13 :: 10 :: (encodeChunked cs tr ++ rest)) := by
  simp [encodeChunked, encodeChunk, crlf]

theorem length_le_encodeChunked (cs : List Bytes) (tr : List (Bytes × Bytes)) (rest : Bytes) :
    cs.length < (encodeChunked cs tr ++ rest).length + 1 := by
  induction cs with
  | nil => simp
  | cons c cs ih =>
    rw [encodeChunked_cons]
    simp only [List.length_cons, List.length_append] at ih ⊢
    omega

theorem decodeChunkedAux_encode (cs : List Bytes) (tr : List (Bytes × Bytes)) (fuel : Nat) (rest : Bytes)
    (hc : ∀ c ∈ cs, c ≠ []) (ht : ∀ f ∈ tr, LineWF f) (hf : cs.length < fuel) :
    decodeChunkedAux fuel (encodeChunked cs tr ++ rest) = some (cs.flatten, tr.map normField, rest) := by
  induction cs generalizing fuel with
  | nil =>
    cases fuel with
    | zero => omega
    | succ fuel =>
      rw [encodeChunked_nil]
      have h1 : splitLine ([48] ++ 13 :: 10 :: (fieldLines tr ++ crlf ++ rest)) =
          some ([48], fieldLines tr ++ crlf ++ rest) := splitLine_append _ _ (by decide)
      have h2 : List.takeWhile isHexByte [48] = [48] := by decide
      have h3 : parseHex [48] = 0 := by decide
      simp only [decodeChunkedAux, h1, h2, h3, parseFields_fieldLines tr rest ht]
      simp
  | cons c cs ih =>
    cases fuel with
    | zero => omega
    | succ fuel =>
      have ih' := ih fuel (fun g hg => hc g (List.mem_cons_of_mem _ hg)) (by simpa using hf)
      have hcne : c.length ≠ 0 := by
        have := hc c List.mem_cons_self
        cases c with
        | nil => exact absurd rfl this
        | cons a l => simp
      rw [encodeChunked_cons]
      have hdrop : (c ++ 13 :: 10 :: (encodeChunked cs tr ++ rest)).drop (c.length + 2) =
          encodeChunked cs tr ++ rest := by
        rw [← List.drop_drop, List.drop_left]; rfl
      simp only [decodeChunkedAux, splitLine_append _ _ (hexNat_nolf _), takeWhile_all _ _ (hexNat_all _),
        hexNat_ne_nil, parseHex_hexNat, List.drop_length, hdrop, ih', List.drop_left, List.take_left]
      simp [hcne, crlf]

theorem decodeChunked_encode (cs : List Bytes) (tr : List (Bytes × Bytes)) (rest : Bytes)
    (hc : ∀ c ∈ cs, c ≠ []) (ht : ∀ f ∈ tr, LineWF f) :
    decodeChunked (encodeChunked cs tr ++ rest) = some (cs.flatten, tr.map normField, rest) :=
  decodeChunkedAux_encode cs tr _ rest hc ht (length_le_encodeChunked cs tr rest)


/-! ### one response -/

/-- reading the head: what is left is dispatched on the declared framing -/
theorem parseResponse_head (m : Bytes) (r : ClientResp) (tail : Bytes) (hwf : HeadWF r) :
    parseResponse m (headBytes r ++ crlf ++ tail) =
      match bodyKind m r.status ((flatFields r.fields).map normField) with
      | none => none
      | some .none =>
        some ({ minor := r.minor, status := r.status, reason := r.reason,
                fields := (flatFields r.fields).map normField, body := [], trailers := [] }, tail)
      | some (.len n) =>
        if tail.length < n then none
        else some ({ minor := r.minor, status := r.status, reason := r.reason,
                     fields := (flatFields r.fields).map normField, body := tail.take n, trailers := [] },
                   tail.drop n)
      | some .chunked =>
        match decodeChunked tail with
        | none => none
        | some (b, tr, rest') =>
          some ({ minor := r.minor, status := r.status, reason := r.reason,
                  fields := (flatFields r.fields).map normField, body := b, trailers := tr }, rest')
      | some .eof =>
        some ({ minor := r.minor, status := r.status, reason := r.reason,
                fields := (flatFields r.fields).map normField, body := tail, trailers := [] }, []) := by
  have e : headBytes r ++ crlf ++ tail = statusText r.minor r.status r.reason ++
      13 :: 10 :: (fieldLines (flatFields r.fields) ++ crlf ++ tail) := by
    simp [headBytes, statusLine_eq]
  rw [e]
  simp only [parseResponse, splitLine_append _ _ (statusText_nolf _ _ _ hwf.reason_nolf),
    parseStatusLine_statusText _ _ _ hwf.minor_lt hwf.status_lt,
    parseFields_fieldLines _ _ hwf.lines]
  rfl

/-! ### the hypotheses are decidable (concrete instances are discharged by `decide`) -/

theorem lineWF_iff (f : Bytes × Bytes) :
    LineWF f ↔ f.1 ≠ [] ∧ f.1.all isTokenByte = true ∧ (10 : UInt8) ∉ f.2 :=
  ⟨fun h => ⟨h.name_ne, h.name_tok, h.value_nolf⟩, fun h => ⟨h.1, h.2.1, h.2.2⟩⟩

instance (f : Bytes × Bytes) : Decidable (LineWF f) := decidable_of_iff _ (lineWF_iff f).symm

theorem headWF_iff (r : ClientResp) :
    HeadWF r ↔ r.minor < 10 ∧ r.status < 1000 ∧ (10 : UInt8) ∉ r.reason ∧
      ∀ f ∈ flatFields r.fields, LineWF f :=
  ⟨fun h => ⟨h.minor_lt, h.status_lt, h.reason_nolf, h.lines⟩, fun h => ⟨h.1, h.2.1, h.2.2.1, h.2.2.2⟩⟩

instance (r : ClientResp) : Decidable (HeadWF r) := decidable_of_iff _ (headWF_iff r).symm

instance (m : Bytes) (r : ClientResp) : Decidable (FramingDeclared m r) := by
  unfold FramingDeclared
  split <;> infer_instance

instance (r : ClientResp) (chunks : List Bytes) : Decidable (BodyFits r chunks) := by
  unfold BodyFits
  split <;> infer_instance

/-! ### the theorems -/

/-- `HTTP/1.1 200 OK`, `transfer-encoding: chunked`, `trailer: X-T`, `x-a: 1`, `x-a: 2`; keep-alive -/
private def exChunked : ClientResp :=
  { minor := 1, status := 200, reason := [79, 75],
    fields := [([116, 114, 97, 110, 115, 102, 101, 114, 45, 101, 110, 99, 111, 100, 105, 110, 103],
                [[99, 104, 117, 110, 107, 101, 100]]),
               ([116, 114, 97, 105, 108, 101, 114], [[88, 45, 84]]),
               ([120, 45, 97], [[49], [50]])],
    framing := .chunked [[88, 45, 84]], body := .same, keepAlive := true }

/-- `HTTP/1.0 404 Not Found`, `connection: close`; the body ends with the connection -/
private def exEof : ClientResp :=
  { minor := 0, status := 404, reason := [78, 111, 116, 32, 70, 111, 117, 110, 100],
    fields := [([99, 111, 110, 110, 101, 99, 116, 105, 111, 110], [[99, 108, 111, 115, 101]])],
    framing := .eof, body := .same, keepAlive := false }

/-- `HTTP/1.1 200 OK`, `content-length: 3`; keep-alive -/
private def exLen : ClientResp :=
  { minor := 1, status := 200, reason := [79, 75],
    fields := [([99, 111, 110, 116, 101, 110, 116, 45, 108, 101, 110, 103, 116, 104], [[51]])],
    framing := .cl 3, body := .same, keepAlive := true }

/-- the reader consumes exactly one self-delimited response, whatever follows it -/
theorem parseResponse_serialize (m : Bytes) (r : ClientResp) (chunks : List Bytes)
    (trailers : List (Bytes × Bytes)) (rest : Bytes)
    (hwf : HeadWF r) (htr : ∀ f ∈ trailers, LineWF f) (hfd : FramingDeclared m r)
    (hfit : BodyFits r chunks) (hne : r.framing ≠ .eof) :
    parseResponse m (serialize r chunks trailers ++ rest) = some (expected r chunks trailers, rest) := by
  unfold FramingDeclared at hfd
  unfold BodyFits at hfit
  unfold serialize expected wireBody wireTrailers
  cases hfr : r.framing with
  | none =>
    simp only [hfr] at hfd ⊢
    rw [parseResponse_head m r rest hwf, hfd]
    rfl
  | cl n =>
    simp only [hfr] at hfd hfit ⊢
    rw [List.append_assoc, parseResponse_head m r _ hwf, hfd]
    simp only [← hfit.2, List.take_left, List.drop_left, List.length_append]
    simp
  | chunked t =>
    simp only [hfr] at hfd ⊢
    rw [List.append_assoc, parseResponse_head m r _ hwf, hfd]
    simp only [decodeChunked_encode _ _ _ hfit.1 htr]
  | eof => exact absurd hfr hne

/-- two chunks `hi`, `!` and the trailer `X-T: v`, followed by the start of the next response -/
example :
    parseResponse [71, 69, 84]
        (serialize exChunked [[104, 105], [33]] [([88, 45, 84], [118])] ++ [72, 84, 84, 80]) =
      some (expected exChunked [[104, 105], [33]] [([88, 45, 84], [118])], [72, 84, 84, 80]) :=
  parseResponse_serialize _ _ _ _ _ (by decide) (by decide) (by decide) (by decide) (by decide)

example :
    expected exChunked [[104, 105], [33]] [([88, 45, 84], [118])] =
      { minor := 1, status := 200, reason := [79, 75],
        fields := [([116, 114, 97, 110, 115, 102, 101, 114, 45, 101, 110, 99, 111, 100, 105, 110, 103],
                    [99, 104, 117, 110, 107, 101, 100]),
                   ([116, 114, 97, 105, 108, 101, 114], [88, 45, 84]),
                   ([120, 45, 97], [49]), ([120, 45, 97], [50])],
        body := [104, 105, 33], trailers := [([120, 45, 116], [118])] } := by decide

/-- a close-delimited response is read up to the end of the stream -/
theorem parseResponse_serialize_eof (m : Bytes) (r : ClientResp) (chunks : List Bytes)
    (trailers : List (Bytes × Bytes))
    (hwf : HeadWF r) (hfd : FramingDeclared m r) (heof : r.framing = .eof) :
    parseResponse m (serialize r chunks trailers) = some (expected r chunks trailers, []) := by
  unfold FramingDeclared at hfd
  unfold serialize expected wireBody wireTrailers
  simp only [heof] at hfd ⊢
  rw [parseResponse_head m r _ hwf, hfd]
  rfl

example :
    parseResponse [71, 69, 84] (serialize exEof [[110, 111], [112, 101]] []) =
      some (expected exEof [[110, 111], [112, 101]] [], []) :=
  parseResponse_serialize_eof _ _ _ _ (by decide) (by decide) (by decide)

/-- a connection: every served response is read back, k-th to k-th, and nothing is left over -/
theorem parseSeq_connBytes (xs : List Exchange)
    (h : ∀ x ∈ xs, HeadWF x.resp ∧ (∀ f ∈ x.trailers, LineWF f) ∧ FramingDeclared x.method x.resp ∧
        BodyFits x.resp x.chunks ∧ (x.resp.framing = .eof → x.resp.keepAlive = false)) :
    parseSeq ((served xs).map (·.method)) (connBytes xs) = some ((served xs).map Exchange.expected, []) := by
  induction xs with
  | nil => rfl
  | cons x xs ih =>
    obtain ⟨hwf, htr, hfd, hfit, hka⟩ := h x List.mem_cons_self
    have ih' := ih (fun y hy => h y (List.mem_cons_of_mem _ hy))
    unfold connBytes at ih' ⊢
    unfold served
    cases hk : x.resp.keepAlive with
    | true =>
      have hne : x.resp.framing ≠ .eof := fun he => by simp [hka he] at hk
      simp only [if_true, List.map_cons, List.flatMap_cons, parseSeq, Exchange.wire]
      rw [parseResponse_serialize _ _ _ _ _ hwf htr hfd hfit hne]
      simp only [ih']
      rfl
    | false =>
      simp only [Bool.false_eq_true, if_false, List.map_cons, List.map_nil, List.flatMap_cons,
        List.flatMap_nil, parseSeq, Exchange.wire]
      by_cases he : x.resp.framing = .eof
      · rw [List.append_nil, parseResponse_serialize_eof _ _ _ _ hwf hfd he]
        rfl
      · rw [parseResponse_serialize _ _ _ _ _ hwf htr hfd hfit he]
        rfl

/-- a chunked response, a `Content-Length` response, a close-delimited response;
    the fourth exchange is never served -/
example :
    let xs : List Exchange :=
      [⟨[71, 69, 84], exChunked, [[104, 105], [33]], [([88, 45, 84], [118])]⟩,
       ⟨[71, 69, 84], exLen, [[97], [98, 99]], []⟩,
       ⟨[71, 69, 84], exEof, [[110, 111]], []⟩,
       ⟨[71, 69, 84], exLen, [[97, 98, 99]], []⟩]
    parseSeq ((served xs).map (·.method)) (connBytes xs) =
      some ((served xs).map Exchange.expected, []) ∧ (served xs).length = 3 :=
  ⟨parseSeq_connBytes _ (by decide), by decide⟩

end Resp
end FwdVerif
