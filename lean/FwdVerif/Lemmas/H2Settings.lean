/-
  SETTINGS lists with repeated identifiers (RFC 7540 §6.5.3: the values are processed in the order
  in which they appear): the settings-controlled fields of a direction after `applySettings` (the
  code: the values in force, `inForce`), after `applyEach` over the whole list (value by value: the
  loop the code had before the repair of F51) and after `applyEach` over the "last occurrence"
  dedup (`lastOcc`) are the same: the LAST values of their identifiers.  Core-only.
-/
import FwdVerif.Lemmas.H2Flow

namespace FwdVerif
namespace H2

variable {α : Type}

/-- value of identifier `id` in force after the list is processed in order: that of its last
    occurrence; `dflt` (the value before the frame) when it does not occur -/
def lastOf (id : Nat) : Nat → List (Nat × Nat) → Nat
  | dflt, [] => dflt
  | dflt, (i, v) :: t => lastOf id (if i = id then v else dflt) t

/-- `lastOf` for the initial window size, which the relay keeps as an `int` -/
def lastOfInt (id : Nat) : Int → List (Nat × Nat) → Int
  | dflt, [] => dflt
  | dflt, (i, v) :: t => lastOfInt id (if i = id then (v : Int) else dflt) t

/-- the list with only the last occurrence of every identifier kept -/
def lastOcc : List (Nat × Nat) → List (Nat × Nat)
  | [] => []
  | (i, v) :: t => if t.any (fun kv => kv.1 == i) then lastOcc t else (i, v) :: lastOcc t

/-- `SettingsFrame.Value(id)`: the FIRST occurrence -/
def firstVal (id : Nat) : List (Nat × Nat) → Option Nat
  | [] => none
  | (i, v) :: t => if i = id then some v else firstVal id t

/-- a SETTINGS frame applied in a fixed order through `SettingsFrame.Value` (table size, frame
    size, then one window update): what a relay does that does not walk the frame in order -/
def applySettingsFirst (o : Dir α) (ord : Nat → List Nat) (kvs : List (Nat × Nat)) : Dir α × List (QFrame α) :=
  let o1 : Dir α := match firstVal settingHeaderTableSize kvs with
    | some v => { o with tableSize := v }
    | none => o
  let o2 : Dir α := match firstVal settingMaxFrameSize kvs with
    | some v => { o1 with maxFrame := v }
    | none => o1
  match firstVal settingInitialWindowSize kvs with
  | some v => o2.setInitWin (ord 0) v
  | none => (o2, [])

/-- the pattern the repair of F51 follows, in its plainest form: the frame's FINAL values are
    collected first — every identifier once, with the value of its last occurrence (`lastOcc`) — and
    only then are the direction and its queues touched: one `updateInitialWindowSize`, hence one scan
    of the queues, per frame, under the value that is in force once the frame is processed (RFC 7540
    §6.5.3).  The code (`applySettings`, `inForce`) dedups SETTINGS_INITIAL_WINDOW_SIZE and
    SETTINGS_MAX_FRAME_SIZE only; it keeps every SETTINGS_HEADER_TABLE_SIZE value for HPACK. -/
def applySettingsLastOnly (o : Dir α) (ord : Nat → List Nat) (kvs : List (Nat × Nat)) : Dir α × List (QFrame α) :=
  applyEach o ord 0 (lastOcc kvs)

/-- the fields a SETTINGS frame controls -/
def SameCfg (d d' : Dir α) : Prop :=
  d'.initWin = d.initWin ∧ d'.maxFrame = d.maxFrame ∧ d'.tableSize = d.tableSize

theorem SameCfg.refl (d : Dir α) : SameCfg d d := ⟨rfl, rfl, rfl⟩

theorem SameCfg.trans {a b c : Dir α} (h1 : SameCfg a b) (h2 : SameCfg b c) : SameCfg a c :=
  ⟨h2.1.trans h1.1, h2.2.1.trans h1.2.1, h2.2.2.trans h1.2.2⟩

theorem SameCfg.emitOn (d : Dir α) (s : Nat) : SameCfg d (d.emitOn s).1 := by
  rcases d.emitOn_spec s with ⟨_, he⟩ | ⟨_, _, _, he1⟩
  · rw [he]; exact SameCfg.refl d
  · rw [he1]; exact ⟨rfl, rfl, rfl⟩

theorem SameCfg.emitList (d : Dir α) (ss : List Nat) : SameCfg d (d.emitList ss).1 := by
  induction ss generalizing d with
  | nil => exact SameCfg.refl d
  | cons s t ih =>
    simp only [Dir.emitList]
    exact (SameCfg.emitOn d s).trans (ih _)

theorem setInitWin_cfg (d : Dir α) (order : List Nat) (v : Nat) :
    (d.setInitWin order v).1.initWin = v ∧ (d.setInitWin order v).1.maxFrame = d.maxFrame ∧
    (d.setInitWin order v).1.tableSize = d.tableSize := by
  unfold Dir.setInitWin Dir.pass
  have h := SameCfg.emitList ({ d with initWin := v, streams := d.streams.mapWin (· + ((v : Int) - d.initWin)) } : Dir α)
    (order ++ ({ d with initWin := v, streams := d.streams.mapWin (· + ((v : Int) - d.initWin)) } : Dir α).streams.keys)
  exact ⟨h.1, h.2.1, h.2.2⟩

/-- **in order**: after the `ForeachSetting` loop every settings-controlled field holds the value
    of the LAST occurrence of its identifier (or what it held before) -/
theorem applyEach_cfg (o : Dir α) (ord : Nat → List Nat) (k : Nat) (kvs : List (Nat × Nat)) :
    (applyEach o ord k kvs).1.initWin = lastOfInt settingInitialWindowSize o.initWin kvs ∧
    (applyEach o ord k kvs).1.maxFrame = lastOf settingMaxFrameSize o.maxFrame kvs ∧
    (applyEach o ord k kvs).1.tableSize = lastOf settingHeaderTableSize o.tableSize kvs := by
  induction kvs generalizing o k with
  | nil => exact ⟨rfl, rfl, rfl⟩
  | cons kv rest ih =>
    obtain ⟨id, v⟩ := kv
    simp only [H2.applyEach, lastOf, lastOfInt]
    split
    · rename_i hid
      have hc := setInitWin_cfg o (ord k) v
      have := ih (o.setInitWin (ord k) v).1 (k + 1)
      subst hid
      simp only [hc.1, hc.2.1, hc.2.2] at this
      simpa [settingInitialWindowSize, settingMaxFrameSize, settingHeaderTableSize] using this
    · rename_i hid
      split
      · rename_i hid2
        have := ih ({ o with maxFrame := v } : Dir α) k
        subst hid2
        simpa [settingInitialWindowSize, settingMaxFrameSize, settingHeaderTableSize] using this
      · rename_i hid2
        split
        · rename_i hid3
          have := ih ({ o with tableSize := v } : Dir α) k
          subst hid3
          simpa [settingInitialWindowSize, settingMaxFrameSize, settingHeaderTableSize] using this
        · rename_i hid3
          have := ih o k
          simpa [hid, hid2, hid3] using this

theorem lastOf_indep (id : Nat) (x y : Nat) (t : List (Nat × Nat)) (h : t.any (fun kv => kv.1 == id) = true) :
    lastOf id x t = lastOf id y t := by
  induction t generalizing x y with
  | nil => simp at h
  | cons kv rest ih =>
    obtain ⟨i, v⟩ := kv
    simp only [lastOf]
    by_cases hi : i = id
    · simp [hi]
    · simp only [hi, if_false]
      apply ih
      simpa [hi] using h

theorem lastOfInt_indep (id : Nat) (x y : Int) (t : List (Nat × Nat)) (h : t.any (fun kv => kv.1 == id) = true) :
    lastOfInt id x t = lastOfInt id y t := by
  induction t generalizing x y with
  | nil => simp at h
  | cons kv rest ih =>
    obtain ⟨i, v⟩ := kv
    simp only [lastOfInt]
    by_cases hi : i = id
    · simp [hi]
    · simp only [hi, if_false]
      apply ih
      simpa [hi] using h

theorem lastOfInt_absent (id : Nat) (x : Int) (t : List (Nat × Nat)) (h : id ∉ t.map (·.1)) :
    lastOfInt id x t = x := by
  induction t generalizing x with
  | nil => rfl
  | cons kv rest ih =>
    obtain ⟨i, v⟩ := kv
    simp only [List.map_cons, List.mem_cons, not_or] at h
    have hi : ¬ i = id := fun e => h.1 e.symm
    simp only [lastOfInt, hi, if_false]
    exact ih x h.2

/-- a frame that names no identifier twice is its own last-occurrence dedup -/
theorem lastOcc_of_nodup (kvs : List (Nat × Nat)) (h : (kvs.map (·.1)).Nodup) : lastOcc kvs = kvs := by
  induction kvs with
  | nil => rfl
  | cons kv rest ih =>
    obtain ⟨i, v⟩ := kv
    simp only [List.map_cons, List.nodup_cons] at h
    have hany : rest.any (fun kv => kv.1 == i) = false := by
      apply Bool.eq_false_iff.mpr
      intro ht
      obtain ⟨kv, hkv, hi⟩ := List.any_eq_true.mp ht
      exact h.1 (List.mem_map.mpr ⟨kv, hkv, by simpa using hi⟩)
    simp only [lastOcc, hany, Bool.false_eq_true, if_false, ih h.2]

/-- the last-occurrence dedup puts the same values in force -/
theorem lastOf_lastOcc (id : Nat) (d : Nat) (kvs : List (Nat × Nat)) : lastOf id d (lastOcc kvs) = lastOf id d kvs := by
  induction kvs generalizing d with
  | nil => rfl
  | cons kv rest ih =>
    obtain ⟨i, v⟩ := kv
    simp only [lastOcc]
    split
    · rename_i hany
      rw [ih]
      simp only [lastOf]
      by_cases hi : i = id
      · subst hi; exact lastOf_indep i _ _ rest hany
      · simp [hi]
    · simp only [lastOf]; exact ih _

theorem lastOfInt_lastOcc (id : Nat) (d : Int) (kvs : List (Nat × Nat)) :
    lastOfInt id d (lastOcc kvs) = lastOfInt id d kvs := by
  induction kvs generalizing d with
  | nil => rfl
  | cons kv rest ih =>
    obtain ⟨i, v⟩ := kv
    simp only [lastOcc]
    split
    · rename_i hany
      rw [ih]
      simp only [lastOfInt]
      by_cases hi : i = id
      · subst hi; exact lastOfInt_indep i _ _ rest hany
      · simp [hi]
    · simp only [lastOfInt]; exact ih _

theorem mem_lastOcc (kvs : List (Nat × Nat)) : ∀ kv ∈ lastOcc kvs, kv ∈ kvs := by
  induction kvs with
  | nil => intro kv h; simp [lastOcc] at h
  | cons x rest ih =>
    obtain ⟨i, v⟩ := x
    intro kv h
    simp only [lastOcc] at h
    split at h
    · exact List.mem_cons_of_mem _ (ih kv h)
    · rcases List.mem_cons.mp h with h | h
      · rw [h]; exact List.mem_cons_self
      · exact List.mem_cons_of_mem _ (ih kv h)

/-- no identifier occurs twice in the dedup -/
theorem lastOcc_nodup (kvs : List (Nat × Nat)) : ((lastOcc kvs).map (·.1)).Nodup := by
  induction kvs with
  | nil => simp [lastOcc]
  | cons x rest ih =>
    obtain ⟨i, v⟩ := x
    simp only [lastOcc]
    split
    · exact ih
    · rename_i hany
      simp only [List.map_cons, List.nodup_cons]
      refine ⟨?_, ih⟩
      intro hmem
      obtain ⟨kv, hkv, hi⟩ := List.mem_map.mp hmem
      apply hany
      exact List.any_eq_true.mpr ⟨kv, mem_lastOcc rest kv hkv, by simp [hi]⟩

/-! ### `inForce`: the entries `relay.applySettings` acts on -/

/-- skipping the superseded values puts the same values in force -/
theorem lastOf_inForce (id : Nat) (d : Nat) (kvs : List (Nat × Nat)) : lastOf id d (inForce kvs) = lastOf id d kvs := by
  induction kvs generalizing d with
  | nil => rfl
  | cons kv rest ih =>
    obtain ⟨i, v⟩ := kv
    simp only [inForce]
    split
    · rename_i hc
      rw [ih]
      simp only [lastOf]
      by_cases hi : i = id
      · subst hi; exact lastOf_indep i _ _ rest hc.2
      · simp [hi]
    · simp only [lastOf]; exact ih _

theorem lastOfInt_inForce (id : Nat) (d : Int) (kvs : List (Nat × Nat)) :
    lastOfInt id d (inForce kvs) = lastOfInt id d kvs := by
  induction kvs generalizing d with
  | nil => rfl
  | cons kv rest ih =>
    obtain ⟨i, v⟩ := kv
    simp only [inForce]
    split
    · rename_i hc
      rw [ih]
      simp only [lastOfInt]
      by_cases hi : i = id
      · subst hi; exact lastOfInt_indep i _ _ rest hc.2
      · simp [hi]
    · simp only [lastOfInt]; exact ih _

/-- a frame that names no identifier twice is applied entry by entry, as it is -/
theorem inForce_of_nodup (kvs : List (Nat × Nat)) (h : (kvs.map (·.1)).Nodup) : inForce kvs = kvs := by
  induction kvs with
  | nil => rfl
  | cons kv rest ih =>
    obtain ⟨i, v⟩ := kv
    simp only [List.map_cons, List.nodup_cons] at h
    have hany : ¬ rest.any (fun kv => kv.1 == i) = true := by
      intro ht
      obtain ⟨kv, hkv, hi⟩ := List.any_eq_true.mp ht
      exact h.1 (List.mem_map.mpr ⟨kv, hkv, by simpa using hi⟩)
    simp [inForce, hany, ih h.2]

theorem mem_inForce (kvs : List (Nat × Nat)) : ∀ kv ∈ inForce kvs, kv ∈ kvs := by
  induction kvs with
  | nil => intro kv h; simp [inForce] at h
  | cons x rest ih =>
    obtain ⟨i, v⟩ := x
    intro kv h
    simp only [inForce] at h
    split at h
    · exact List.mem_cons_of_mem _ (ih kv h)
    · rcases List.mem_cons.mp h with h | h
      · rw [h]; exact List.mem_cons_self
      · exact List.mem_cons_of_mem _ (ih kv h)

/-- **the code**: after `relay.applySettings` every settings-controlled field holds the value of the
    LAST occurrence of its identifier in the frame (or what it held before) -/
theorem applySettings_cfg (o : Dir α) (ord : Nat → List Nat) (kvs : List (Nat × Nat)) :
    (applySettings o ord kvs).1.initWin = lastOfInt settingInitialWindowSize o.initWin kvs ∧
    (applySettings o ord kvs).1.maxFrame = lastOf settingMaxFrameSize o.maxFrame kvs ∧
    (applySettings o ord kvs).1.tableSize = lastOf settingHeaderTableSize o.tableSize kvs := by
  have h := applyEach_cfg o ord 0 (inForce kvs)
  rw [lastOfInt_inForce, lastOf_inForce, lastOf_inForce] at h
  exact h

end H2
end FwdVerif
