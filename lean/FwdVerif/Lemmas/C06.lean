/-
  C06 — helper lemmas (core Lean only).

  §1 header maps: "no key that folds to n" (`NoKeyFold`) through every modifier of the pipeline
  §2 `mergeFields`: the values under a name in the merged list
  §3 what `writeRequest` / the CONNECT heads put under `proxy-authorization` and `authorization`
-/
import FwdVerif.Model.C06
import FwdVerif.Lemmas.C04
import FwdVerif.Lemmas.C05

namespace FwdVerif
namespace C06

open Ascii Req
open C16 (HMap goDel goSet goAdd Rule applyRule applyRules CanonKeys)

/-! ## §1 -/

/-- no key of the map is a spelling of the name `n` -/
def NoKeyFold (n : Bytes) (h : HMap) : Prop := ∀ e ∈ h, lower e.1 ≠ lower n

theorem NoKeyFold.nil (n : Bytes) : NoKeyFold n [] := fun _ he => by cases he

theorem NoKeyFold.erase {n : Bytes} {h : HMap} (c : Bytes) (hn : NoKeyFold n h) : NoKeyFold n (HMap.erase h c) :=
  fun e he => hn e (List.mem_filter.mp he).1

theorem NoKeyFold.filter {n : Bytes} {h : HMap} (p : Bytes × List Bytes → Bool) (hn : NoKeyFold n h) :
    NoKeyFold n (h.filter p) :=
  fun e he => hn e (List.mem_filter.mp he).1

theorem NoKeyFold.put {n : Bytes} {h : HMap} {c : Bytes} (vs : List Bytes) (hn : NoKeyFold n h)
    (hc : lower c ≠ lower n) : NoKeyFold n (HMap.put h c vs) := by
  intro e he
  rcases C16.mem_put he with he | rfl
  · exact hn e he
  · exact hc

theorem NoKeyFold.goDel {n : Bytes} {h : HMap} (m : Bytes) (hn : NoKeyFold n h) : NoKeyFold n (goDel h m) :=
  hn.erase _

theorem NoKeyFold.goSet {n : Bytes} {h : HMap} {m : Bytes} (v : Bytes) (hn : NoKeyFold n h)
    (hm : lower m ≠ lower n) : NoKeyFold n (goSet h m v) :=
  hn.put _ (by rw [C16.lower_canonicalKey]; exact hm)

theorem NoKeyFold.goAdd {n : Bytes} {h : HMap} {m : Bytes} (v : Bytes) (hn : NoKeyFold n h)
    (hm : lower m ≠ lower n) : NoKeyFold n (goAdd h m v) :=
  hn.put _ (by rw [C16.lower_canonicalKey]; exact hm)

theorem NoKeyFold.foldl_goDel {n : Bytes} (names : List Bytes) {h : HMap} (hn : NoKeyFold n h) :
    NoKeyFold n (names.foldl (fun h k => C16.goDel h k) h) := by
  induction names generalizing h with
  | nil => exact hn
  | cons k ks ih => exact ih (hn.goDel k)

theorem NoKeyFold.applyRule {n : Bytes} {h : HMap} {r : Rule} (hn : NoKeyFold n h) (hr : lower r.name ≠ lower n) :
    NoKeyFold n (applyRule h r) := by
  cases r with
  | remove m => exact hn.goDel m
  | removePrefix m => exact hn.filter _
  | empty m => exact hn.goSet _ hr
  | add m v => exact hn.goAdd _ hr
  | rename m =>
    show NoKeyFold n (C16.renameCase h m)
    unfold C16.renameCase
    simp only []
    cases HMap.get h (canonicalKey m) with
    | none => exact hn
    | some vs =>
      show NoKeyFold n (if (m != canonicalKey m) = true then _ else _)
      split
      · exact (hn.put _ hr).erase _
      · exact hn

theorem NoKeyFold.applyRules {n : Bytes} (rs : List Rule) {h : HMap} (hn : NoKeyFold n h)
    (hr : ∀ r ∈ rs, lower r.name ≠ lower n) : NoKeyFold n (applyRules rs h) := by
  unfold C16.applyRules
  induction rs generalizing h with
  | nil => exact hn
  | cons r rs ih =>
    exact ih (hn.applyRule (hr r List.mem_cons_self)) (fun r' hr' => hr r' (List.mem_cons_of_mem _ hr'))

/-- on a map with canonical keys, a missing canonical key means no spelling of the name is present -/
theorem NoKeyFold.of_lookup_none {n : Bytes} {h : HMap} (hc : CanonKeys h) (ht : n.all isTokenByte = true)
    (hl : h.lookup (canonicalKey n) = none) : NoKeyFold n h := by
  intro e he hfold
  have hk : e.1 = canonicalKey n := (C16.lower_eq_iff_of_canon (hc e he) ht).mp hfold
  have : (h.lookup e.1).isSome = true := by
    have hm : e.1 ∈ h.map (·.1) := List.mem_map.mpr ⟨e, he, rfl⟩
    clear hk hfold hl
    induction h with
    | nil => cases he
    | cons x xs ih =>
      obtain ⟨k, vs⟩ := x
      rw [List.lookup_cons]
      by_cases hkk : e.1 = k
      · simp [hkk]
      · have : (e.1 == k) = false := by simpa using hkk
        rw [this]
        rcases List.mem_cons.mp he with rfl | he'
        · exact absurd rfl hkk
        · exact ih (fun e' he'' => hc e' (List.mem_cons_of_mem _ he'')) he' (List.mem_map.mpr ⟨e, he', rfl⟩)
  rw [hk, hl] at this
  cases this

theorem CanonKeys.erase' {h : HMap} (c : Bytes) (hc : CanonKeys h) : CanonKeys (HMap.erase h c) :=
  C16.CanonKeys.sublist (C16.erase_sublist h c) hc

theorem CanonKeys.goDel {h : HMap} (m : Bytes) (hc : CanonKeys h) : CanonKeys (C16.goDel h m) := CanonKeys.erase' _ hc

theorem CanonKeys.goSet {h : HMap} (m v : Bytes) (hc : CanonKeys h) : CanonKeys (C16.goSet h m v) :=
  C16.CanonKeys.put _ hc (C16.canonicalKey_idem m)

theorem CanonKeys.goAdd {h : HMap} (m v : Bytes) (hc : CanonKeys h) : CanonKeys (C16.goAdd h m v) :=
  C16.CanonKeys.put _ hc (C16.canonicalKey_idem m)

theorem CanonKeys.foldl_goDel (names : List Bytes) {h : HMap} (hc : CanonKeys h) :
    CanonKeys (names.foldl (fun h k => C16.goDel h k) h) := by
  induction names generalizing h with
  | nil => exact hc
  | cons k ks ih => exact ih (CanonKeys.goDel k hc)

theorem canonKeys_toHeader (fs : List (Bytes × Bytes)) : CanonKeys (toHeader fs) := by
  unfold toHeader
  have : ∀ (h : HMap), CanonKeys h → CanonKeys (fs.foldl (fun h f => C16.goAdd h f.1 f.2) h) := by
    induction fs with
    | nil => intro h hc; exact hc
    | cons f fs ih => intro h hc; exact ih _ (CanonKeys.goAdd _ _ hc)
  exact this [] (fun _ he => by cases he)

theorem canonKeys_removeHopByHop {h : HMap} (hc : CanonKeys h) : CanonKeys (removeHopByHop h) := by
  unfold removeHopByHop
  exact CanonKeys.foldl_goDel _ (CanonKeys.foldl_goDel _ hc)

/-- after hop-by-hop removal no spelling of a static hop-by-hop name is left (on canonical-key maps) -/
theorem noKeyFold_removeHopByHop {h : HMap} {n : Bytes} (hc : CanonKeys h) (hn : n ∈ hopByHopNames)
    (ht : n.all isTokenByte = true) : NoKeyFold n (removeHopByHop h) :=
  NoKeyFold.of_lookup_none (canonKeys_removeHopByHop hc) ht (C04.removeHopByHop_static h hn)

/-! ## §2 `mergeFields` -/

/-- the values the field lines named `n` carry, in order -/
def valuesFor (n : Bytes) (fs : List (Bytes × List Bytes)) : List Bytes :=
  (fs.filter (fun e => e.1 == n)).flatMap (·.2)

theorem valuesFor_append (n : Bytes) (a b : List (Bytes × List Bytes)) :
    valuesFor n (a ++ b) = valuesFor n a ++ valuesFor n b := by
  unfold valuesFor
  rw [List.filter_append, List.flatMap_append]

theorem valuesFor_of_ne {n : Bytes} {fs : List (Bytes × List Bytes)} (h : ∀ e ∈ fs, e.1 ≠ n) : valuesFor n fs = [] := by
  unfold valuesFor
  have : fs.filter (fun e => e.1 == n) = [] := by
    apply List.filter_eq_nil_iff.mpr
    intro e he
    simpa using h e he
  rw [this]; rfl

theorem valuesFor_singleton_self (n : Bytes) (vs : List Bytes) : valuesFor n [(n, vs)] = vs := by
  simp [valuesFor]

def mergeStep (acc : List (Bytes × List Bytes)) (f : Bytes × List Bytes) : List (Bytes × List Bytes) :=
  if acc.any (fun e => e.1 == f.1) then acc.map (fun e => if e.1 == f.1 then (e.1, e.2 ++ f.2) else e)
  else acc ++ [f]

theorem mergeFields_eq (fs : List (Bytes × List Bytes)) : mergeFields fs = fs.foldl mergeStep [] := rfl

def MergeInv (acc done : List (Bytes × List Bytes)) : Prop :=
  (∀ e ∈ acc, e.2 = valuesFor e.1 done) ∧ (∀ d ∈ done, ∃ e ∈ acc, e.1 = d.1)

theorem MergeInv.step {acc done : List (Bytes × List Bytes)} (f : Bytes × List Bytes) (hi : MergeInv acc done) :
    MergeInv (mergeStep acc f) (done ++ [f]) := by
  obtain ⟨h1, h2⟩ := hi
  unfold mergeStep
  split
  · rename_i hany
    constructor
    · intro e' he'
      obtain ⟨e, he, rfl⟩ := List.mem_map.mp he'
      by_cases hk : (e.1 == f.1) = true
      · have hkf : (f.1 == e.1) = true := by
          have := (beq_iff_eq.mp hk); simp [this]
        simp only [hk, if_true, valuesFor_append]
        rw [← h1 e he]
        simp [valuesFor, hkf]
      · have hk' : (e.1 == f.1) = false := by simpa using hk
        have hkf : (f.1 == e.1) = false := by
          simp only [beq_eq_false_iff_ne, ne_eq] at hk' ⊢
          exact fun h => hk' h.symm
        simp only [hk', Bool.false_eq_true, if_false, valuesFor_append]
        rw [← h1 e he]
        simp [valuesFor, hkf]
    · intro d hd
      rcases List.mem_append.mp hd with hd | hd
      · obtain ⟨e, he, hek⟩ := h2 d hd
        refine ⟨_, List.mem_map.mpr ⟨e, he, rfl⟩, ?_⟩
        split <;> exact hek
      · have : d = f := by simpa using hd
        subst this
        obtain ⟨e, he, hk⟩ := List.any_eq_true.mp hany
        refine ⟨_, List.mem_map.mpr ⟨e, he, rfl⟩, ?_⟩
        simp only [hk, if_true]
        exact beq_iff_eq.mp hk
  · rename_i hany
    have hno : ∀ e ∈ acc, (e.1 == f.1) = false := by
      intro e he
      cases hk : (e.1 == f.1) with
      | false => rfl
      | true => exact absurd (List.any_eq_true.mpr ⟨e, he, hk⟩) hany
    constructor
    · intro e he
      rcases List.mem_append.mp he with he | he
      · have hkf : (f.1 == e.1) = false := by
          have := hno e he
          simp only [beq_eq_false_iff_ne, ne_eq] at this ⊢
          exact fun h => this h.symm
        rw [valuesFor_append, ← h1 e he]
        simp [valuesFor, hkf]
      · have : e = f := by simpa using he
        subst this
        rw [valuesFor_append, valuesFor_singleton_self]
        have : valuesFor e.1 done = [] := by
          apply valuesFor_of_ne
          intro d hd hdk
          obtain ⟨a, ha, hak⟩ := h2 d hd
          have := hno a ha
          rw [hak, hdk] at this
          simp at this
        rw [this]; rfl
    · intro d hd
      rcases List.mem_append.mp hd with hd | hd
      · obtain ⟨e, he, hek⟩ := h2 d hd
        exact ⟨e, List.mem_append_left _ he, hek⟩
      · have : d = f := by simpa using hd
        subst this
        exact ⟨d, List.mem_append_right _ (by simp), rfl⟩

theorem MergeInv.foldl (fs : List (Bytes × List Bytes)) {acc done : List (Bytes × List Bytes)} (hi : MergeInv acc done) :
    MergeInv (fs.foldl mergeStep acc) (done ++ fs) := by
  induction fs generalizing acc done with
  | nil => simpa using hi
  | cons f fs ih =>
    have := ih (hi.step f)
    simpa [List.append_assoc] using this

/-- in the merged list every entry carries exactly the values of the field lines with its name -/
theorem mem_mergeFields {fs : List (Bytes × List Bytes)} {e : Bytes × List Bytes} (he : e ∈ mergeFields fs) :
    e.2 = valuesFor e.1 fs := by
  have h0 : MergeInv [] [] := ⟨fun _ h => (by cases h), fun _ h => (by cases h)⟩
  have := (MergeInv.foldl fs h0).1 e
  rw [mergeFields_eq] at he
  simpa using this he

/-! ## §3 the credential-bearing fields of the messages written upstream -/

theorem valuesFor_lowerFields_of_noKeyFold {N : Bytes} {h : HMap} (p : Bytes × List Bytes → Bool)
    (hn : NoKeyFold N h) : valuesFor (lower N) (lowerFields (h.filter p)) = [] := by
  apply valuesFor_of_ne
  intro e he
  unfold lowerFields at he
  obtain ⟨e', he', rfl⟩ := List.mem_map.mp he
  exact hn e' (List.mem_filter.mp he').1

theorem lower_PA : lower (bs "Proxy-Authorization") = bs "proxy-authorization" := by with_unfolding_all decide
theorem lower_Auth : lower (bs "Authorization") = bs "authorization" := by with_unfolding_all decide
theorem token_PA : (bs "Proxy-Authorization").all isTokenByte = true := by with_unfolding_all decide

/-- names of the fields `Request.write` generates itself -/
theorem generatedNames_ne_pa :
    bs "host" ≠ bs "proxy-authorization" ∧ bs "user-agent" ≠ bs "proxy-authorization" ∧
    bs "connection" ≠ bs "proxy-authorization" ∧ bs "transfer-encoding" ≠ bs "proxy-authorization" ∧
    bs "trailer" ≠ bs "proxy-authorization" ∧ bs "content-length" ≠ bs "proxy-authorization" ∧
    bs "accept-encoding" ≠ bs "proxy-authorization" := by with_unfolding_all decide

/-- the Proxy-Authorization value the transport adds on this hop -/
def hopProxyAuth (hop : Hop) (auth : Option Bytes) (scheme : Bytes) : List Bytes :=
  match auth with
  | some a => if hop.speaksProxy && scheme == bs "http" then [a] else []
  | none => []

/-- in the message a hop receives, the field lines named proxy-authorization carry the configured
    upstream credential (when the hop is an HTTP(S) proxy and the request is plain http) and nothing
    else — provided the header map handed to `Request.write` has no key spelling that name -/
theorem writeRequest_proxyAuth {hop : Hop} {auth : Option Bytes} {g : GoReq}
    (hn : NoKeyFold (bs "Proxy-Authorization") g.header) {e : Bytes × List Bytes}
    (he : e ∈ (writeRequest hop auth g).fields) (hname : e.1 = bs "proxy-authorization") :
    e.2 = hopProxyAuth hop auth g.scheme := by
  have h := mem_mergeFields (fs := _) (by unfold writeRequest at he; exact he)
  rw [hname] at h
  simp only [valuesFor_append] at h
  obtain ⟨n1, n2, n3, n4, n5, n6, n7⟩ := generatedNames_ne_pa
  have p5 := valuesFor_lowerFields_of_noKeyFold
    (fun e => ![bs "Host", bs "User-Agent", bs "Content-Length", bs "Transfer-Encoding", bs "Trailer"].contains e.fst) hn
  rw [lower_PA] at p5
  rw [p5] at h
  -- host
  rw [valuesFor_of_ne (fs := [(bs "host", [g.host])])
    (by intro e he; simp only [List.mem_singleton] at he; subst he; exact n1)] at h
  -- User-Agent
  rw [valuesFor_of_ne (by
    intro e he
    split at he
    · split at he
      · cases he
      · simp only [List.mem_singleton] at he; subst he; exact n2
    · cases he)] at h
  -- Connection: close
  rw [valuesFor_of_ne (by
    intro e he
    split at he
    · simp only [List.mem_singleton] at he; subst he; exact n3
    · cases he)] at h
  -- framing
  rw [valuesFor_of_ne (by
    intro e he
    split at he
    · simp only [List.mem_append, List.mem_singleton] at he
      rcases he with he | he
      · subst he; exact n4
      · split at he
        · cases he
        · simp only [List.mem_singleton] at he; subst he; exact n5
    · split at he
      · simp only [List.mem_singleton] at he; subst he; exact n6
      · cases he)] at h
  -- Accept-Encoding
  rw [valuesFor_of_ne (by
    intro e he
    split at he
    · simp only [List.mem_singleton] at he; subst he; exact n7
    · cases he)] at h
  simp only [List.nil_append, List.append_nil] at h
  rw [h]
  unfold hopProxyAuth Hop.speaksProxy
  cases hop <;> cases auth <;> simp only [] <;> (try split) <;> simp_all [valuesFor]

/-! ## §4 the Proxy-Authorization name through the request pipeline -/

abbrev PA : Bytes := bs "Proxy-Authorization"

def RulesAvoid (n : Bytes) (rs : List Rule) : Prop := ∀ r ∈ rs, lower r.name ≠ lower n

theorem managedNames_ne_PA :
    lower (bs "X-Forwarded-Proto") ≠ lower PA ∧ lower (bs "X-Forwarded-Host") ≠ lower PA ∧
    lower (bs "X-Forwarded-Url") ≠ lower PA ∧ lower (bs "X-Forwarded-For") ≠ lower PA ∧
    lower (bs "Content-Length") ≠ lower PA ∧ lower (bs "Via") ≠ lower PA ∧ lower (bs "Authorization") ≠ lower PA ∧
    lower (bs "User-Agent") ≠ lower PA ∧ lower (bs "Connection") ≠ lower PA ∧ lower (bs "Upgrade") ≠ lower PA := by
  with_unfolding_all decide

theorem noKeyFold_forwarded {ctx : Ctx} {g : GoReq} (hn : NoKeyFold PA g.header) : NoKeyFold PA (forwarded ctx g) := by
  obtain ⟨m1, m2, m3, m4, _⟩ := managedNames_ne_PA
  unfold forwarded
  simp only []
  apply NoKeyFold.goSet _ _ m4
  split <;> split <;> split <;>
    first
    | exact hn
    | exact hn.goSet _ m1
    | exact hn.goSet _ m2
    | exact hn.goSet _ m3
    | exact (hn.goSet _ m1).goSet _ m2
    | exact (hn.goSet _ m1).goSet _ m3
    | exact (hn.goSet _ m2).goSet _ m3
    | exact ((hn.goSet _ m1).goSet _ m2).goSet _ m3

theorem noKeyFold_badFraming {h h' : HMap} (hn : NoKeyFold PA h) (hb : badFraming h = some h') : NoKeyFold PA h' := by
  obtain ⟨_, _, _, _, m5, _⟩ := managedNames_ne_PA
  unfold badFraming at hb
  split at hb
  · injection hb with hb; subst hb; exact hn
  · simp only [] at hb
    split at hb
    · injection hb with hb; subst hb; exact hn
    · split at hb
      · injection hb with hb; subst hb; exact hn.goSet _ m5
      · cases hb

theorem noKeyFold_viaStep {cfg : Cfg} {minor : Nat} {h h' : HMap} (hn : NoKeyFold PA h)
    (hv : viaStep cfg minor h = some h') : NoKeyFold PA h' := by
  obtain ⟨_, _, _, _, _, m6, _⟩ := managedNames_ne_PA
  unfold viaStep at hv
  simp only [] at hv
  split at hv
  · cases hv
  · injection hv with hv; subst hv; exact hn.goSet _ m6

theorem noKeyFold_siteStep (site : Option Bytes) {h : HMap} (hn : NoKeyFold PA h) :
    NoKeyFold PA (match site with
      | some a => if (goGet h (bs "Authorization")).isEmpty then C16.goSet h (bs "Authorization") a else h
      | none => h) := by
  obtain ⟨_, _, _, _, _, _, m7, _⟩ := managedNames_ne_PA
  cases site with
  | none => exact hn
  | some a =>
    simp only []
    split
    · exact hn.goSet _ m7
    · exact hn

theorem noKeyFold_uaStep {h : HMap} (hn : NoKeyFold PA h) :
    NoKeyFold PA (if (HMap.get h (bs "User-Agent")).isNone then C16.goSet h (bs "User-Agent") [] else h) := by
  obtain ⟨_, _, _, _, _, _, _, m8, _⟩ := managedNames_ne_PA
  split
  · exact hn.goSet _ m8
  · exact hn

theorem noKeyFold_upStep (upType : Bytes) {h : HMap} (hn : NoKeyFold PA h) :
    NoKeyFold PA (if upType.isEmpty then h
      else C16.goSet (C16.goSet h (bs "Connection") (bs "Upgrade")) (bs "Upgrade") upType) := by
  obtain ⟨_, _, _, _, _, _, _, _, m9, m10⟩ := managedNames_ne_PA
  split
  · exact hn
  · exact (hn.goSet _ m9).goSet _ m10

/-- the modifiers that run after Via: user rules, site credentials, empty User-Agent, upgrade re-add -/
theorem noKeyFold_tail {cfg : Cfg} {h : HMap} (upType : Bytes) (hn : NoKeyFold PA h) (hr : RulesAvoid PA cfg.rules) :
    NoKeyFold PA
      (let h5 := applyRules cfg.rules h
       let h6 := match cfg.siteCred with
         | some a => if (goGet h5 (bs "Authorization")).isEmpty then C16.goSet h5 (bs "Authorization") a else h5
         | none => h5
       let h7 := if (HMap.get h6 (bs "User-Agent")).isNone then C16.goSet h6 (bs "User-Agent") [] else h6
       if upType.isEmpty then h7
       else C16.goSet (C16.goSet h7 (bs "Connection") (bs "Upgrade")) (bs "Upgrade") upType) :=
  noKeyFold_upStep upType (noKeyFold_uaStep (noKeyFold_siteStep cfg.siteCred (hn.applyRules cfg.rules hr)))

/-- the Proxy-Authorization value configured for the selected upstream proxy -/
def upstreamAuth : Upstream → Option Bytes
  | .http _ a => a
  | .https _ a => a
  | .other _ _ a => a
  | _ => none

theorem hopProxyAuth_cases (hop : Hop) (auth : Option Bytes) (scheme : Bytes) :
    hopProxyAuth hop auth scheme = [] ∨ ∃ a, auth = some a ∧ hop.speaksProxy = true ∧ hopProxyAuth hop auth scheme = [a] := by
  unfold hopProxyAuth
  cases auth with
  | none => exact Or.inl rfl
  | some a =>
    simp only []
    split
    · rename_i h
      simp only [Bool.and_eq_true] at h
      exact Or.inr ⟨a, rfl, h.1, rfl⟩
    · exact Or.inl rfl

theorem fwd_ite {c : Prop} [Decidable c] {h1 h2 hop : Hop} {o1 o2 out : OutMsg}
    (h : (if c then Outcome.forwarded h1 o1 else Outcome.forwarded h2 o2) = Outcome.forwarded hop out) :
    (h1 = hop ∧ o1 = out) ∨ (h2 = hop ∧ o2 = out) := by
  split at h
  · injection h with a b; exact Or.inl ⟨a, b⟩
  · injection h with a b; exact Or.inr ⟨a, b⟩

theorem speaksProxy_direct (a : Bytes) : (Hop.direct a).speaksProxy = false := rfl
theorem speaksProxy_socks (a : Bytes) : (Hop.socks a).speaksProxy = false := rfl

/-- whatever the client sent: in a forwarded request the field lines named proxy-authorization carry
    nothing, or exactly the credential configured for the upstream proxy the message is written to -/
theorem processRequest_proxyAuth {cfg : Cfg} {ctx : Ctx} {r : Request} {g0 : GoReq} {hop : Hop} {out : OutMsg}
    (hr : readRequest r = .ok g0) (hc : CanonKeys g0.header) (hrules : RulesAvoid PA cfg.rules)
    (hf : Req.processRequest cfg ctx r = .forwarded hop out)
    {e : Bytes × List Bytes} (he : e ∈ out.fields) (hname : e.1 = bs "proxy-authorization") :
    e.2 = [] ∨ ∃ a, upstreamAuth cfg.upstream = some a ∧ hop.speaksProxy = true ∧ e.2 = [a] := by
  unfold Req.processRequest at hf
  rw [hr] at hf
  simp only [] at hf
  split at hf
  · cases hf
  · split at hf
    · cases hf
    · rename_i h3 hb
      split at hf
      · cases hf
      · rename_i h4 hv
        have hn1 := noKeyFold_removeHopByHop (n := PA) hc C04.mem_hop_proxyAuthorization token_PA
        have hn4 := noKeyFold_viaStep (noKeyFold_badFraming (noKeyFold_forwarded (ctx := ctx) (g := _) hn1) hb) hv
        have hn8 := noKeyFold_tail (cfg := cfg) (upgradeType g0.header) hn4 hrules
        split at hf
        · -- no upstream
          injection hf with h1 h2; subst h1 h2
          rw [writeRequest_proxyAuth hn8 he hname]
          exact Or.inl rfl
        · -- http proxy
          rename_i hp auth hup
          rcases fwd_ite hf with ⟨h1, h2⟩ | ⟨h1, h2⟩
          · subst h1 h2
            rw [writeRequest_proxyAuth hn8 he hname]
            rcases hopProxyAuth_cases (Hop.proxy hp) auth _ with h | ⟨a, h1, h2, h3⟩
            · exact Or.inl h
            · exact Or.inr ⟨a, by rw [hup]; exact h1, h2, h3⟩
          · subst h1 h2
            rw [writeRequest_proxyAuth hn8 he hname]
            exact Or.inl rfl
        · -- https proxy
          rename_i hp auth hup
          rcases fwd_ite hf with ⟨h1, h2⟩ | ⟨h1, h2⟩
          · subst h1 h2
            rw [writeRequest_proxyAuth hn8 he hname]
            rcases hopProxyAuth_cases (Hop.tlsProxy hp) auth _ with h | ⟨a, h1, h2, h3⟩
            · exact Or.inl h
            · exact Or.inr ⟨a, by rw [hup]; exact h1, h2, h3⟩
          · subst h1 h2
            rw [writeRequest_proxyAuth hn8 he hname]
            exact Or.inl rfl
        · -- socks5
          injection hf with h1 h2; subst h1 h2
          rw [writeRequest_proxyAuth hn8 he hname]
          exact Or.inl rfl
        · -- other scheme
          rename_i sc hp auth hup
          rcases fwd_ite hf with ⟨h1, h2⟩ | ⟨h1, h2⟩
          · subst h1 h2
            rw [writeRequest_proxyAuth hn8 he hname]
            rcases hopProxyAuth_cases (Hop.otherProxy sc hp) auth _ with h | ⟨a, h1, h2, h3⟩
            · exact Or.inl h
            · exact Or.inr ⟨a, by rw [hup]; exact h1, h2, h3⟩
          · subst h1 h2
            rw [writeRequest_proxyAuth hn8 he hname]
            exact Or.inl rfl
        · cases hf

/-! ## §5 CONNECT heads -/

theorem mem_valuesFor {n v : Bytes} {fs : List (Bytes × List Bytes)} (h : v ∈ valuesFor n fs) :
    ∃ x ∈ fs, x.1 = n ∧ v ∈ x.2 := by
  unfold valuesFor at h
  obtain ⟨x, hx, hv⟩ := List.mem_flatMap.mp h
  obtain ⟨hx1, hx2⟩ := List.mem_filter.mp hx
  exact ⟨x, hx1, beq_iff_eq.mp hx2, hv⟩

theorem mem_mapsCopy {dst src : HMap} {e : Bytes × List Bytes} (h : e ∈ mapsCopy dst src) : e ∈ dst ∨ e ∈ src := by
  unfold mapsCopy at h
  induction src generalizing dst with
  | nil => exact Or.inl h
  | cons x xs ih =>
    simp only [List.foldl_cons] at h
    rcases ih h with h' | h'
    · rcases C16.mem_put h' with h'' | h''
      · exact Or.inl h''
      · exact Or.inr (by rw [h'']; exact List.mem_cons_self)
    · exact Or.inr (List.mem_cons_of_mem _ h')

theorem lower_UA_ne_PA : lower (bs "User-Agent") ≠ lower PA := by with_unfolding_all decide
theorem host_ne_pa : bs "host" ≠ bs "proxy-authorization" := by with_unfolding_all decide
theorem ua_ne_pa : bs "user-agent" ≠ bs "proxy-authorization" := by with_unfolding_all decide

theorem userAgentField_names {m : HMap} {d : Bytes} {x : Bytes × List Bytes} (h : x ∈ userAgentField m d) :
    x.1 = bs "user-agent" := by
  unfold userAgentField at h
  split at h
  · split at h
    · cases h
    · simp only [List.mem_singleton] at h; rw [h]
  · cases h
  · split at h
    · cases h
    · simp only [List.mem_singleton] at h; rw [h]

/-- CONNECT head written by dialvia for a client CONNECT: every value under proxy-authorization is the
    credential of the upstream proxy (from its URL / the credentials table) -/
theorem dialviaConnectHead_proxyAuth {authority : Bytes} {proxyAuth : Option Bytes} {h extra : HMap}
    (hn : NoKeyFold PA h) (hx : NoKeyFold PA extra) {e : Bytes × List Bytes}
    (he : e ∈ (dialviaConnectHead authority proxyAuth h extra).fields) (hname : e.1 = bs "proxy-authorization")
    {v : Bytes} (hv : v ∈ e.2) : proxyAuth = some v := by
  have hm := mem_mergeFields (fs := _) (by unfold dialviaConnectHead at he; exact he)
  rw [hname] at hm
  rw [hm] at hv
  obtain ⟨x, hxm, hx1, hxv⟩ := mem_valuesFor hv
  simp only [List.mem_append, List.mem_singleton] at hxm
  rcases hxm with (hxm | hxm) | hxm
  · subst hxm; exact absurd hx1 host_ne_pa
  · exact absurd ((userAgentField_names hxm).symm.trans hx1) ua_ne_pa
  · unfold lowerFields at hxm
    obtain ⟨y, hy, rfl⟩ := List.mem_map.mp hxm
    have hy' := (List.mem_filter.mp hy).1
    simp only [] at hx1 hxv
    rw [← lower_PA] at hx1
    rcases mem_mapsCopy hy' with hy'' | hy''
    · rcases mem_mapsCopy hy'' with hb | hb
      · simp only [List.mem_append, List.mem_singleton] at hb
        rcases hb with hb | hb
        · subst hb; exact absurd hx1 lower_UA_ne_PA
        · cases proxyAuth with
          | none => cases hb
          | some a =>
            simp only [List.mem_singleton] at hb
            subst hb
            simp only [List.mem_singleton] at hxv
            rw [hxv]
      · exact absurd hx1 (hn y hb)
    · exact absurd hx1 (hx y hy'')

/-- CONNECT head written by net/http's Transport for an https request through an HTTP(S) proxy -/
theorem transportConnectHead_proxyAuth {target : Bytes} {proxyAuth : Option Bytes} {extra : HMap}
    (hx : NoKeyFold PA extra) {e : Bytes × List Bytes}
    (he : e ∈ (transportConnectHead target proxyAuth extra).fields) (hname : e.1 = bs "proxy-authorization")
    {v : Bytes} (hv : v ∈ e.2) : proxyAuth = some v := by
  have hm := mem_mergeFields (fs := _) (by unfold transportConnectHead at he; exact he)
  rw [hname] at hm
  rw [hm] at hv
  obtain ⟨x, hxm, hx1, hxv⟩ := mem_valuesFor hv
  simp only [List.mem_append, List.mem_singleton] at hxm
  rcases hxm with (hxm | hxm) | hxm
  · subst hxm; exact absurd hx1 host_ne_pa
  · exact absurd ((userAgentField_names hxm).symm.trans hx1) ua_ne_pa
  · unfold lowerFields at hxm
    obtain ⟨y, hy, rfl⟩ := List.mem_map.mp hxm
    have hy' := (List.mem_filter.mp hy).1
    simp only [] at hx1 hxv
    rw [← lower_PA] at hx1
    cases proxyAuth with
    | none => exact absurd hx1 (hx y hy')
    | some a =>
      simp only [] at hy'
      unfold C16.goSet at hy'
      rcases C16.mem_put hy' with h1 | h1
      · exact absurd hx1 (hx y h1)
      · subst h1
        simp only [List.mem_singleton] at hxv
        rw [hxv]

/-- header of a CONNECT request after the modifier stack: no spelling of Proxy-Authorization left -/
theorem connectModified_noPA {cfg : Cfg} {g : GoReq} {h : HMap} (hc : CanonKeys g.header)
    (hr : RulesAvoid PA cfg.connectRules) (hm : connectModified cfg g = .ok h) : NoKeyFold PA h := by
  unfold connectModified at hm
  split at hm
  · cases hm
  · simp only [] at hm
    split at hm
    · cases hm
    · rename_i h2 hb
      split at hm
      · cases hm
      · rename_i h3 hv
        have hn1 := noKeyFold_removeHopByHop (n := PA) hc C04.mem_hop_proxyAuthorization token_PA
        have hn3 := noKeyFold_viaStep (noKeyFold_badFraming hn1 hb) hv
        have hn6 := noKeyFold_uaStep (hn3.applyRules cfg.connectRules hr)
        injection hm with hm
        rw [← hm]
        exact hn6

theorem noKeyFold_connectExtra {cfg : Cfg} (hr : RulesAvoid PA cfg.connectRules) : NoKeyFold PA (connectExtra cfg) := by
  unfold connectExtra
  exact (NoKeyFold.nil PA).applyRules cfg.connectRules hr

/-! ## §6 `readRequest` yields canonical keys -/

theorem throw_bind_ok_false {α β : Type} {e : ReadErr} {f : α → Except ReadErr β} {g : β}
    (h : ((throw e : Except ReadErr α) >>= f) = .ok g) : False := by
  cases h

theorem pure_bind_ok {α β : Type} {x : α} {f : α → Except ReadErr β} {g : β}
    (h : ((pure x : Except ReadErr α) >>= f) = .ok g) : f x = .ok g := h

/-- the keys `http.ReadRequest` sets or deletes itself -/
def readKeys : List Bytes := [bs "Cache-Control", bs "Transfer-Encoding", bs "Content-Length", bs "Trailer"]

theorem readKeys_mem : bs "Cache-Control" ∈ readKeys ∧ bs "Transfer-Encoding" ∈ readKeys ∧
    bs "Content-Length" ∈ readKeys ∧ bs "Trailer" ∈ readKeys := by
  unfold readKeys; simp

/-- Any property of header maps that survives `Set`/`Del` of the four keys ReadRequest manages itself
    carries over from the map built from the wire to the map `readRequest` returns.  (The proof peels
    the do-block one join point at a time, following the recipe of the C01 lemmas.) -/
theorem readRequest_preserves (P : HMap → Prop)
    (hset : ∀ h n v, n ∈ readKeys → P h → P (C16.goSet h n v))
    (hdel : ∀ h n, n ∈ readKeys → P h → P (C16.goDel h n))
    {r : Request} {g : GoReq} (c0 : P (toHeader r.fields)) (h : readRequest r = .ok g) : P g.header := by
  obtain ⟨kCC, kTE, kCL, kTr⟩ := readKeys_mem
  unfold readRequest at h
  extract_lets h0 h1 conn hasClose close te h2 cls jp1 jp0 at h
  have c0 : P h0 := c0
  have c1 : P h1 := by
    show P (match hget h0 (bs "Pragma") with
      | p :: _ => if (p == bs "no-cache" && (HMap.get h0 (bs "Cache-Control")).isNone) = true then C16.goSet h0 (bs "Cache-Control") (bs "no-cache") else h0
      | [] => h0)
    split
    · split
      · exact hset _ _ _ kCC c0
      · exact c0
    · exact c0
  have c2 : P h2 := hdel _ _ kTE c1
  clear_value h0 h1 conn hasClose close te h2 cls
  split at h
  · exact (throw_bind_ok_false h).elim
  · dsimp -zeta only [jp0] at h
    split at h
    · exact (throw_bind_ok_false h).elim
    · dsimp -zeta only [jp1] at h
      extract_lets host jpC at h
      have keyC : ∀ chunked, jpC chunked = .ok g → P g.header := by
        intro chunked hC
        dsimp -zeta only [jpC] at hC
        extract_lets jpX at hC
        have keyX : ∀ x : HMap × List Bytes, P x.1 → jpX x = .ok g → P g.header := by
          intro x cx hX
          dsimp -zeta only [jpX] at hX
          extract_lets jpN at hX
          have keyN : ∀ n : Nat, jpN n = .ok g → P g.header := by
            intro n hN
            dsimp -zeta only [jpN] at hN
            extract_lets jpF at hN
            have keyF : jpF () = .ok g → P g.header := by
              intro hF
              dsimp -zeta only [jpF] at hF
              injection hF with hF
              rw [← hF]
              have cA : P ((if chunked = true then (C16.goDel x.1 (bs "Content-Length"), (-1 : Int))
                  else if x.2.isEmpty = true then (C16.goDel x.1 (bs "Content-Length"), 0) else (x.1, (n : Int))) : HMap × Int).fst := by
                split
                · exact hdel _ _ kCL cx
                · split
                  · exact hdel _ _ kCL cx
                  · exact cx
              show P (_ : HMap × List Bytes).fst
              split
              · exact cA
              · split
                · exact cA
                · exact hdel _ _ kTr cA
            clear_value jpF
            repeat' (split at hN)
            all_goals first | exact (throw_bind_ok_false hN).elim | exact keyF hN
          clear_value jpN
          split at hX
          · exact keyN _ (pure_bind_ok hX)
          · split at hX
            · exact keyN _ (pure_bind_ok hX)
            · exact (throw_bind_ok_false hX).elim
        clear_value jpX
        split at hC
        · exact keyX _ c2 (pure_bind_ok hC)
        · exact keyX _ c2 (pure_bind_ok hC)
        · split at hC
          · exact keyX _ (hset _ _ _ kCL (hdel _ _ kCL c2)) (pure_bind_ok hC)
          · exact (throw_bind_ok_false hC).elim
      clear_value jpC
      split at h
      · exact keyC _ (pure_bind_ok h)
      · split at h
        · exact keyC _ (pure_bind_ok h)
        · split at h
          · split at h
            · exact keyC _ (pure_bind_ok h)
            · exact (throw_bind_ok_false h).elim
          · exact (throw_bind_ok_false h).elim

/-- the header map `http.ReadRequest` hands on has canonical keys -/
theorem readRequest_canon {r : Request} {g : GoReq} (h : readRequest r = .ok g) : CanonKeys g.header :=
  readRequest_preserves CanonKeys (fun _ n v _ hc => CanonKeys.goSet n v hc) (fun _ n _ hc => CanonKeys.goDel n hc)
    (canonKeys_toHeader r.fields) h

/-- a field ReadRequest does not manage itself has, in the map it returns, exactly the values the wire
    gave it -/
theorem readRequest_get {r : Request} {g : GoReq} (h : readRequest r = .ok g) {k : Bytes}
    (hk : ∀ n ∈ readKeys, k ≠ canonicalKey n) : g.header.lookup k = (toHeader r.fields).lookup k := by
  refine readRequest_preserves (fun m => m.lookup k = (toHeader r.fields).lookup k) ?_ ?_ rfl h
  · intro m n v hn hm
    rw [C04.lookup_goSet_ne _ _ (hk n hn)]; exact hm
  · intro m n hn hm
    unfold C16.goDel
    rw [C04.lookup_erase_ne _ (hk n hn)]; exact hm

/-- values of the field lines whose name canonicalises to `k`, in wire order -/
def wireValues (k : Bytes) (fs : List (Bytes × Bytes)) : List Bytes :=
  (fs.filter (fun f => canonicalKey f.1 == k)).map (·.2)

theorem lookup_foldl_goAdd (fs : List (Bytes × Bytes)) (h : HMap) (k : Bytes) :
    ((fs.foldl (fun h f => C16.goAdd h f.1 f.2) h).lookup k).getD [] = (h.lookup k).getD [] ++ wireValues k fs := by
  induction fs generalizing h with
  | nil => simp [wireValues]
  | cons f fs ih =>
    simp only [List.foldl_cons]
    rw [ih]
    unfold C16.goAdd
    by_cases hk : canonicalKey f.1 = k
    · subst hk
      simp only [C16.HMap.get, C16.lookup_put_self, Option.getD_some, wireValues, List.filter_cons, beq_self_eq_true,
        if_true, List.map_cons, List.append_assoc, List.singleton_append]
    · have h1 : k ≠ canonicalKey f.1 := fun e => hk e.symm
      have h2 : (canonicalKey f.1 == k) = false := by simpa using hk
      rw [C16.lookup_put_ne _ _ h1]
      simp only [wireValues, List.filter_cons, h2, Bool.false_eq_true, if_false]

/-- `Header.Get(n)` on the map built from the wire: the value of the first field line whose name
    canonicalises like `n` (that is, any upper/lower-case spelling of a token name), or "" -/
theorem goGet_toHeader (fs : List (Bytes × Bytes)) (n : Bytes) :
    goGet (toHeader fs) n = (wireValues (canonicalKey n) fs).headD [] := by
  unfold goGet hget toHeader C16.HMap.get
  have := lookup_foldl_goAdd fs [] (canonicalKey n)
  simp only [List.lookup_nil, Option.getD_none, List.nil_append] at this
  rw [this]

theorem readKeys_ne_PA : ∀ n ∈ readKeys, bs "Proxy-Authorization" ≠ canonicalKey n := by
  with_unfolding_all decide

/-- the value the basic-auth control looks at is the first Proxy-Authorization field line's -/
theorem readRequest_proxyAuthorization {r : Request} {g : GoReq} (h : readRequest r = .ok g) :
    goGet g.header (bs "Proxy-Authorization") = (wireValues (bs "Proxy-Authorization") r.fields).headD [] := by
  have hl := readRequest_get h readKeys_ne_PA
  have := goGet_toHeader r.fields (bs "Proxy-Authorization")
  rw [C04.canon_proxyAuthorization] at this
  rw [← this]
  unfold goGet hget C16.HMap.get
  rw [C04.canon_proxyAuthorization, hl]

theorem fwd_hop {h1 hop : Hop} {o1 out : OutMsg} (h : Outcome.forwarded h1 o1 = Outcome.forwarded hop out) : h1 = hop := by
  injection h

theorem fwd_ite' {c : Prop} [Decidable c] {h1 h2 hop : Hop} {o1 o2 out : OutMsg}
    (h : (if c then Outcome.forwarded h1 o1 else Outcome.forwarded h2 o2) = Outcome.forwarded hop out) :
    (c ∧ h1 = hop ∧ o1 = out) ∨ (¬ c ∧ h2 = hop ∧ o2 = out) := by
  split at h
  · rename_i hc; injection h with a b; exact Or.inl ⟨hc, a, b⟩
  · rename_i hc; injection h with a b; exact Or.inr ⟨hc, a, b⟩

/-- a request is written in HTTP-proxy form only when its URL scheme is plain http -/
theorem forwarded_speaksProxy_scheme {cfg : Cfg} {ctx : Ctx} {r : Request} {hop : Hop} {out : OutMsg}
    {scheme urlHost : Bytes} (hp : Req.processRequest cfg ctx r = .forwarded hop out)
    (ht : reqTarget ctx r = some (scheme, urlHost)) (hs : hop.speaksProxy = true) : (scheme == bs "http") = true := by
  unfold reqTarget at ht
  unfold Req.processRequest at hp
  cases hr : readRequest r with
  | error e => rw [hr] at ht; cases ht
  | ok g0 =>
    rw [hr] at ht hp
    simp only [Option.some.injEq, Prod.mk.injEq] at ht
    obtain ⟨ht1, _⟩ := ht
    simp only [] at hp
    split at hp
    · cases hp
    · split at hp
      · cases hp
      · split at hp
        · cases hp
        · split at hp
          · rw [← fwd_hop hp] at hs; exact absurd hs (by simp [Hop.speaksProxy])
          · rcases fwd_ite' hp with ⟨hc, _, _⟩ | ⟨_, h1, _⟩
            · rw [← ht1]; exact hc
            · rw [← h1] at hs; exact absurd hs (by simp [Hop.speaksProxy])
          · rcases fwd_ite' hp with ⟨hc, _, _⟩ | ⟨_, h1, _⟩
            · rw [← ht1]; exact hc
            · rw [← h1] at hs; exact absurd hs (by simp [Hop.speaksProxy])
          · rw [← fwd_hop hp] at hs; exact absurd hs (by simp [Hop.speaksProxy])
          · rcases fwd_ite' hp with ⟨hc, _, _⟩ | ⟨_, h1, _⟩
            · rw [← ht1]; exact hc
            · rw [← h1] at hs; exact absurd hs (by simp [Hop.speaksProxy])
          · cases hp

/-! ## §7 site credentials on CONNECT heads -/

theorem lower_Auth_ne_PA : lower (bs "Authorization") ≠ lower PA := by with_unfolding_all decide
theorem host_ne_auth : bs "host" ≠ bs "authorization" := by with_unfolding_all decide
theorem ua_ne_auth : bs "user-agent" ≠ bs "authorization" := by with_unfolding_all decide

/-- the CONNECT the transport sends to an HTTP(S) proxy for an https request carries no Authorization
    at all unless a `--connect-header` rule names it -/
theorem transportConnectHead_noAuthorization {target : Bytes} {proxyAuth : Option Bytes} {extra : HMap}
    (hx : NoKeyFold (bs "Authorization") extra) {e : Bytes × List Bytes}
    (he : e ∈ (transportConnectHead target proxyAuth extra).fields) (hname : e.1 = bs "authorization") : e.2 = [] := by
  have hm := mem_mergeFields (fs := _) (by unfold transportConnectHead at he; exact he)
  rw [hname] at hm
  rw [hm]
  apply valuesFor_of_ne
  intro x hxm
  simp only [List.mem_append, List.mem_singleton] at hxm
  rcases hxm with (hxm | hxm) | hxm
  · subst hxm; exact host_ne_auth
  · rw [userAgentField_names hxm]; exact ua_ne_auth
  · unfold lowerFields at hxm
    obtain ⟨y, hy, rfl⟩ := List.mem_map.mp hxm
    have hy' := (List.mem_filter.mp hy).1
    simp only []
    rw [← lower_Auth]
    cases proxyAuth with
    | none => exact hx y hy'
    | some a =>
      simp only [] at hy'
      unfold C16.goSet at hy'
      rcases C16.mem_put hy' with h1 | h1
      · exact hx y h1
      · subst h1
        simp only []
        rw [C16.lower_canonicalKey]
        exact fun h => lower_Auth_ne_PA h.symm

theorem headD_mem_of_length_pos {α : Type} {l : List α} (d : α) (h : 0 < l.length) : l.headD d ∈ l := by
  cases l with
  | nil => cases h
  | cons x xs => exact List.mem_cons_self

theorem mem_of_lookup {α β : Type} [BEq α] [LawfulBEq α] {l : List (α × β)} {k : α} {v : β}
    (h : l.lookup k = some v) : (k, v) ∈ l := by
  induction l with
  | nil => cases h
  | cons x xs ih =>
    obtain ⟨k', v'⟩ := x
    rw [List.lookup_cons] at h
    cases hk : (k == k') with
    | true =>
      rw [hk] at h
      injection h with h
      have : k = k' := beq_iff_eq.mp hk
      subst this h
      exact List.mem_cons_self
    | false =>
      rw [hk] at h
      exact List.mem_cons_of_mem _ (ih h)

/-! ## §8 where the Authorization values of a CONNECT head come from -/

/-- every value stored under a spelling of the name `n` satisfies `A` -/
def ValsOK (n : Bytes) (A : Bytes → Prop) (h : HMap) : Prop :=
  ∀ e ∈ h, lower e.1 = lower n → ∀ v ∈ e.2, A v

theorem ValsOK.nil (n : Bytes) (A : Bytes → Prop) : ValsOK n A [] := fun _ he => by cases he

theorem ValsOK.filter {n : Bytes} {A : Bytes → Prop} {h : HMap} (p : Bytes × List Bytes → Bool)
    (hn : ValsOK n A h) : ValsOK n A (h.filter p) :=
  fun e he => hn e (List.mem_filter.mp he).1

theorem ValsOK.erase {n : Bytes} {A : Bytes → Prop} {h : HMap} (c : Bytes) (hn : ValsOK n A h) :
    ValsOK n A (HMap.erase h c) := hn.filter _

theorem ValsOK.put {n : Bytes} {A : Bytes → Prop} {h : HMap} {c : Bytes} (vs : List Bytes)
    (hn : ValsOK n A h) (hc : lower c = lower n → ∀ v ∈ vs, A v) : ValsOK n A (HMap.put h c vs) := by
  intro e he hl
  rcases C16.mem_put he with he | rfl
  · exact hn e he hl
  · exact hc hl

theorem ValsOK.goDel {n : Bytes} {A : Bytes → Prop} {h : HMap} (m : Bytes) (hn : ValsOK n A h) :
    ValsOK n A (goDel h m) := hn.erase _

theorem ValsOK.goSet {n : Bytes} {A : Bytes → Prop} {h : HMap} {m : Bytes} (v : Bytes)
    (hn : ValsOK n A h) (hm : lower m ≠ lower n) : ValsOK n A (goSet h m v) :=
  hn.put _ (fun hl => absurd (by rw [C16.lower_canonicalKey] at hl; exact hl) hm)

theorem ValsOK.goAdd {n : Bytes} {A : Bytes → Prop} {h : HMap} {m : Bytes} (v : Bytes)
    (hn : ValsOK n A h) (hm : lower m ≠ lower n) : ValsOK n A (goAdd h m v) :=
  hn.put _ (fun hl => absurd (by rw [C16.lower_canonicalKey] at hl; exact hl) hm)

theorem ValsOK.foldl_goDel {n : Bytes} {A : Bytes → Prop} (names : List Bytes) {h : HMap}
    (hn : ValsOK n A h) : ValsOK n A (names.foldl (fun h k => C16.goDel h k) h) := by
  induction names generalizing h with
  | nil => exact hn
  | cons k ks ih => exact ih (hn.goDel k)

theorem ValsOK.applyRule {n : Bytes} {A : Bytes → Prop} {h : HMap} {r : Rule} (hn : ValsOK n A h)
    (hr : lower r.name ≠ lower n) : ValsOK n A (applyRule h r) := by
  cases r with
  | remove m => exact hn.goDel m
  | removePrefix m => exact hn.filter _
  | empty m => exact hn.goSet _ hr
  | add m v => exact hn.goAdd _ hr
  | rename m =>
    show ValsOK n A (C16.renameCase h m)
    unfold C16.renameCase
    simp only []
    cases HMap.get h (canonicalKey m) with
    | none => exact hn
    | some vs =>
      show ValsOK n A (if (m != canonicalKey m) = true then _ else _)
      split
      · exact (hn.put _ (fun hl => absurd hl hr)).erase _
      · exact hn

theorem ValsOK.applyRules {n : Bytes} {A : Bytes → Prop} (rs : List Rule) {h : HMap} (hn : ValsOK n A h)
    (hr : ∀ r ∈ rs, lower r.name ≠ lower n) : ValsOK n A (applyRules rs h) := by
  unfold C16.applyRules
  induction rs generalizing h with
  | nil => exact hn
  | cons r rs ih =>
    exact ih (hn.applyRule (hr r List.mem_cons_self)) (fun r' hr' => hr r' (List.mem_cons_of_mem _ hr'))

theorem ValsOK.removeHopByHop {n : Bytes} {A : Bytes → Prop} {h : HMap} (hn : ValsOK n A h) :
    ValsOK n A (removeHopByHop h) := by
  unfold Req.removeHopByHop
  exact ValsOK.foldl_goDel _ (ValsOK.foldl_goDel _ hn)

def AUTH : Bytes := bs "Authorization"

theorem stepNames_ne_AUTH :
    lower (bs "Content-Length") ≠ lower AUTH ∧ lower (bs "Via") ≠ lower AUTH ∧
    lower (bs "User-Agent") ≠ lower AUTH ∧ lower (bs "X-Martian-Terminate-Tls") ≠ lower AUTH ∧
    (∀ n ∈ readKeys, lower n ≠ lower AUTH) := by
  with_unfolding_all decide

theorem valsOK_badFraming {A : Bytes → Prop} {h h' : HMap} (hn : ValsOK AUTH A h)
    (hb : badFraming h = some h') : ValsOK AUTH A h' := by
  obtain ⟨m1, _⟩ := stepNames_ne_AUTH
  unfold badFraming at hb
  split at hb
  · injection hb with hb; subst hb; exact hn
  · simp only [] at hb
    split at hb
    · injection hb with hb; subst hb; exact hn
    · split at hb
      · injection hb with hb; subst hb; exact hn.goSet _ m1
      · cases hb

theorem valsOK_viaStep {A : Bytes → Prop} {cfg : Cfg} {minor : Nat} {h h' : HMap} (hn : ValsOK AUTH A h)
    (hv : viaStep cfg minor h = some h') : ValsOK AUTH A h' := by
  obtain ⟨_, m2, _⟩ := stepNames_ne_AUTH
  unfold viaStep at hv
  simp only [] at hv
  split at hv
  · cases hv
  · injection hv with hv; subst hv; exact hn.goSet _ m2

/-- the CONNECT header after the modifier stack: what is stored under Authorization was there when
    the request was read (`setBasicAuth` does nothing for CONNECT) -/
theorem connectModified_valsOK {A : Bytes → Prop} {cfg : Cfg} {g : GoReq} {h : HMap}
    (hr : RulesAvoid AUTH cfg.connectRules) (h0 : ValsOK AUTH A g.header)
    (hm : connectModified cfg g = .ok h) : ValsOK AUTH A h := by
  obtain ⟨_, _, m3, _⟩ := stepNames_ne_AUTH
  unfold connectModified at hm
  split at hm
  · cases hm
  · simp only [] at hm
    split at hm
    · cases hm
    · rename_i h2 hb
      split at hm
      · cases hm
      · rename_i h3 hv
        have hn3 := valsOK_viaStep (valsOK_badFraming h0.removeHopByHop hb) hv
        have hn4 := hn3.applyRules cfg.connectRules hr
        injection hm with hm
        rw [← hm]
        split
        · exact hn4.goSet _ m3
        · exact hn4

/-- the values of the field lines named `n` in any spelling -/
def wireValuesFold (n : Bytes) (fs : List (Bytes × Bytes)) : List Bytes :=
  (fs.filter (fun f => lower f.1 == lower n)).map (·.2)

theorem valsOK_foldl_goAdd {n : Bytes} {A : Bytes → Prop} (fs : List (Bytes × Bytes)) :
    ∀ (h : HMap), ValsOK n A h → (∀ f ∈ fs, lower f.1 = lower n → A f.2) →
      ValsOK n A (fs.foldl (fun h f => C16.goAdd h f.1 f.2) h) := by
  induction fs with
  | nil => intro h hn _; exact hn
  | cons f fs ih =>
    intro h hn hfs
    rw [List.foldl_cons]
    apply ih
    · unfold C16.goAdd
      apply hn.put
      intro hl v hv
      rw [C16.lower_canonicalKey] at hl
      rcases List.mem_append.mp hv with hv | hv
      · cases hg : HMap.get h (canonicalKey f.1) with
        | none => rw [hg] at hv; cases hv
        | some vs =>
          rw [hg] at hv
          have hmem : (canonicalKey f.1, vs) ∈ h := mem_of_lookup hg
          exact hn _ hmem (by rw [C16.lower_canonicalKey]; exact hl) v hv
      · simp only [List.mem_singleton] at hv
        subst hv
        exact hfs f List.mem_cons_self hl
    · exact fun f' hf' => hfs f' (List.mem_cons_of_mem _ hf')

/-- the map `http.ReadRequest` hands on stores under Authorization only values of the client's own
    Authorization field lines -/
theorem readRequest_valsOK_auth {r : Request} {g : GoReq} (h : readRequest r = .ok g) :
    ValsOK AUTH (· ∈ wireValuesFold AUTH r.fields) g.header := by
  obtain ⟨_, _, _, _, mR⟩ := stepNames_ne_AUTH
  refine readRequest_preserves (ValsOK AUTH (· ∈ wireValuesFold AUTH r.fields))
    (fun _ n v hn hc => hc.goSet v (mR n hn)) (fun _ n _ hc => hc.goDel n) ?_ h
  unfold toHeader
  refine valsOK_foldl_goAdd (n := AUTH) (A := (· ∈ wireValuesFold AUTH r.fields)) r.fields []
    (ValsOK.nil _ _) ?_
  intro f hf hl
  unfold wireValuesFold
  exact List.mem_map.mpr ⟨f, List.mem_filter.mpr ⟨hf, by simpa using hl⟩, rfl⟩

theorem lower_UA_ne_AUTH : lower (bs "User-Agent") ≠ lower AUTH := by with_unfolding_all decide
theorem lower_PA_ne_AUTH : lower (bs "Proxy-Authorization") ≠ lower AUTH := by with_unfolding_all decide
theorem lower_AUTH : lower AUTH = bs "authorization" := by with_unfolding_all decide

/-- CONNECT head written by dialvia for a client CONNECT: every value under authorization is one the
    cloned client header stored there -/
theorem dialviaConnectHead_authorization {A : Bytes → Prop} {authority : Bytes} {proxyAuth : Option Bytes}
    {h extra : HMap} (hn : ValsOK AUTH A h) (hx : NoKeyFold AUTH extra) {e : Bytes × List Bytes}
    (he : e ∈ (dialviaConnectHead authority proxyAuth h extra).fields) (hname : e.1 = bs "authorization")
    {v : Bytes} (hv : v ∈ e.2) : A v := by
  have hm := mem_mergeFields (fs := _) (by unfold dialviaConnectHead at he; exact he)
  rw [hname] at hm
  rw [hm] at hv
  obtain ⟨x, hxm, hx1, hxv⟩ := mem_valuesFor hv
  simp only [List.mem_append, List.mem_singleton] at hxm
  rcases hxm with (hxm | hxm) | hxm
  · subst hxm; exact absurd hx1 host_ne_auth
  · exact absurd ((userAgentField_names hxm).symm.trans hx1) ua_ne_auth
  · unfold lowerFields at hxm
    obtain ⟨y, hy, rfl⟩ := List.mem_map.mp hxm
    have hy' := (List.mem_filter.mp hy).1
    simp only [] at hx1 hxv
    rw [← lower_AUTH] at hx1
    rcases mem_mapsCopy hy' with hy'' | hy''
    · rcases mem_mapsCopy hy'' with hb | hb
      · simp only [List.mem_append, List.mem_singleton] at hb
        rcases hb with hb | hb
        · subst hb; exact absurd hx1 lower_UA_ne_AUTH
        · cases proxyAuth with
          | none => cases hb
          | some a =>
            simp only [List.mem_singleton] at hb
            subst hb
            exact absurd hx1 lower_PA_ne_AUTH
      · exact hn y hb hx1 v hxv
    · exact absurd hx1 (hx y hy'')

end C06
end FwdVerif
