/-
  C13 — helper lemmas: the counter fold as event counts, permutation invariance, the
  interleaving invariant, the once-only close invariant, listener accounting.
-/
import FwdVerif.Model.C13

namespace FwdVerif
namespace C13

/-! ## Event counts -/

def isRead (m : Method) : Event → Bool
  | .read x => decide (x = m)
  | .wrote _ _ => false

def isWrote (m : Method) : Event → Bool
  | .read _ => false
  | .wrote x _ => decide (x = m)

def isWroteSt (st : Nat) (m : Method) : Event → Bool
  | .read _ => false
  | .wrote x s => decide (s = st ∧ x = m)

def reads (m : Method) (evs : List Event) : Nat := evs.countP (isRead m)
def wrotes (m : Method) (evs : List Event) : Nat := evs.countP (isWrote m)
def wrotesSt (st : Nat) (m : Method) (evs : List Event) : Nat := evs.countP (isWroteSt st m)

theorem run_cons (c : Counters) (e : Event) (t : List Event) :
    run c (e :: t) = run (c.apply e) t := rfl

theorem run_append (c : Counters) (a b : List Event) : run c (a ++ b) = run (run c a) b := by
  simp [run, List.foldl_append]

/-- the gauge is (reads − wrotes) per method -/
theorem run_inflight (c : Counters) (evs : List Event) (m : Method) :
    (run c evs).inflight m = c.inflight m + (reads m evs : Int) - (wrotes m evs : Int) := by
  induction evs generalizing c with
  | nil => simp [run, reads, wrotes]
  | cons e t ih =>
    rw [run_cons, ih]
    cases e with
    | read x =>
      by_cases h : x = m
      · subst h; simp [Counters.apply, reads, wrotes, isRead, isWrote]; omega
      · have h' : ¬ m = x := fun e => h e.symm
        simp [Counters.apply, reads, wrotes, isRead, isWrote, h, h']
    | wrote x s =>
      by_cases h : x = m
      · subst h; simp [Counters.apply, reads, wrotes, isRead, isWrote]; omega
      · have h' : ¬ m = x := fun e => h e.symm
        simp [Counters.apply, reads, wrotes, isRead, isWrote, h, h']

/-- the counter is the number of `wrote` events with that label pair -/
theorem run_total (c : Counters) (evs : List Event) (st : Nat) (m : Method) :
    (run c evs).total st m = c.total st m + wrotesSt st m evs := by
  induction evs generalizing c with
  | nil => simp [run, wrotesSt]
  | cons e t ih =>
    rw [run_cons, ih]
    cases e with
    | read x => simp [Counters.apply, wrotesSt, isWroteSt]
    | wrote x s =>
      by_cases h : s = st ∧ x = m
      · obtain ⟨h1, h2⟩ := h
        subst h1; subst h2
        simp [Counters.apply, wrotesSt, isWroteSt]; omega
      · have h' : ¬ (st = s ∧ m = x) := fun e => h ⟨e.1.symm, e.2.symm⟩
        simp [Counters.apply, wrotesSt, isWroteSt, h, h']

theorem reads_perm {a b : List Event} (h : a.Perm b) (m : Method) : reads m a = reads m b :=
  h.countP_eq _

theorem wrotes_perm {a b : List Event} (h : a.Perm b) (m : Method) : wrotes m a = wrotes m b :=
  h.countP_eq _

theorem wrotesSt_perm {a b : List Event} (h : a.Perm b) (st : Nat) (m : Method) :
    wrotesSt st m a = wrotesSt st m b :=
  h.countP_eq _

theorem reads_append (m : Method) (a b : List Event) : reads m (a ++ b) = reads m a + reads m b := by
  simp [reads, List.countP_append]

theorem wrotes_append (m : Method) (a b : List Event) : wrotes m (a ++ b) = wrotes m a + wrotes m b := by
  simp [wrotes, List.countP_append]

theorem wrotesSt_append (st : Nat) (m : Method) (a b : List Event) :
    wrotesSt st m (a ++ b) = wrotesSt st m a + wrotesSt st m b := by
  simp [wrotesSt, List.countP_append]

/-! ## What a path emits -/

/-- a response written with `writeResponse` is reported, whatever its method and status and whether
    or not the write failed -/
theorem writeResponse_wrote (m : Method) (st : Nat) (w : Bool) : writeResponse m st w = [.wrote m st] := by
  simp [writeResponse, write]

/-- the head of a tunnel is reported at once exactly when writing it failed -/
theorem writeTunnelResponse_err (m : Method) (st : Nat) : writeTunnelResponse m st true = [.wrote m st] := by
  simp [writeTunnelResponse, write]

theorem writeTunnelResponse_ok (m : Method) (st : Nat) : writeTunnelResponse m st false = [] := by
  simp [writeTunnelResponse, write]

/-- every end of a tunnel reports once -/
theorem tunnel_once (m : Method) (st : Nat) (e : TunnelEnd) : tunnel m st e = [.wrote m st] := by
  cases e <;> simp [tunnel, writeTunnelResponse_err, writeTunnelResponse_ok]

theorem tunnel_connect (e : TunnelEnd) : tunnel .connect 200 e = [.wrote .connect 200] := tunnel_once _ _ e

/-- under the code's rule the head of a tunnel never closes the connection, whatever the request asked for -/
theorem closesAfterHead_code (cl c2 : Bool) : closesAfterHead .tunnelNeverCloses cl c2 = false := by
  cases cl <;> cases c2 <;> rfl

theorem tunnelAfter_false (m : Method) (st : Nat) (e : TunnelEnd) : tunnelAfter false m st e = tunnel m st e := by
  cases e <;> rfl

theorem tunnel_upgrade (m : Method) (cl : Bool) (e : TunnelEnd) :
    tunnelAfter (closesAfterHead .tunnelNeverCloses cl false) m 101 e = [.wrote m 101] := by
  rw [closesAfterHead_code, tunnelAfter_false]; exact tunnel_once _ _ e

/-- the core of the exactly-once theorem: every path outside shutdown, no class excluded -/
theorem events_eq_expected {p : Path} (hg : p.good = true) : p.events = p.expected := by
  cases p with
  | readError => rfl
  | shutdownAfterRead m => simp [Path.good, Path.shutdown] at hg
  | upgrade m cl e =>
    simp [Path.events, Path.expected, Path.request, Path.clientStatus, tunnel_upgrade]
  | connectTunnel e =>
    simp [Path.events, Path.expected, Path.request, Path.clientStatus, tunnel_connect]
  | _ =>
    simp [Path.events, Path.expected, Path.request, Path.clientStatus, writeErrorResponse,
      writeResponse_wrote]

/-! ## Counting over a list of good paths -/

theorem good_of_valid (ps : List Path) (h : ∀ p ∈ ps, p.valid = true ∧ p.shutdown = false) :
    ∀ p ∈ ps, p.good = true := by
  intro p hp
  simp [Path.good, (h p hp).1, (h p hp).2]

theorem reads_expected (p : Path) (m : Method) :
    reads m p.expected = if p.request = some m then 1 else 0 := by
  unfold Path.expected
  cases h : p.request with
  | none => simp [reads]
  | some x =>
    by_cases hx : x = m
    · subst hx; simp [reads, isRead]
    · simp [reads, isRead, hx]

theorem wrotes_expected (p : Path) (m : Method) :
    wrotes m p.expected = if p.request = some m then 1 else 0 := by
  unfold Path.expected
  cases h : p.request with
  | none => simp [wrotes]
  | some x =>
    by_cases hx : x = m
    · subst hx; simp [wrotes, isWrote]
    · simp [wrotes, isWrote, hx]

/-- "this path is a request with method `m` answered with status `st`" -/
def Path.series (st : Nat) (m : Method) (p : Path) : Bool :=
  decide (p.request = some m ∧ p.clientStatus = st)

theorem wrotesSt_expected (p : Path) (st : Nat) (m : Method) :
    wrotesSt st m p.expected = if p.series st m then 1 else 0 := by
  unfold Path.expected Path.series
  cases h : p.request with
  | none => simp [wrotesSt]
  | some x =>
    by_cases hx : x = m
    · subst hx
      by_cases hs : p.clientStatus = st
      · simp [wrotesSt, isWroteSt, hs]
      · simp [wrotesSt, isWroteSt, hs]
    · simp [wrotesSt, isWroteSt, hx]

theorem flatMap_cons_events (p : Path) (ps : List Path) :
    (p :: ps).flatMap Path.events = p.events ++ ps.flatMap Path.events := by
  simp [List.flatMap_cons]

theorem reads_eq_wrotes_of_good (ps : List Path) (hg : ∀ p ∈ ps, p.good = true) (m : Method) :
    reads m (ps.flatMap Path.events) = wrotes m (ps.flatMap Path.events) := by
  induction ps with
  | nil => simp [reads, wrotes]
  | cons p t ih =>
    have hp := events_eq_expected (hg p (List.mem_cons_self))
    have ht := ih (fun q hq => hg q (List.mem_cons_of_mem _ hq))
    rw [flatMap_cons_events, reads_append, wrotes_append, hp, reads_expected, wrotes_expected, ht]

theorem wrotesSt_of_good (ps : List Path) (hg : ∀ p ∈ ps, p.good = true) (st : Nat) (m : Method) :
    wrotesSt st m (ps.flatMap Path.events) = (ps.filter (Path.series st m)).length := by
  induction ps with
  | nil => simp [wrotesSt]
  | cons p t ih =>
    have hp := events_eq_expected (hg p (List.mem_cons_self))
    have ht := ih (fun q hq => hg q (List.mem_cons_of_mem _ hq))
    rw [flatMap_cons_events, wrotesSt_append, hp, wrotesSt_expected, ht]
    by_cases h : p.series st m = true
    · simp [h]; omega
    · simp [h]

theorem sum_map_zero {α : Type} (l : List α) : (l.map fun _ => (0 : Nat)).sum = 0 := by
  induction l with
  | nil => rfl
  | cons a t ih => simp [ih]

theorem sum_map_add {α : Type} (l : List α) (f g : α → Nat) :
    (l.map fun k => f k + g k).sum = (l.map f).sum + (l.map g).sum := by
  induction l with
  | nil => rfl
  | cons a t ih => simp only [List.map_cons, List.sum_cons, ih]; omega

/-- indicator of "path `p` is counted in series `k`" -/
def ind (p : Path) (k : Nat × Method) : Nat := if p.series k.1 k.2 then 1 else 0

theorem series_iff (p : Path) (k : Nat × Method) :
    p.series k.1 k.2 = true ↔ p.request = some k.2 ∧ p.clientStatus = k.1 := by
  simp [Path.series]

theorem ind_key (p : Path) (m : Method) (h : p.request = some m) : ind p (p.clientStatus, m) = 1 := by
  simp [ind, Path.series, h]

theorem ind_other (p : Path) (m : Method) (h : p.request = some m) (k : Nat × Method)
    (hk : k ≠ (p.clientStatus, m)) : ind p k = 0 := by
  have : p.series k.1 k.2 = false := by
    cases hs : p.series k.1 k.2 with
    | false => rfl
    | true =>
      exfalso
      have := (series_iff p k).mp hs
      apply hk
      have h2 : m = k.2 := by
        have := this.1; rw [h] at this; exact Option.some.inj this
      exact Prod.ext this.2.symm h2.symm
  simp [ind, this]

theorem ind_none (p : Path) (h : p.request = none) (k : Nat × Method) : ind p k = 0 := by
  simp [ind, Path.series, h]

theorem ind_sum_notMem (p : Path) (m : Method) (h : p.request = some m) (ks : List (Nat × Method))
    (hn : (p.clientStatus, m) ∉ ks) : (ks.map (ind p)).sum = 0 := by
  induction ks with
  | nil => rfl
  | cons k t ih =>
    have hk : k ≠ (p.clientStatus, m) := fun e => hn (by simp [e])
    have ht : (p.clientStatus, m) ∉ t := fun hm => hn (List.mem_cons_of_mem _ hm)
    simp [ind_other p m h k hk, ih ht]

theorem ind_sum_one (p : Path) (m : Method) (h : p.request = some m) (ks : List (Nat × Method))
    (hnd : ks.Nodup) (hm : (p.clientStatus, m) ∈ ks) : (ks.map (ind p)).sum = 1 := by
  induction ks with
  | nil => simp at hm
  | cons k t ih =>
    have hn' := List.nodup_cons.mp hnd
    by_cases hk : k = (p.clientStatus, m)
    · subst hk
      simp [ind_key p m h, ind_sum_notMem p m h t hn'.1]
    · have hm' : (p.clientStatus, m) ∈ t := by
        rcases List.mem_cons.mp hm with h1 | h2
        · exact absurd h1.symm hk
        · exact h2
      simp [ind_other p m h k hk, ih hn'.2 hm']

theorem filter_series_cons (p : Path) (t : List Path) (k : Nat × Method) :
    ((p :: t).filter (Path.series k.1 k.2)).length
      = ind p k + (t.filter (Path.series k.1 k.2)).length := by
  by_cases h : p.series k.1 k.2 = true
  · simp [ind, h]; omega
  · simp [ind, h]

/-- Σ over a duplicate-free key list that covers every request's label pair counts every
    request exactly once -/
theorem sum_series (keys : List (Nat × Method)) (hnd : keys.Nodup) (ps : List Path)
    (hcov : ∀ p ∈ ps, ∀ m, p.request = some m → (p.clientStatus, m) ∈ keys) :
    (keys.map fun k => (ps.filter (Path.series k.1 k.2)).length).sum = numRequests ps := by
  induction ps with
  | nil => simp [numRequests, sum_map_zero]
  | cons p t ih =>
    have ht := ih (fun q hq => hcov q (List.mem_cons_of_mem _ hq))
    have hfun : (fun k : Nat × Method => ((p :: t).filter (Path.series k.1 k.2)).length)
        = fun k => ind p k + (t.filter (Path.series k.1 k.2)).length :=
      funext (filter_series_cons p t)
    rw [hfun, sum_map_add, ht]
    cases hreq : p.request with
    | none =>
      have hz : (keys.map (ind p)).sum = 0 := by
        clear hfun ht hcov hnd ih
        induction keys with
        | nil => rfl
        | cons k ks ihk => simp [ind_none p hreq, ihk]
      simp [numRequests, hreq, hz]
    | some m =>
      have hmem := hcov p (List.mem_cons_self) m hreq
      simp [numRequests, hreq, ind_sum_one p m hreq keys hnd hmem]; omega

/-! ## The interleaving invariant -/

/-- a `wrote m _` that the remaining part of an exchange still owes -/
def owed (m : Method) : List Event → Nat
  | [.wrote a _] => if a = m then 1 else 0
  | _ => 0

def owedSum (m : Method) (ls : List (List Event)) : Nat := (ls.map (owed m)).sum

/-- the shapes the remaining part of an exchange can have: nothing, a request and its report (under
    the request's own method), the report alone, or a request that is never reported (shutdown) -/
def Rem (l : List Event) : Prop :=
  l = [] ∨ (∃ a s, l = [.read a, .wrote a s]) ∨ (∃ a s, l = [.wrote a s]) ∨ (∃ a, l = [.read a])

theorem rem_expected (p : Path) : Rem p.expected := by
  unfold Path.expected
  cases p.request with
  | none => exact Or.inl rfl
  | some m => exact Or.inr (Or.inl ⟨m, _, rfl⟩)

theorem rem_read_cons (m : Method) (st : Nat) (w : Bool) : Rem (.read m :: writeResponse m st w) := by
  rw [writeResponse_wrote]
  exact Or.inr (Or.inl ⟨m, st, rfl⟩)

/-- EVERY path of the grammar — whatever its status, also the shutdown path —
    emits at most one `read` and reports it, if at all, under the same method -/
theorem rem_events (p : Path) : Rem p.events := by
  cases p with
  | readError => exact Or.inl rfl
  | shutdownAfterRead m => exact Or.inr (Or.inr (Or.inr ⟨m, rfl⟩))
  | refused m st w => exact rem_read_cons m st w
  | roundTripError m st w => exact rem_read_cons m st w
  | transportConnectRejected m st w => exact rem_read_cons m st w
  | responseModifierError m st w => exact rem_read_cons m st w
  | response m st w => exact rem_read_cons m st w
  | upgradeNonWritable m w => exact rem_read_cons m 502 w
  | upgrade m cl e =>
    simp only [Path.events, tunnel_upgrade]
    exact Or.inr (Or.inl ⟨m, 101, rfl⟩)
  | connectRefused st w => exact rem_read_cons .connect st w
  | connectDialFailure st w => exact rem_read_cons .connect st w
  | connectResponseModifierError st w => exact rem_read_cons .connect st w
  | connectRejected st w => exact rem_read_cons .connect st w
  | connectTunnel e =>
    simp only [Path.events, tunnel_connect]
    exact Or.inr (Or.inl ⟨.connect, 200, rfl⟩)
  | mitmResponseModifierError st w => exact rem_read_cons .connect st w
  | mitmWriteError => exact rem_read_cons .connect 200 true
  | mitmHandoff => exact rem_read_cons .connect 200 false

/-- no path starts by owing a report -/
theorem owed_events (p : Path) (m : Method) : owed m p.events = 0 := by
  rcases rem_events p with h | ⟨a, s, h⟩ | ⟨a, s, h⟩ | ⟨a, h⟩
  · rw [h]; rfl
  · rw [h]; rfl
  · -- a path never consists of a report alone
    exfalso
    cases p <;> simp [Path.events, writeErrorResponse, tunnel_upgrade, tunnel_connect] at h
  · rw [h]; rfl

theorem owed_expected (p : Path) (m : Method) : owed m p.expected = 0 := by
  unfold Path.expected
  cases p.request with
  | none => rfl
  | some x => rfl

theorem owedSum_append_cons (m : Method) (l1 l2 : List (List Event)) (x : List Event) :
    owedSum m (l1 ++ x :: l2) = owedSum m l1 + owed m x + owedSum m l2 := by
  simp [owedSum, List.sum_append]; omega

/-- generalised invariant: the gauge is at least the number of owed completions, at every prefix
    (equal to it but for the requests that are never reported) -/
theorem interleaving_inflight {ls : List (List Event)} {tr : List Event} (hi : Interleaving ls tr)
    (m : Method) : (∀ l ∈ ls, Rem l) → ∀ (c : Counters), (owedSum m ls : Int) ≤ c.inflight m →
    ∀ pre suf, tr = pre ++ suf → 0 ≤ (run c pre).inflight m := by
  induction hi with
  | nil =>
    intro _ c hc pre suf h
    have : pre = [] := by
      cases pre with
      | nil => rfl
      | cons a t => simp at h
    subst this
    simp only [run, List.foldl_nil]
    omega
  | drop _ ih =>
    intro hr c hc pre suf h
    exact ih (fun l hl => hr l (List.mem_cons_of_mem _ hl)) c (by simpa [owedSum, owed] using hc) pre suf h
  | @step l1 l2 e rest tr' _ ih =>
    intro hr c hc pre suf h
    cases pre with
    | nil =>
      simp only [run, List.foldl_nil]
      omega
    | cons a t =>
      have hhead : e = a := by simpa using (List.cons.inj (by simpa using h)).1
      have htail : tr' = t ++ suf := by simpa using (List.cons.inj (by simpa using h)).2
      subst hhead
      rw [run_cons]
      have hrem : Rem (e :: rest) := hr _ (by simp)
      have hr' : ∀ l ∈ l1 ++ rest :: l2, Rem l := by
        intro l hl
        rcases List.mem_append.mp hl with h1 | h2
        · exact hr l (List.mem_append_left _ h1)
        · rcases List.mem_cons.mp h2 with h3 | h4
          · rw [h3]
            rcases hrem with h0 | ⟨a, s, h1⟩ | ⟨a, s, h1⟩ | ⟨a, h1⟩
            · simp at h0
            · have : rest = [.wrote a s] := by simpa using (List.cons.inj h1).2
              exact Or.inr (Or.inr (Or.inl ⟨a, s, this⟩))
            · have : rest = [] := by simpa using (List.cons.inj h1).2
              exact Or.inl this
            · have : rest = [] := by simpa using (List.cons.inj h1).2
              exact Or.inl this
          · exact hr l (List.mem_append_right _ (List.mem_cons_of_mem _ h4))
      apply ih hr' (c.apply e) _ t suf htail
      rw [owedSum_append_cons] at hc ⊢
      rcases hrem with h0 | ⟨a, s, h1⟩ | ⟨a, s, h1⟩ | ⟨a, h1⟩
      · simp at h0
      · have he : e = .read a := by simpa using (List.cons.inj h1).1
        have hrest : rest = [.wrote a s] := by simpa using (List.cons.inj h1).2
        subst he; subst hrest
        by_cases ham : a = m
        · subst ham; simp [Counters.apply, owed] at hc ⊢; omega
        · have ham' : ¬ m = a := fun e => ham e.symm
          simp [Counters.apply, owed, ham, ham'] at hc ⊢; omega
      · have he : e = .wrote a s := by simpa using (List.cons.inj h1).1
        have hrest : rest = [] := by simpa using (List.cons.inj h1).2
        subst he; subst hrest
        by_cases ham : a = m
        · subst ham; simp [Counters.apply, owed] at hc ⊢; omega
        · have ham' : ¬ m = a := fun e => ham e.symm
          simp [Counters.apply, owed, ham, ham'] at hc ⊢; omega
      · have he : e = .read a := by simpa using (List.cons.inj h1).1
        have hrest : rest = [] := by simpa using (List.cons.inj h1).2
        subst he; subst hrest
        by_cases ham : a = m
        · subst ham; simp [Counters.apply, owed] at hc ⊢; omega
        · have ham' : ¬ m = a := fun e => ham e.symm
          simp [Counters.apply, owed, ham, ham'] at hc ⊢; omega

/-! ## The close callback -/

/-- invariant of the `sync.Once` machine -/
structure CloseInv (s : CloseSt) : Prop where
  cb : s.callbacks = if s.fired then 1 else 0
  fired_of_done : ∀ j, j < s.n → s.pcs j = .done → s.fired = true
  done_of_fired : s.fired = true → ∃ j, j < s.n ∧ s.pcs j = .done

theorem closeInv_init (n : Nat) : CloseInv (CloseSt.init n) :=
  ⟨by simp [CloseSt.init], by intro j _ h; simp [CloseSt.init] at h, by simp [CloseSt.init]⟩

theorem step_n (once : Bool) (s : CloseSt) (j : Nat) : (s.step once j).n = s.n := by
  unfold CloseSt.step
  split
  · split
    · rfl
    · split <;> rfl
    · rfl
  · rfl

theorem closeInv_step (s : CloseSt) (j : Nat) (h : CloseInv s) : CloseInv (s.step true j) := by
  unfold CloseSt.step
  by_cases hj : j < s.n
  · simp only [hj, if_true]
    cases hp : s.pcs j with
    | start =>
      refine ⟨h.cb, ?_, ?_⟩
      · intro i hi hd
        by_cases hij : i = j
        · subst hij; simp [setPc] at hd
        · exact h.fired_of_done i hi (by simpa [setPc, hij] using hd)
      · intro hf
        obtain ⟨i, hi, hd⟩ := h.done_of_fired hf
        refine ⟨i, hi, ?_⟩
        by_cases hij : i = j
        · subst hij; rw [hp] at hd; cases hd
        · simpa [setPc, hij] using hd
    | closed =>
      by_cases hf : s.fired = true
      · have : s.fires true j = false := by simp [CloseSt.fires, hf]
        simp only [this]
        refine ⟨h.cb, ?_, ?_⟩
        · intro i _ _; exact hf
        · intro _; exact ⟨j, hj, by simp [setPc]⟩
      · have hff : s.fired = false := by simpa using hf
        have : s.fires true j = true := by simp [CloseSt.fires, hj, hp, hff]
        simp only [this, if_true]
        refine ⟨?_, ?_, ?_⟩
        · have := h.cb; simp [hff] at this; simp [this]
        · intro _ _ _; rfl
        · intro _; exact ⟨j, hj, by simp [setPc]⟩
    | done => exact h
  · simp only [hj, if_false]; exact h

theorem closeInv_run (s : CloseSt) (sched : List Nat) (h : CloseInv s) :
    CloseInv (s.run true sched) := by
  induction sched generalizing s with
  | nil => exact h
  | cons j t ih => exact ih (s.step true j) (closeInv_step s j h)

theorem run_n (once : Bool) (s : CloseSt) (sched : List Nat) : (s.run once sched).n = s.n := by
  induction sched generalizing s with
  | nil => rfl
  | cons j t ih =>
    show ((s.step once j).run once t).n = s.n
    rw [ih, step_n]

theorem doneCount_pos_iff (s : CloseSt) : 0 < s.doneCount ↔ ∃ j, j < s.n ∧ s.pcs j = .done := by
  unfold CloseSt.doneCount
  rw [List.length_pos_iff_exists_mem]
  constructor
  · rintro ⟨j, hj⟩
    have := List.mem_filter.mp hj
    exact ⟨j, List.mem_range.mp this.1, by simpa using this.2⟩
  · rintro ⟨j, hj, hd⟩
    exact ⟨j, List.mem_filter.mpr ⟨List.mem_range.mpr hj, by simpa using hd⟩⟩

/-- callbacks as a function of the state -/
theorem callbacks_eq (s : CloseSt) (h : CloseInv s) :
    s.callbacks = if 0 < s.doneCount then 1 else 0 := by
  rw [h.cb]
  by_cases hf : s.fired = true
  · have := (doneCount_pos_iff s).mpr (h.done_of_fired hf)
    simp [hf, this]
  · have hff : s.fired = false := by simpa using hf
    have : ¬ 0 < s.doneCount := by
      intro hd
      obtain ⟨j, hj, hdj⟩ := (doneCount_pos_iff s).mp hd
      exact hf (h.fired_of_done j hj hdj)
    simp [hff, this]

/-- the step's `fires` flag is exactly the callback increment -/
theorem step_callbacks (once : Bool) (s : CloseSt) (j : Nat) :
    (s.step once j).callbacks = s.callbacks + if s.fires once j then 1 else 0 := by
  unfold CloseSt.step
  by_cases hj : j < s.n
  · simp only [hj, if_true]
    cases hp : s.pcs j with
    | start => simp [CloseSt.fires, hp]
    | closed =>
      by_cases hf : s.fires once j = true
      · simp [hf]
      · have : s.fires once j = false := by simpa using hf
        simp [this]
    | done => simp [CloseSt.fires, hp]
  · simp [hj, CloseSt.fires]

/-! ## Listener accounting -/

structure LInv (s : LSt) : Prop where
  len : s.conns.length = s.accepted
  act : s.active = (s.accepted : Int) - (s.closedCount : Int)
  each : ∀ c ∈ s.conns, CloseInv c

theorem linv_init : LInv LSt.init :=
  ⟨rfl, by simp [LSt.init, LSt.closedCount], by intro c h; simp [LSt.init] at h⟩

theorem modifyAt_length (f : CloseSt → CloseSt) (cs : List CloseSt) (i : Nat) :
    (modifyAt f cs i).length = cs.length := by
  induction cs generalizing i with
  | nil => rfl
  | cons c t ih => cases i with
    | zero => rfl
    | succ k => simp [modifyAt, ih]

theorem modifyAt_mem (f : CloseSt → CloseSt) (P : CloseSt → Prop) (hf : ∀ c, P c → P (f c))
    (cs : List CloseSt) (i : Nat) (h : ∀ c ∈ cs, P c) : ∀ c ∈ modifyAt f cs i, P c := by
  induction cs generalizing i with
  | nil => intro c hc; simp [modifyAt] at hc
  | cons a t ih =>
    cases i with
    | zero =>
      intro c hc
      rcases List.mem_cons.mp hc with h1 | h2
      · subst h1; exact hf a (h a (List.mem_cons_self))
      · exact h c (List.mem_cons_of_mem _ h2)
    | succ k =>
      intro c hc
      rcases List.mem_cons.mp hc with h1 | h2
      · subst h1; exact h _ (List.mem_cons_self)
      · exact ih k (fun x hx => h x (List.mem_cons_of_mem _ hx)) c h2

theorem modifyAt_sum (once : Bool) (j : Nat) (cs : List CloseSt) (i : Nat) (c : CloseSt)
    (hc : cs[i]? = some c) :
    ((modifyAt (fun c => c.step once j) cs i).map fun c => c.callbacks).sum
      = (cs.map fun c => c.callbacks).sum + if c.fires once j then 1 else 0 := by
  induction cs generalizing i with
  | nil => simp at hc
  | cons a t ih =>
    cases i with
    | zero =>
      have : a = c := by simpa using hc
      subst this
      simp [modifyAt, step_callbacks]; omega
    | succ k =>
      have hc' : t[k]? = some c := by simpa using hc
      simp [modifyAt, ih k hc']; omega

theorem mem_of_getElem? {cs : List CloseSt} {i : Nat} {c : CloseSt} (h : cs[i]? = some c) :
    c ∈ cs := List.mem_of_getElem? h

theorem linv_step (s : LSt) (op : LOp) (h : LInv s) : LInv (s.step true op) := by
  cases op with
  | accept n =>
    refine ⟨by simp [LSt.step, h.len], ?_, ?_⟩
    · have := h.act
      simp [LSt.step, LSt.closedCount, CloseSt.init, List.sum_append] at this ⊢
      omega
    · intro c hc
      simp only [LSt.step] at hc
      rcases List.mem_append.mp hc with h1 | h2
      · exact h.each c h1
      · have : c = CloseSt.init n := by simpa using h2
        subst this; exact closeInv_init n
  | acceptError => exact ⟨h.len, h.act, h.each⟩
  | close i j =>
    simp only [LSt.step]
    cases hc : s.conns[i]? with
    | none => exact h
    | some c =>
      refine ⟨by simp [modifyAt_length, h.len], ?_, ?_⟩
      · have hs := modifyAt_sum true j s.conns i c hc
        have := h.act
        simp only [LSt.closedCount] at this ⊢
        rw [hs]
        by_cases hf : c.fires true j = true
        · simp [hf]; omega
        · have : c.fires true j = false := by simpa using hf
          simp [this]; omega
      · exact modifyAt_mem _ CloseInv (fun c hc => closeInv_step c j hc) _ _ h.each

theorem linv_run (s : LSt) (ops : List LOp) (h : LInv s) : LInv (s.run true ops) := by
  induction ops generalizing s with
  | nil => exact h
  | cons op t ih => exact ih (s.step true op) (linv_step s op h)

theorem sum_le_length (cs : List CloseSt) (h : ∀ c ∈ cs, c.callbacks ≤ 1) :
    (cs.map fun c => c.callbacks).sum ≤ cs.length := by
  induction cs with
  | nil => simp
  | cons a t ih =>
    have ha := h a (List.mem_cons_self)
    have ht := ih (fun c hc => h c (List.mem_cons_of_mem _ hc))
    simp; omega

theorem sum_eq_length (cs : List CloseSt) (h : ∀ c ∈ cs, c.callbacks = 1) :
    (cs.map fun c => c.callbacks).sum = cs.length := by
  induction cs with
  | nil => simp
  | cons a t ih =>
    have ha := h a (List.mem_cons_self)
    have ht := ih (fun c hc => h c (List.mem_cons_of_mem _ hc))
    simp; omega

/-! ## Byte counters -/

theorem observer_run (o : Observer) (ops : List IoOp) :
    (o.run ops).rx = o.rx + bytesIn ops ∧ (o.run ops).tx = o.tx + bytesOut ops := by
  induction ops generalizing o with
  | nil => simp [Observer.run, bytesIn, bytesOut]
  | cons op t ih =>
    have := ih (o.apply op)
    simp only [Observer.run, List.foldl_cons] at this ⊢
    cases op with
    | io k r d e => cases k <;> simp [Observer.apply, bytesIn, bytesOut] at this ⊢ <;> omega
    | _ => simp [Observer.apply, bytesIn, bytesOut] at this ⊢ <;> omega

end C13
end FwdVerif
