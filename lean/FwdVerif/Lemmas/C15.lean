/-
  C15 — helper lemmas for `FwdVerif/Theorems/C15.lean` (core Lean only).

  §1 deadline arithmetic (`dl`, well-formed connection states, `next` keeps them well-formed)
  §2 runs: stalled scripts, the closing instant
  §3 the accept loop: closed forms for stackings without the PROXY protocol and for a prefix of stalled
     PROXY peers
-/
import FwdVerif.Model.C15

namespace FwdVerif
namespace C15

/-! ## §1 deadline arithmetic -/

theorem dl_pos {d s : Nat} (h : 0 < d) : dl d s = some (s + d) := by
  simp [dl, h]

theorem dl_zero (s : Nat) : dl 0 s = none := by
  simp [dl]

theorem dl_eq_some {d s x : Nat} (h : dl d s = some x) : 0 < d ∧ x = s + d := by
  unfold dl at h
  split at h
  · next hp => exact ⟨hp, by injection h with h; exact h.symm⟩
  · cases h

theorem dl_eq_none {d s : Nat} (h : dl d s = none) : d = 0 := by
  unfold dl at h
  split at h
  · cases h
  · next hp => omega

/-- the armed deadline is the one the phase's limit prescribes, counted from the anchor -/
def WF (L : Limits) (c : Conn) : Prop := c.deadline = dl (limitOf L c.phase) c.anchor

theorem wf_enter (L : Limits) (p : Phase) (t : Nat) : WF L (enter L p t) := rfl

theorem wf_accepted (S : Stacking) (L : Limits) (t : Nat) : WF L (accepted S L t) := by
  unfold accepted
  split
  · exact wf_enter ..
  · split <;> exact wf_enter ..

theorem wf_afterHead (L : Limits) (c : Conn) (k : ReqKind) : WF L (afterHead L c k) := by
  cases k <;> simp [afterHead, WF, limitOf, dl_zero]

theorem wf_next {S : Stacking} {L : Limits} {c : Conn} (t : Nat) (e : Ev) (h : WF L c) :
    WF L (next S L c t e) := by
  unfold next
  split <;> first
    | exact h
    | exact wf_enter ..
    | exact wf_afterHead ..
    | (split <;> exact wf_enter ..)
    | simp [WF, limitOf, dl_zero]

theorem accepted_anchor (S : Stacking) (L : Limits) (t : Nat) : (accepted S L t).anchor = t := by
  unfold accepted
  split
  · rfl
  · split <;> rfl

/-- an event that is no progress leaves the state alone -/
theorem next_noProgress {S : Stacking} {L : Limits} {c : Conn} {t : Nat} {e : Ev}
    (h : noProgress c.phase e = true) : next S L c t e = c := by
  cases e with
  | complete => simp [noProgress] at h
  | head k => simp [noProgress] at h
  | data =>
    have h1 : c.phase ≠ .idle := by intro hc; simp [noProgress, hc] at h
    have h2 : c.phase ≠ .mitmPeek := by intro hc; simp [noProgress, hc] at h
    unfold next
    split <;> simp_all

/-! ## §2 runs -/

theorem run_nil_some {S : Stacking} {L : Limits} {c : Conn} {d : Nat} (h : c.deadline = some d) :
    run S L c [] = .closed d c.phase c.anchor := by
  simp [run, h]

theorem run_nil_none {S : Stacking} {L : Limits} {c : Conn} (h : c.deadline = none) :
    run S L c [] = .stays c := by
  simp [run, h]

/-- stray bytes do not move the closing instant -/
theorem run_stalled_some {S : Stacking} {L : Limits} {c : Conn} {d : Nat} (hd : c.deadline = some d)
    (evs : List (Nat × Ev)) (hs : ∀ x ∈ evs, noProgress c.phase x.2 = true) :
    run S L c evs = .closed d c.phase c.anchor := by
  induction evs with
  | nil => exact run_nil_some hd
  | cons x rest ih =>
    obtain ⟨t, e⟩ := x
    have hx : noProgress c.phase e = true := hs (t, e) (List.mem_cons_self ..)
    have hr : ∀ y ∈ rest, noProgress c.phase y.2 = true := fun y hy => hs y (List.mem_cons_of_mem _ hy)
    simp only [run, hd]
    split
    · rfl
    · rw [next_noProgress hx]; exact ih hr

theorem run_stalled_none {S : Stacking} {L : Limits} {c : Conn} (hd : c.deadline = none)
    (evs : List (Nat × Ev)) (hs : ∀ x ∈ evs, noProgress c.phase x.2 = true) :
    run S L c evs = .stays c := by
  induction evs with
  | nil => exact run_nil_none hd
  | cons x rest ih =>
    obtain ⟨t, e⟩ := x
    have hx : noProgress c.phase e = true := hs (t, e) (List.mem_cons_self ..)
    have hr : ∀ y ∈ rest, noProgress c.phase y.2 = true := fun y hy => hs y (List.mem_cons_of_mem _ hy)
    simp only [run, hd]
    rw [next_noProgress hx]; exact ih hr

/-- one event that arrives before the deadline (or with none armed) is processed -/
theorem run_cons_before {S : Stacking} {L : Limits} {c : Conn} {t : Nat} {e : Ev}
    (rest : List (Nat × Ev)) (h : ∀ d, c.deadline = some d → max t c.anchor < d) :
    run S L c ((t, e) :: rest) = run S L (next S L c (max t c.anchor) e) rest := by
  cases hd : c.deadline with
  | none => simp [run, hd]
  | some d =>
    have := h d hd
    simp only [run, hd]
    split
    · omega
    · rfl

/-- whenever the proxy closes a connection it does so exactly `limit` after the anchor of the phase the
    connection stalled in, and that phase has a limit -/
theorem run_closed_wf {S : Stacking} {L : Limits} (evs : List (Nat × Ev)) {c : Conn} (h : WF L c)
    {t a : Nat} {p : Phase} (hr : run S L c evs = .closed t p a) :
    0 < limitOf L p ∧ t = a + limitOf L p := by
  induction evs generalizing c with
  | nil =>
    cases hd : c.deadline with
    | none => simp [run, hd] at hr
    | some d =>
      simp only [run, hd] at hr
      injection hr with h1 h2 h3
      subst h1 h2 h3
      exact dl_eq_some (h ▸ hd)
  | cons x rest ih =>
    obtain ⟨u, e⟩ := x
    cases hd : c.deadline with
    | none =>
      simp only [run, hd] at hr
      exact ih (wf_next _ _ h) hr
    | some d =>
      simp only [run, hd] at hr
      split at hr
      · injection hr with h1 h2 h3
        subst h1 h2 h3
        exact dl_eq_some (h ▸ hd)
      · exact ih (wf_next _ _ h) hr

/-! ## §3 accept loop -/

theorem serve_nonproxy {S : Stacking} (L : Limits) (hS : S.proxy = false) (free : Nat) (ps : List Peer) :
    serve S L (some free) ps = (runningMax free (ps.map (·.arrive))).map fun a => (some a, some a) := by
  induction ps generalizing free with
  | nil => rfl
  | cons p ps ih =>
    simp only [serve, remoteAddrReturns, hS, List.map_cons, runningMax, Bool.false_eq_true, ↓reduceIte]
    rw [ih]

theorem starts_nonproxy {S : Stacking} (L : Limits) (hS : S.proxy = false) (free : Nat) (ps : List Peer) :
    starts S L (some free) ps = (runningMax free (ps.map (·.arrive))).map some := by
  simp [starts, serve_nonproxy L hS, List.map_map, Function.comp_def]

theorem runningMax_sorted (free : Nat) (as : List Nat) (h : List.Pairwise (· ≤ ·) (free :: as)) :
    runningMax free as = as := by
  induction as generalizing free with
  | nil => rfl
  | cons a as ih =>
    have hfa : free ≤ a := (List.pairwise_cons.mp h).1 a (List.mem_cons_self ..)
    have ht : List.Pairwise (· ≤ ·) (a :: as) := (List.pairwise_cons.mp h).2
    simp only [runningMax, Nat.max_eq_right hfa]
    rw [ih a ht]

/-- a peer that never completes its PROXY header -/
def stalledPeer (p : Peer) : Prop := firstComplete p.script = none

instance (p : Peer) : Decidable (stalledPeer p) := by unfold stalledPeer; exact inferInstance

/-- the accept loop works off a prefix of stalled PROXY peers one header-timeout at a time -/
theorem serve_stalled_prefix {S : Stacking} {L : Limits} (hS : S.proxy = true) (hT : 0 < L.proxyHdr)
    (pre : List Peer) (rest : List Peer) (f : Nat)
    (hpre : ∀ p ∈ pre, stalledPeer p ∧ p.arrive ≤ f) :
    serve S L (some f) (pre ++ rest) =
      (List.range pre.length).map (fun i => (some (f + i * L.proxyHdr), some (f + (i + 1) * L.proxyHdr)))
        ++ serve S L (some (f + pre.length * L.proxyHdr)) rest := by
  induction pre generalizing f with
  | nil => simp
  | cons p pre ih =>
    have hp := hpre p (List.mem_cons_self ..)
    have hst : firstComplete p.script = none := hp.1
    have hmax : max f p.arrive = f := Nat.max_eq_left hp.2
    have hne : L.proxyHdr ≠ 0 := by omega
    have hrest : ∀ q ∈ pre, stalledPeer q ∧ q.arrive ≤ f + L.proxyHdr := fun q hq =>
      ⟨(hpre q (List.mem_cons_of_mem _ hq)).1, by have := (hpre q (List.mem_cons_of_mem _ hq)).2; omega⟩
    simp only [List.cons_append, serve, remoteAddrReturns, hS, hst, hdrWait, hmax, hne, if_true, if_false,
      List.length_cons]
    rw [ih (f + L.proxyHdr) hrest, List.range_succ_eq_map]
    simp only [List.map_cons, List.map_map, List.cons_append, Nat.zero_mul, Nat.add_zero, Nat.zero_add,
      Nat.one_mul]
    congr 1
    congr 1
    · apply List.map_congr_left
      intro i _
      simp only [Function.comp, Nat.succ_mul]
      congr 2 <;> omega
    · simp only [Nat.succ_mul]
      congr 2
      omega

/-- with a timeout, `RemoteAddr()` returns — not before it was called -/
theorem hdrWait_ge {T : Nat} (hT : T ≠ 0) (a : Nat) (h : Option Nat) :
    ∃ s, hdrWait T a h = some s ∧ a ≤ s := by
  cases h with
  | none => exact ⟨a + T, by simp [hdrWait, hT], by omega⟩
  | some h => exact ⟨min (max a h) (a + T), by simp [hdrWait, hT], by omega⟩

/-- the peer right behind a prefix of stalled PROXY peers -/
theorem starts_after_stalled_prefix {S : Stacking} {L : Limits} (hS : S.proxy = true) (hT : 0 < L.proxyHdr)
    (pre : List Peer) (q : Peer) (f : Nat) (hpre : ∀ p ∈ pre, stalledPeer p ∧ p.arrive ≤ f) :
    (starts S L (some f) (pre ++ [q]))[pre.length]? =
      some (hdrWait L.proxyHdr (max (f + pre.length * L.proxyHdr) q.arrive) (firstComplete q.script)) := by
  simp only [starts, serve_stalled_prefix hS hT pre [q] f hpre, serve, remoteAddrReturns, hS, if_true,
    List.map_append, List.map_map, List.map_cons, List.map_nil]
  rw [List.getElem?_append_right (by simp)]
  simp

end C15
end FwdVerif
