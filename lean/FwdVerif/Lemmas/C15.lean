/-
  C15 — helper lemmas for `FwdVerif/Theorems/C15.lean` (core Lean only).

  §1 deadline arithmetic (`dl`, well-formed connection states, `next` keeps them well-formed)
  §2 runs: stalled scripts, the closing instant, anchors never move backwards
  §3 the accept loop: closed form (a function of the arrival instants alone, for every stacking)
-/
import FwdVerif.Model.C15

namespace FwdVerif
namespace C15

/-! ## §1 deadline arithmetic -/

theorem dl_pos {d s : Nat} (h : 0 < d) : dl d s = some (s + d) := by
  simp [dl, h]

theorem dl_zero (s : Nat) : dl 0 s = none := by
  simp [dl]

theorem dl_eq_some {d s x : Nat} (h : dl d s = some x) : 0 < d ∧ x = s + d := by
  unfold dl at h
  split at h
  · next hp => exact ⟨hp, by injection h with h; exact h.symm⟩
  · cases h

theorem dl_eq_none {d s : Nat} (h : dl d s = none) : d = 0 := by
  unfold dl at h
  split at h
  · cases h
  · next hp => omega

/-- the armed deadline is the one the phase's limit prescribes, counted from the anchor -/
def WF (L : Limits) (c : Conn) : Prop := c.deadline = dl (limitOf L c.phase) c.anchor

theorem wf_enter (L : Limits) (p : Phase) (t : Nat) : WF L (enter L p t) := rfl

theorem wf_accepted (S : Stacking) (L : Limits) (t : Nat) : WF L (accepted S L t) := by
  unfold accepted
  split
  · exact wf_enter ..
  · split <;> exact wf_enter ..

theorem wf_afterHead (L : Limits) (c : Conn) (t : Nat) (k : ReqKind) : WF L (afterHead L c t k) := by
  cases k
  · simp [afterHead, WF, limitOf, dl_zero]
  · simp [afterHead, WF, limitOf]
  · exact wf_enter ..

theorem wf_next {S : Stacking} {L : Limits} {c : Conn} (t : Nat) (e : Ev) (h : WF L c) :
    WF L (next S L c t e) := by
  unfold next
  split <;> first
    | exact h
    | exact wf_enter ..
    | exact wf_afterHead ..
    | (split <;> exact wf_enter ..)
    | simp [WF, limitOf, dl_zero]

theorem accepted_anchor (S : Stacking) (L : Limits) (t : Nat) : (accepted S L t).anchor = t := by
  unfold accepted
  split
  · rfl
  · split <;> rfl

/-- an event that is no progress leaves the state alone -/
theorem next_noProgress {S : Stacking} {L : Limits} {c : Conn} {t : Nat} {e : Ev}
    (h : noProgress c.phase e = true) : next S L c t e = c := by
  cases e with
  | complete => simp [noProgress] at h
  | head k => simp [noProgress] at h
  | respStart => simp [noProgress] at h
  | tunnelUp => simp [noProgress] at h
  | data =>
    have h1 : c.phase ≠ .idle := by intro hc; simp [noProgress, hc] at h
    have h2 : c.phase ≠ .mitmPeek := by intro hc; simp [noProgress, hc] at h
    unfold next
    split <;> simp_all

/-! ## §2 runs -/

theorem run_nil_some {S : Stacking} {L : Limits} {c : Conn} {d : Nat} (h : c.deadline = some d) :
    run S L c [] = .closed d c.phase c.anchor := by
  simp [run, h]

theorem run_nil_none {S : Stacking} {L : Limits} {c : Conn} (h : c.deadline = none) :
    run S L c [] = .stays c := by
  simp [run, h]

/-- stray bytes do not move the closing instant -/
theorem run_stalled_some {S : Stacking} {L : Limits} {c : Conn} {d : Nat} (hd : c.deadline = some d)
    (evs : List (Nat × Ev)) (hs : ∀ x ∈ evs, noProgress c.phase x.2 = true) :
    run S L c evs = .closed d c.phase c.anchor := by
  induction evs with
  | nil => exact run_nil_some hd
  | cons x rest ih =>
    obtain ⟨t, e⟩ := x
    have hx : noProgress c.phase e = true := hs (t, e) (List.mem_cons_self ..)
    have hr : ∀ y ∈ rest, noProgress c.phase y.2 = true := fun y hy => hs y (List.mem_cons_of_mem _ hy)
    simp only [run, hd]
    split
    · rfl
    · rw [next_noProgress hx]; exact ih hr

theorem run_stalled_none {S : Stacking} {L : Limits} {c : Conn} (hd : c.deadline = none)
    (evs : List (Nat × Ev)) (hs : ∀ x ∈ evs, noProgress c.phase x.2 = true) :
    run S L c evs = .stays c := by
  induction evs with
  | nil => exact run_nil_none hd
  | cons x rest ih =>
    obtain ⟨t, e⟩ := x
    have hx : noProgress c.phase e = true := hs (t, e) (List.mem_cons_self ..)
    have hr : ∀ y ∈ rest, noProgress c.phase y.2 = true := fun y hy => hs y (List.mem_cons_of_mem _ hy)
    simp only [run, hd]
    rw [next_noProgress hx]; exact ih hr

/-- one event that arrives before the deadline (or with none armed) is processed -/
theorem run_cons_before {S : Stacking} {L : Limits} {c : Conn} {t : Nat} {e : Ev}
    (rest : List (Nat × Ev)) (h : ∀ d, c.deadline = some d → max t c.anchor < d) :
    run S L c ((t, e) :: rest) = run S L (next S L c (max t c.anchor) e) rest := by
  cases hd : c.deadline with
  | none => simp [run, hd]
  | some d =>
    have := h d hd
    simp only [run, hd]
    split
    · omega
    · rfl

/-- whenever the proxy closes a connection it does so exactly `limit` after the anchor of the phase the
    connection stalled in, and that phase has a limit -/
theorem run_closed_wf {S : Stacking} {L : Limits} (evs : List (Nat × Ev)) {c : Conn} (h : WF L c)
    {t a : Nat} {p : Phase} (hr : run S L c evs = .closed t p a) :
    0 < limitOf L p ∧ t = a + limitOf L p := by
  induction evs generalizing c with
  | nil =>
    cases hd : c.deadline with
    | none => simp [run, hd] at hr
    | some d =>
      simp only [run, hd] at hr
      injection hr with h1 h2 h3
      subst h1 h2 h3
      exact dl_eq_some (h ▸ hd)
  | cons x rest ih =>
    obtain ⟨u, e⟩ := x
    cases hd : c.deadline with
    | none =>
      simp only [run, hd] at hr
      exact ih (wf_next _ _ h) hr
    | some d =>
      simp only [run, hd] at hr
      split at hr
      · injection hr with h1 h2 h3
        subst h1 h2 h3
        exact dl_eq_some (h ▸ hd)
      · exact ih (wf_next _ _ h) hr

/-- a connection that is still open at the end has no deadline armed, and its state is well-formed -/
theorem run_stays_wf {S : Stacking} {L : Limits} (evs : List (Nat × Ev)) {c c' : Conn} (h : WF L c)
    (hr : run S L c evs = .stays c') : WF L c' ∧ c'.deadline = none := by
  induction evs generalizing c with
  | nil =>
    cases hd : c.deadline with
    | none =>
      simp only [run, hd] at hr
      injection hr with h1
      subst h1
      exact ⟨h, hd⟩
    | some d => simp [run, hd] at hr
  | cons x rest ih =>
    obtain ⟨u, e⟩ := x
    cases hd : c.deadline with
    | none =>
      simp only [run, hd] at hr
      exact ih (wf_next _ _ h) hr
    | some d =>
      simp only [run, hd] at hr
      split at hr
      · cases hr
      · exact ih (wf_next _ _ h) hr

/-- the instant a phase's deadline counts from never moves backwards -/
theorem next_anchor_ge {S : Stacking} {L : Limits} {c : Conn} {t : Nat} (e : Ev) (h : c.anchor ≤ t) :
    c.anchor ≤ (next S L c t e).anchor := by
  obtain ⟨ph, an, de⟩ := c
  cases ph <;> cases e <;> (try rename_i k; cases k) <;>
    simp_all [next, enter, afterHead] <;> (split <;> simp_all)

/-- the phase a connection is closed in did not begin before the state the run started from -/
theorem run_closed_anchor_ge {S : Stacking} {L : Limits} (evs : List (Nat × Ev)) {c : Conn}
    {t a : Nat} {p : Phase} (hr : run S L c evs = .closed t p a) : c.anchor ≤ a := by
  induction evs generalizing c with
  | nil =>
    cases hd : c.deadline with
    | none => simp [run, hd] at hr
    | some d =>
      simp only [run, hd] at hr
      injection hr with h1 h2 h3
      omega
  | cons x rest ih =>
    obtain ⟨u, e⟩ := x
    have hstep : c.anchor ≤ (next S L c (max u c.anchor) e).anchor := next_anchor_ge e (Nat.le_max_right ..)
    cases hd : c.deadline with
    | none =>
      simp only [run, hd] at hr
      exact Nat.le_trans hstep (ih hr)
    | some d =>
      simp only [run, hd] at hr
      split at hr
      · injection hr with h1 h2 h3
        omega
      · exact Nat.le_trans hstep (ih hr)

/-! ## §3 accept loop -/

theorem serve_eq (S : Stacking) (L : Limits) (free : Nat) (ps : List Peer) :
    serve S L free ps = (runningMax free (ps.map (·.arrive))).map fun a => (a, a) := by
  induction ps generalizing free with
  | nil => rfl
  | cons p ps ih =>
    simp only [serve, List.map_cons, runningMax]
    rw [ih]

theorem starts_eq (S : Stacking) (L : Limits) (free : Nat) (ps : List Peer) :
    starts S L free ps = runningMax free (ps.map (·.arrive)) := by
  simp [starts, serve_eq, List.map_map, Function.comp_def]

theorem runningMax_sorted (free : Nat) (as : List Nat) (h : List.Pairwise (· ≤ ·) (free :: as)) :
    runningMax free as = as := by
  induction as generalizing free with
  | nil => rfl
  | cons a as ih =>
    have hfa : free ≤ a := (List.pairwise_cons.mp h).1 a (List.mem_cons_self ..)
    have ht : List.Pairwise (· ≤ ·) (a :: as) := (List.pairwise_cons.mp h).2
    simp only [runningMax, Nat.max_eq_right hfa]
    rw [ih a ht]

/-- a connection that arrives when the loop is free and everything queued before it has arrived is
    accepted the instant it arrives -/
theorem runningMax_append_last (free : Nat) (as : List Nat) (b : Nat) (hf : free ≤ b)
    (has : ∀ a ∈ as, a ≤ b) : (runningMax free (as ++ [b]))[as.length]? = some b := by
  induction as generalizing free with
  | nil => simp [runningMax, Nat.max_eq_right hf]
  | cons a as ih =>
    have ha : a ≤ b := has a (List.mem_cons_self ..)
    have hr : ∀ x ∈ as, x ≤ b := fun x hx => has x (List.mem_cons_of_mem _ hx)
    simp only [List.cons_append, runningMax, List.length_cons, List.getElem?_cons_succ]
    exact ih (max free a) (by omega) hr

/-- no connection is accepted before it arrived, nor before the loop was free -/
theorem runningMax_ge (free : Nat) (as : List Nat) (k : Nat) {a s : Nat} (ha : as[k]? = some a)
    (hs : (runningMax free as)[k]? = some s) : a ≤ s ∧ free ≤ s := by
  induction as generalizing free k with
  | nil => simp at ha
  | cons x xs ih =>
    cases k with
    | zero =>
      simp only [runningMax, List.getElem?_cons_zero, Option.some.injEq] at ha hs
      omega
    | succ k =>
      simp only [runningMax, List.getElem?_cons_succ] at ha hs
      have := ih (max free x) k ha hs
      omega

end C15
end FwdVerif
