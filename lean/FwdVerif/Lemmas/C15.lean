/-
  C15 — helper lemmas for `FwdVerif/Theorems/C15.lean` (core Lean only).

  §1 deadline arithmetic (`dl`, well-formed connection states, `next` keeps them well-formed)
  §2 runs: stalled scripts, the closing instant, anchors never move backwards
  §3 the accept loop: closed form (a function of the arrival instants alone, for every stacking)
  §4 the keep-alive loop and the reader   §5 body stalls under ReadTimeout (F49: `settle`)
-/
import FwdVerif.Model.C15

namespace FwdVerif
namespace C15

/-! ## §1 deadline arithmetic -/

theorem dl_pos {d s : Nat} (h : 0 < d) : dl d s = some (s + d) := by
  simp [dl, h]

theorem dl_zero (s : Nat) : dl 0 s = none := by
  simp [dl]

theorem dl_eq_some {d s x : Nat} (h : dl d s = some x) : 0 < d ∧ x = s + d := by
  unfold dl at h
  split at h
  · next hp => exact ⟨hp, by injection h with h; exact h.symm⟩
  · cases h

theorem dl_eq_none {d s : Nat} (h : dl d s = none) : d = 0 := by
  unfold dl at h
  split at h
  · cases h
  · next hp => omega

/-- the armed deadline is the one the phase's limit prescribes, counted from the anchor -/
def WF (L : Limits) (c : Conn) : Prop := c.deadline = dl (limitOf L c.phase) c.anchor

theorem wf_enter (L : Limits) (p : Phase) (t : Nat) : WF L (enter L p t) := rfl

theorem wf_accepted (S : Stacking) (L : Limits) (t : Nat) : WF L (accepted S L t) := by
  unfold accepted
  split
  · exact wf_enter ..
  · split <;> exact wf_enter ..

theorem wf_afterHead (L : Limits) (c : Conn) (t : Nat) (k : ReqKind) : WF L (afterHead L c t k) := by
  cases k
  · simp [afterHead, WF, limitOf, dl_zero]
  · simp [afterHead, WF, limitOf]
  · exact wf_enter ..

theorem wf_next {S : Stacking} {L : Limits} {c : Conn} (t : Nat) (e : Ev) (h : WF L c) :
    WF L (next S L c t e) := by
  unfold next
  split <;> first
    | exact h
    | exact wf_enter ..
    | exact wf_afterHead ..
    | (split <;> exact wf_enter ..)
    | simp [WF, limitOf, dl_zero]

theorem accepted_anchor (S : Stacking) (L : Limits) (t : Nat) : (accepted S L t).anchor = t := by
  unfold accepted
  split
  · rfl
  · split <;> rfl

/-! ### `settle`: a body deadline does not close (F49) -/

theorem settle_not_body {L : Limits} {c : Conn} (u : Nat) (h : c.phase ≠ .body) : settle L c u = c := by
  unfold settle
  split
  · next hp _ => exact absurd hp h
  · rfl

theorem settle_no_deadline {L : Limits} {c : Conn} (u : Nat) (h : c.deadline = none) : settle L c u = c := by
  unfold settle
  split
  · next _ hd => rw [h] at hd; cases hd
  · rfl

theorem settle_before {L : Limits} {c : Conn} {u : Nat} (h : ∀ d, c.deadline = some d → u < d) :
    settle L c u = c := by
  unfold settle
  split
  · next _ hd => rw [if_neg (by have := h _ hd; omega)]
  · rfl

theorem settle_body_expired {L : Limits} {c : Conn} {u d : Nat} (hp : c.phase = .body)
    (hd : c.deadline = some d) (h : d ≤ u) : settle L c u = enter L .idle d := by
  obtain ⟨ph, an, de⟩ := c
  simp only at hp hd
  subst hp hd
  simp [settle, h]

theorem settleEnd_not_body {L : Limits} {c : Conn} (h : c.phase ≠ .body) : settleEnd L c = c := by
  unfold settleEnd
  split
  · next hp _ => exact absurd hp h
  · rfl

theorem settleEnd_no_deadline {L : Limits} {c : Conn} (h : c.deadline = none) : settleEnd L c = c := by
  unfold settleEnd
  split
  · next _ hd => rw [h] at hd; cases hd
  · rfl

theorem settleEnd_body {L : Limits} {c : Conn} {d : Nat} (hp : c.phase = .body)
    (hd : c.deadline = some d) : settleEnd L c = enter L .idle d := by
  obtain ⟨ph, an, de⟩ := c
  simp only at hp hd
  subst hp hd
  simp [settleEnd]

theorem wf_settle {L : Limits} {c : Conn} (u : Nat) (h : WF L c) : WF L (settle L c u) := by
  unfold settle
  split
  · split
    · exact wf_enter ..
    · exact h
  · exact h

theorem wf_settleEnd {L : Limits} {c : Conn} (h : WF L c) : WF L (settleEnd L c) := by
  unfold settleEnd
  split
  · exact wf_enter ..
  · exact h

/-- a well-formed state's anchor does not move backwards when it settles -/
theorem settle_anchor_ge {L : Limits} {c : Conn} (u : Nat) (h : WF L c) : c.anchor ≤ (settle L c u).anchor := by
  unfold settle
  split
  · next _ hd =>
    split
    · have := dl_eq_some (h ▸ hd)
      show c.anchor ≤ _
      simp only [enter]; omega
    · exact Nat.le_refl _
  · exact Nat.le_refl _

theorem settleEnd_anchor_ge {L : Limits} {c : Conn} (h : WF L c) : c.anchor ≤ (settleEnd L c).anchor := by
  unfold settleEnd
  split
  · next _ hd =>
    have := dl_eq_some (h ▸ hd)
    show c.anchor ≤ _
    simp only [enter]; omega
  · exact Nat.le_refl _

/-- an event that is no progress leaves the state alone -/
theorem next_noProgress {S : Stacking} {L : Limits} {c : Conn} {t : Nat} {e : Ev}
    (h : noProgress c.phase e = true) : next S L c t e = c := by
  cases e with
  | complete => simp [noProgress] at h
  | head k => simp [noProgress] at h
  | respStart => simp [noProgress] at h
  | tunnelUp => simp [noProgress] at h
  | peeked => simp [noProgress] at h
  | data =>
    have h1 : c.phase ≠ .idle := by intro hc; simp [noProgress, hc] at h
    have h2 : c.phase ≠ .mitmPeek := by intro hc; simp [noProgress, hc] at h
    unfold next
    split <;> simp_all

/-! ## §2 runs -/

theorem run_nil_some {S : Stacking} {L : Limits} {c : Conn} {d : Nat} (h : c.deadline = some d)
    (hnb : c.phase ≠ .body) : run S L c [] = .closed d c.phase c.anchor := by
  simp [run, settleEnd_not_body hnb, h]

theorem run_nil_none {S : Stacking} {L : Limits} {c : Conn} (h : c.deadline = none) :
    run S L c [] = .stays c := by
  simp [run, settleEnd_no_deadline h, h]

/-- stray bytes do not move the closing instant -/
theorem run_stalled_some {S : Stacking} {L : Limits} {c : Conn} {d : Nat} (hd : c.deadline = some d)
    (hnb : c.phase ≠ .body) (evs : List (Nat × Ev)) (hs : ∀ x ∈ evs, noProgress c.phase x.2 = true) :
    run S L c evs = .closed d c.phase c.anchor := by
  induction evs with
  | nil => exact run_nil_some hd hnb
  | cons x rest ih =>
    obtain ⟨t, e⟩ := x
    have hx : noProgress c.phase e = true := hs (t, e) (List.mem_cons_self ..)
    have hr : ∀ y ∈ rest, noProgress c.phase y.2 = true := fun y hy => hs y (List.mem_cons_of_mem _ hy)
    simp only [run, settle_not_body _ hnb, hd]
    split
    · rfl
    · rw [next_noProgress hx]; exact ih hr

theorem run_stalled_none {S : Stacking} {L : Limits} {c : Conn} (hd : c.deadline = none)
    (evs : List (Nat × Ev)) (hs : ∀ x ∈ evs, noProgress c.phase x.2 = true) :
    run S L c evs = .stays c := by
  induction evs with
  | nil => exact run_nil_none hd
  | cons x rest ih =>
    obtain ⟨t, e⟩ := x
    have hx : noProgress c.phase e = true := hs (t, e) (List.mem_cons_self ..)
    have hr : ∀ y ∈ rest, noProgress c.phase y.2 = true := fun y hy => hs y (List.mem_cons_of_mem _ hy)
    simp only [run, settle_no_deadline _ hd, hd]
    rw [next_noProgress hx]; exact ih hr

/-- one event that arrives before the deadline (or with none armed) is processed -/
theorem run_cons_before {S : Stacking} {L : Limits} {c : Conn} {t : Nat} {e : Ev}
    (rest : List (Nat × Ev)) (h : ∀ d, c.deadline = some d → max t c.anchor < d) :
    run S L c ((t, e) :: rest) = run S L (next S L c (max t c.anchor) e) rest := by
  have hst : settle L c (max t c.anchor) = c := settle_before h
  cases hd : c.deadline with
  | none => simp [run, hst, hd]
  | some d =>
    have := h d hd
    simp only [run, hst, hd]
    split
    · omega
    · rfl

/-- whenever the proxy closes a connection it does so exactly `limit` after the anchor of the phase the
    connection stalled in, and that phase has a limit -/
theorem run_closed_wf {S : Stacking} {L : Limits} (evs : List (Nat × Ev)) {c : Conn} (h : WF L c)
    {t a : Nat} {p : Phase} (hr : run S L c evs = .closed t p a) :
    0 < limitOf L p ∧ t = a + limitOf L p := by
  induction evs generalizing c with
  | nil =>
    have hw := wf_settleEnd h
    cases hd : (settleEnd L c).deadline with
    | none => simp [run, hd] at hr
    | some d =>
      simp only [run, hd] at hr
      injection hr with h1 h2 h3
      subst h1 h2 h3
      exact dl_eq_some (hw ▸ hd)
  | cons x rest ih =>
    obtain ⟨u, e⟩ := x
    have hw := wf_settle (max u c.anchor) h
    cases hd : (settle L c (max u c.anchor)).deadline with
    | none =>
      simp only [run, hd] at hr
      exact ih (wf_next _ _ hw) hr
    | some d =>
      simp only [run, hd] at hr
      split at hr
      · injection hr with h1 h2 h3
        subst h1 h2 h3
        exact dl_eq_some (hw ▸ hd)
      · exact ih (wf_next _ _ hw) hr

/-- a connection that is still open at the end has no deadline armed, and its state is well-formed -/
theorem run_stays_wf {S : Stacking} {L : Limits} (evs : List (Nat × Ev)) {c c' : Conn} (h : WF L c)
    (hr : run S L c evs = .stays c') : WF L c' ∧ c'.deadline = none := by
  induction evs generalizing c with
  | nil =>
    have hw := wf_settleEnd h
    cases hd : (settleEnd L c).deadline with
    | none =>
      simp only [run, hd] at hr
      injection hr with h1
      subst h1
      exact ⟨hw, hd⟩
    | some d => simp [run, hd] at hr
  | cons x rest ih =>
    obtain ⟨u, e⟩ := x
    have hw := wf_settle (max u c.anchor) h
    cases hd : (settle L c (max u c.anchor)).deadline with
    | none =>
      simp only [run, hd] at hr
      exact ih (wf_next _ _ hw) hr
    | some d =>
      simp only [run, hd] at hr
      split at hr
      · cases hr
      · exact ih (wf_next _ _ hw) hr

/-- the instant a phase's deadline counts from never moves backwards -/
theorem next_anchor_ge {S : Stacking} {L : Limits} {c : Conn} {t : Nat} (e : Ev) (h : c.anchor ≤ t) :
    c.anchor ≤ (next S L c t e).anchor := by
  obtain ⟨ph, an, de⟩ := c
  cases ph <;> cases e <;> (try rename_i k; cases k) <;>
    simp_all [next, enter, afterHead] <;> (split <;> simp_all)

/-- the phase a connection is closed in did not begin before the state the run started from -/
theorem run_closed_anchor_ge {S : Stacking} {L : Limits} (evs : List (Nat × Ev)) {c : Conn} (h : WF L c)
    {t a : Nat} {p : Phase} (hr : run S L c evs = .closed t p a) : c.anchor ≤ a := by
  induction evs generalizing c with
  | nil =>
    have hge := settleEnd_anchor_ge h
    cases hd : (settleEnd L c).deadline with
    | none => simp [run, hd] at hr
    | some d =>
      simp only [run, hd] at hr
      injection hr with h1 h2 h3
      omega
  | cons x rest ih =>
    obtain ⟨u, e⟩ := x
    have hw := wf_settle (max u c.anchor) h
    have hge := settle_anchor_ge (max u c.anchor) h
    have hle : (settle L c (max u c.anchor)).anchor ≤ max u c.anchor := by
      unfold settle
      split
      · split
        · simp only [enter]; assumption
        · exact Nat.le_max_right ..
      · exact Nat.le_max_right ..
    have hstep : (settle L c (max u c.anchor)).anchor ≤
        (next S L (settle L c (max u c.anchor)) (max u c.anchor) e).anchor := next_anchor_ge e hle
    cases hd : (settle L c (max u c.anchor)).deadline with
    | none =>
      simp only [run, hd] at hr
      exact Nat.le_trans hge (Nat.le_trans hstep (ih (wf_next _ _ hw) hr))
    | some d =>
      simp only [run, hd] at hr
      split at hr
      · injection hr with h1 h2 h3
        omega
      · exact Nat.le_trans hge (Nat.le_trans hstep (ih (wf_next _ _ hw) hr))

/-! ## §3 accept loop -/

theorem serve_eq (S : Stacking) (L : Limits) (free : Nat) (ps : List Peer) :
    serve S L free ps = (runningMax free (ps.map (·.arrive))).map fun a => (a, a) := by
  induction ps generalizing free with
  | nil => rfl
  | cons p ps ih =>
    simp only [serve, List.map_cons, runningMax]
    rw [ih]

theorem starts_eq (S : Stacking) (L : Limits) (free : Nat) (ps : List Peer) :
    starts S L free ps = runningMax free (ps.map (·.arrive)) := by
  simp [starts, serve_eq, List.map_map, Function.comp_def]

theorem runningMax_sorted (free : Nat) (as : List Nat) (h : List.Pairwise (· ≤ ·) (free :: as)) :
    runningMax free as = as := by
  induction as generalizing free with
  | nil => rfl
  | cons a as ih =>
    have hfa : free ≤ a := (List.pairwise_cons.mp h).1 a (List.mem_cons_self ..)
    have ht : List.Pairwise (· ≤ ·) (a :: as) := (List.pairwise_cons.mp h).2
    simp only [runningMax, Nat.max_eq_right hfa]
    rw [ih a ht]

/-- a connection that arrives when the loop is free and everything queued before it has arrived is
    accepted the instant it arrives -/
theorem runningMax_append_last (free : Nat) (as : List Nat) (b : Nat) (hf : free ≤ b)
    (has : ∀ a ∈ as, a ≤ b) : (runningMax free (as ++ [b]))[as.length]? = some b := by
  induction as generalizing free with
  | nil => simp [runningMax, Nat.max_eq_right hf]
  | cons a as ih =>
    have ha : a ≤ b := has a (List.mem_cons_self ..)
    have hr : ∀ x ∈ as, x ≤ b := fun x hx => has x (List.mem_cons_of_mem _ hx)
    simp only [List.cons_append, runningMax, List.length_cons, List.getElem?_cons_succ]
    exact ih (max free a) (by omega) hr

/-- no connection is accepted before it arrived, nor before the loop was free -/
theorem runningMax_ge (free : Nat) (as : List Nat) (k : Nat) {a s : Nat} (ha : as[k]? = some a)
    (hs : (runningMax free as)[k]? = some s) : a ≤ s ∧ free ≤ s := by
  induction as generalizing free k with
  | nil => simp at ha
  | cons x xs ih =>
    cases k with
    | zero =>
      simp only [runningMax, List.getElem?_cons_zero, Option.some.injEq] at ha hs
      omega
    | succ k =>
      simp only [runningMax, List.getElem?_cons_succ] at ha hs
      have := ih (max free x) k ha hs
      omega

/-! ## §4 the keep-alive loop and the reader -/

theorem wf_drain {S : Stacking} {L : Limits} (t : Nat) (es : List Ev) {c : Conn} (h : WF L c) :
    WF L (drain S L t c es).conn := by
  induction es generalizing c with
  | nil => exact h
  | cons e es ih =>
    simp only [drain]
    split
    · exact h
    · exact ih (wf_next _ _ h)

theorem wf_nextK {S : Stacking} {L : Limits} {k : KConn} (t : Nat) (e : Ev) (h : WF L k.conn) :
    WF L (nextK S L k t e).conn := by
  unfold nextK
  split
  · exact h
  · split
    · exact h
    · exact wf_drain _ _ (wf_next _ _ h)

/-- pieces that are no progress in a phase in which the proxy reads are consumed and change nothing -/
theorem drain_noProgress {S : Stacking} {L : Limits} (t : Nat) {c : Conn} (es : List Ev)
    (hr : notReading c.phase = false) (hs : ∀ e ∈ es, noProgress c.phase e = true) :
    drain S L t c es = ⟨c, []⟩ := by
  induction es with
  | nil => rfl
  | cons e es ih =>
    simp only [drain, hr]
    rw [next_noProgress (hs e (List.mem_cons_self ..))]
    exact ih (fun x hx => hs x (List.mem_cons_of_mem _ hx))

/-- what is sent ahead stays where it is while the proxy does not read -/
theorem drain_notReading {S : Stacking} {L : Limits} (t : Nat) {c : Conn} (es : List Ev)
    (hr : notReading c.phase = true) : drain S L t c es = ⟨c, es⟩ := by
  cases es with
  | nil => rfl
  | cons e es => simp [drain, hr]

theorem nextK_reading_nil {S : Stacking} {L : Limits} {c : Conn} (t : Nat) (e : Ev)
    (h : (notReading c.phase && sentByClient e) = false) (hpk : (c.phase == .body && e == .peeked) = false) :
    nextK S L ⟨c, []⟩ t e = ⟨next S L c t e, []⟩ := by
  simp [nextK, h, hpk, drain]

/-! ### `settleK`: `settle` for the loop -/

theorem bodyTimeout_not_body {c : Conn} (u : Nat) (h : c.phase ≠ .body) : bodyTimeout c u = none := by
  unfold bodyTimeout
  split
  · next hp _ => exact absurd hp h
  · rfl

theorem bodyTimeout_no_deadline {c : Conn} (u : Nat) (h : c.deadline = none) : bodyTimeout c u = none := by
  unfold bodyTimeout
  split
  · next _ hd => rw [h] at hd; cases hd
  · rfl

theorem bodyTimeout_before {c : Conn} {u : Nat} (h : ∀ d, c.deadline = some d → u < d) :
    bodyTimeout c u = none := by
  unfold bodyTimeout
  split
  · next _ hd => rw [if_neg (by have := h _ hd; omega)]
  · rfl

theorem settleK_of_none {S : Stacking} {L : Limits} {k : KConn} {u : Nat} (h : bodyTimeout k.conn u = none) :
    settleK S L k u = k := by
  simp [settleK, h]

/-- with an empty reader `settleK` is `settle` -/
theorem settleK_nil {S : Stacking} {L : Limits} (c : Conn) (u : Nat) :
    settleK S L ⟨c, []⟩ u = ⟨settle L c u, []⟩ := by
  obtain ⟨ph, an, de⟩ := c
  cases ph <;> cases de <;> simp [settleK, settle, bodyTimeout, drain]
  rename_i d
  by_cases h : d ≤ u <;> simp [h, drain]

theorem settleEndK_nil {S : Stacking} {L : Limits} (c : Conn) :
    settleEndK S L ⟨c, []⟩ = ⟨settleEnd L c, []⟩ := by
  obtain ⟨ph, an, de⟩ := c
  cases ph <;> cases de <;> simp [settleEndK, settleEnd, drain]

theorem settleEndK_not_body {S : Stacking} {L : Limits} {k : KConn} (h : k.conn.phase ≠ .body) :
    settleEndK S L k = k := by
  unfold settleEndK
  split
  · next hp _ => exact absurd hp h
  · rfl

theorem settleEndK_no_deadline {S : Stacking} {L : Limits} {k : KConn} (h : k.conn.deadline = none) :
    settleEndK S L k = k := by
  unfold settleEndK
  split
  · next _ hd => rw [h] at hd; cases hd
  · rfl

theorem wf_settleK {S : Stacking} {L : Limits} {k : KConn} (u : Nat) (h : WF L k.conn) :
    WF L (settleK S L k u).conn := by
  unfold settleK
  split
  · exact wf_drain _ _ (wf_enter ..)
  · exact h

theorem wf_settleEndK {S : Stacking} {L : Limits} {k : KConn} (h : WF L k.conn) :
    WF L (settleEndK S L k).conn := by
  unfold settleEndK
  split
  · exact wf_drain _ _ (wf_enter ..)
  · exact h

/-- with nothing sent ahead the loop is the plain automaton -/
theorem runK_eq_run {S : Stacking} {L : Limits} (evs : List (Nat × Ev)) {c : Conn}
    (h : noWriteAhead S L c evs = true) : runK S L ⟨c, []⟩ evs = run S L c evs := by
  induction evs generalizing c with
  | nil => simp [runK, run, settleEndK_nil]
  | cons x rest ih =>
    obtain ⟨t, e⟩ := x
    simp only [noWriteAhead, Bool.and_eq_true, Bool.not_eq_true'] at h
    obtain ⟨⟨h1, h3⟩, h2⟩ := h
    simp only [runK, run, settleK_nil]
    rw [nextK_reading_nil (c := settle L c (max t c.anchor)) _ _ h1 h3, ih h2]

theorem runK_nil_some {S : Stacking} {L : Limits} {k : KConn} {d : Nat} (h : k.conn.deadline = some d)
    (hnb : k.conn.phase ≠ .body) : runK S L k [] = .closed d k.conn.phase k.conn.anchor := by
  simp [runK, settleEndK_not_body hnb, h]

theorem runK_nil_none {S : Stacking} {L : Limits} {k : KConn} (h : k.conn.deadline = none) :
    runK S L k [] = .stays k.conn := by
  simp [runK, settleEndK_no_deadline h, h]

theorem runK_cons_before {S : Stacking} {L : Limits} {k : KConn} {t : Nat} {e : Ev}
    (rest : List (Nat × Ev)) (h : ∀ d, k.conn.deadline = some d → max t k.conn.anchor < d) :
    runK S L k ((t, e) :: rest) = runK S L (nextK S L k (max t k.conn.anchor) e) rest := by
  have hst : settleK S L k (max t k.conn.anchor) = k := settleK_of_none (bodyTimeout_before h)
  cases hd : k.conn.deadline with
  | none => simp [runK, hst, hd]
  | some d =>
    have := h d hd
    simp only [runK, hst, hd]
    split
    · omega
    · rfl

/-- a piece that is no progress leaves a reading connection with an empty reader alone -/
theorem nextK_noProgress {S : Stacking} {L : Limits} {c : Conn} {t : Nat} {e : Ev}
    (hr : notReading c.phase = false) (h : noProgress c.phase e = true) :
    nextK S L ⟨c, []⟩ t e = ⟨c, []⟩ := by
  have he : e = .data := by
    cases e <;> simp_all [noProgress]
  subst he
  rw [nextK_reading_nil _ _ (by simp [hr]) (by simp), next_noProgress h]

theorem runK_stalled_some {S : Stacking} {L : Limits} {c : Conn} {d : Nat} (hd : c.deadline = some d)
    (hnb : c.phase ≠ .body) (hr : notReading c.phase = false) (evs : List (Nat × Ev))
    (hs : ∀ x ∈ evs, noProgress c.phase x.2 = true) :
    runK S L ⟨c, []⟩ evs = .closed d c.phase c.anchor := by
  induction evs with
  | nil => exact runK_nil_some hd hnb
  | cons x rest ih =>
    obtain ⟨t, e⟩ := x
    have hx : noProgress c.phase e = true := hs (t, e) (List.mem_cons_self ..)
    simp only [runK, settleK_of_none (k := ⟨c, []⟩) (bodyTimeout_not_body _ hnb), hd]
    split
    · rfl
    · rw [nextK_noProgress hr hx]; exact ih (fun y hy => hs y (List.mem_cons_of_mem _ hy))

theorem runK_stalled_none {S : Stacking} {L : Limits} {c : Conn} (hd : c.deadline = none)
    (hr : notReading c.phase = false) (evs : List (Nat × Ev))
    (hs : ∀ x ∈ evs, noProgress c.phase x.2 = true) :
    runK S L ⟨c, []⟩ evs = .stays c := by
  induction evs with
  | nil => exact runK_nil_none hd
  | cons x rest ih =>
    obtain ⟨t, e⟩ := x
    have hx : noProgress c.phase e = true := hs (t, e) (List.mem_cons_self ..)
    simp only [runK, settleK_of_none (k := ⟨c, []⟩) (bodyTimeout_no_deadline _ hd), hd]
    rw [nextK_noProgress hr hx]; exact ih (fun y hy => hs y (List.mem_cons_of_mem _ hy))

/-- the loop closes a connection only at `anchor + limit` of the phase it stalled in -/
theorem runK_closed_wf {S : Stacking} {L : Limits} (evs : List (Nat × Ev)) {k : KConn} (h : WF L k.conn)
    {t a : Nat} {p : Phase} (hr : runK S L k evs = .closed t p a) :
    0 < limitOf L p ∧ t = a + limitOf L p := by
  induction evs generalizing k with
  | nil =>
    have hw := wf_settleEndK (S := S) h
    cases hd : (settleEndK S L k).conn.deadline with
    | none => simp [runK, hd] at hr
    | some d =>
      simp only [runK, hd] at hr
      injection hr with h1 h2 h3
      subst h1 h2 h3
      exact dl_eq_some (hw ▸ hd)
  | cons x rest ih =>
    obtain ⟨u, e⟩ := x
    have hw := wf_settleK (S := S) (max u k.conn.anchor) h
    cases hd : (settleK S L k (max u k.conn.anchor)).conn.deadline with
    | none =>
      simp only [runK, hd] at hr
      exact ih (wf_nextK _ _ hw) hr
    | some d =>
      simp only [runK, hd] at hr
      split at hr
      · injection hr with h1 h2 h3
        subst h1 h2 h3
        exact dl_eq_some (hw ▸ hd)
      · exact ih (wf_nextK _ _ hw) hr

theorem noProgress_partialHead {p : Phase} (b : Nat) (h : noProgress p .data = true) :
    ∀ e ∈ partialHead b, noProgress p e = true := by
  intro e he
  rw [List.eq_of_mem_replicate he]; exact h

/-- the loop comes round (the response has been relayed, at `u`) with `b > 0` pieces of the next head in
    the reader: `Peek(1)` returns at once and the header deadline is armed at `u` -/
theorem nextK_round_partialHead {S : Stacking} {L : Limits} {c : Conn} (u : Nat) {b : Nat}
    (hp : c.phase = .waitingForOrigin ∨ c.phase = .writing) (hb : 0 < b) :
    nextK S L ⟨c, partialHead b⟩ u .complete = ⟨enter L .header u, []⟩ := by
  have hn : next S L c u .complete = enter L .idle u := by
    rcases hp with hp | hp <;> simp [next, hp]
  have hnr : (notReading c.phase && sentByClient .complete) = false := by simp [sentByClient]
  obtain ⟨b, rfl⟩ : ∃ b', b = b' + 1 := ⟨b - 1, by omega⟩
  have hpk : (c.phase == .body && Ev.complete == .peeked) = false := by simp
  simp only [nextK, hnr, hpk, hn, partialHead, List.replicate_succ]
  simp only [Bool.false_eq_true, if_false, drain, enter, notReading]
  exact drain_noProgress u _ rfl (noProgress_partialHead b rfl)

/-- the variant that arms the limit anew before every read: a dribbling peer moves the closing instant
    with every piece -/
theorem runRearm_dribble {S : Stacking} {L : Limits} (n : Nat) {c : Conn} {s g : Nat}
    (hm : multiRead c.phase = true) (ha : c.anchor ≤ s)
    (hd : c.deadline = some (s + limitOf L c.phase)) (hg : g < limitOf L c.phase) :
    runRearm S L c (dribble s g n) = .closed (s + n * g + limitOf L c.phase) c.phase c.anchor := by
  induction n generalizing c s with
  | zero => simp [dribble, runRearm, hd]
  | succ n ih =>
    have hmax : max (s + g) c.anchor = s + g := by omega
    have hlim : 0 < limitOf L c.phase := by omega
    simp only [dribble, runRearm, hd, hmax]
    rw [if_neg (by omega)]
    have hn : nextRearm S L c (s + g) .data = { c with deadline := some (s + g + limitOf L c.phase) } := by
      simp [nextRearm, hm, dl, hlim]
    rw [hn, ih (c := { c with deadline := some (s + g + limitOf L c.phase) }) hm (by show c.anchor ≤ s + g; omega) rfl hg]
    show Outcome.closed (s + g + n * g + limitOf L c.phase) c.phase c.anchor = _
    rw [Nat.succ_mul]
    congr 1
    omega

/-- pieces that arrive while the proxy waits for the origin (no deadline armed) are kept in the reader -/
theorem runK_buffer_pieces {S : Stacking} {L : Limits} {c : Conn} (hp : notReading c.phase = true)
    (hd : c.deadline = none) (t : Nat) (b : Nat) (as : List Ev) (rest : List (Nat × Ev)) :
    runK S L ⟨c, as⟩ (List.replicate b (t, .data) ++ rest) = runK S L ⟨c, as ++ partialHead b⟩ rest := by
  induction b generalizing as with
  | zero => simp [partialHead]
  | succ b ih =>
    have hnb : c.phase ≠ .body := by intro hb; rw [hb] at hp; cases hp
    simp only [List.replicate_succ, List.cons_append, runK,
      settleK_of_none (k := ⟨c, as⟩) (bodyTimeout_not_body _ hnb), hd]
    have hn : nextK S L ⟨c, as⟩ (max t c.anchor) .data = ⟨c, as ++ [.data]⟩ := by
      simp [nextK, hp, sentByClient]
    rw [hn, ih]
    simp [partialHead, List.replicate_succ]

theorem dribble_all_data (s g n : Nat) : ∀ x ∈ dribble s g n, x.2 = .data := by
  induction n generalizing s with
  | zero => intro x hx; cases hx
  | succ n ih =>
    intro x hx
    simp only [dribble, List.mem_cons] at hx
    rcases hx with rfl | hx
    · rfl
    · exact ih _ x hx

/-! ## §5 a stall inside a request body under ReadTimeout (F49) -/

theorem next_body_data {S : Stacking} {L : Limits} {c : Conn} (t : Nat) (hp : c.phase = .body) :
    next S L c t .data = c :=
  next_noProgress (by rw [hp]; rfl)

/-- pieces of the body before the deadline `d`, then silence: answered 504 at `d`, idle from `d`, closed
    one idle timeout later -/
theorem run_body_silent {S : Stacking} {L : Limits} {c : Conn} {d : Nat} (hp : c.phase = .body)
    (hd : c.deadline = some d) (hi : 0 < idleLimit L) (evs : List (Nat × Ev))
    (hs : ∀ x ∈ evs, x.2 = .data ∧ max x.1 c.anchor < d) :
    run S L c evs = .closed (d + idleLimit L) .idle d := by
  induction evs with
  | nil => simp [run, settleEnd_body hp hd, enter, limitOf, dl, hi]
  | cons x rest ih =>
    obtain ⟨t, e⟩ := x
    obtain ⟨he, ht⟩ := hs (t, e) (List.mem_cons_self ..)
    simp only at he ht
    subst he
    rw [run_cons_before rest (by intro d' h'; rw [hd] at h'; injection h' with h'; omega),
      next_body_data _ hp]
    exact ih (fun y hy => hs y (List.mem_cons_of_mem _ hy))

theorem runK_body_silent {S : Stacking} {L : Limits} {c : Conn} {d : Nat} (hp : c.phase = .body)
    (hd : c.deadline = some d) (hi : 0 < idleLimit L) (evs : List (Nat × Ev))
    (hs : ∀ x ∈ evs, x.2 = .data ∧ max x.1 c.anchor < d) :
    runK S L ⟨c, []⟩ evs = .closed (d + idleLimit L) .idle d := by
  induction evs with
  | nil => simp [runK, settleEndK_nil, settleEnd_body hp hd, enter, limitOf, dl, hi]
  | cons x rest ih =>
    obtain ⟨t, e⟩ := x
    obtain ⟨he, ht⟩ := hs (t, e) (List.mem_cons_self ..)
    simp only at he ht
    subst he
    rw [runK_cons_before rest (by intro d' h'; simp only at h'; rw [hd] at h'; injection h' with h'; show max t c.anchor < d'; omega),
      nextK_noProgress (by rw [hp]; rfl) (by rw [hp]; rfl)]
    exact ih (fun y hy => hs y (List.mem_cons_of_mem _ hy))

/-- whatever pieces arrive and whenever: the phase in which a connection that stalled in a body is
    finally closed did not begin before the body deadline `d` -/
theorem run_body_stalled_anchor {S : Stacking} {L : Limits} {c : Conn} {d : Nat} (hp : c.phase = .body)
    (hd : c.deadline = some d) (evs : List (Nat × Ev)) (hs : ∀ x ∈ evs, x.2 = .data)
    {t s : Nat} {p : Phase} (hr : run S L c evs = .closed t p s) : d ≤ s := by
  induction evs with
  | nil =>
    simp only [run, settleEnd_body hp hd] at hr
    cases hdl : (enter L .idle d).deadline with
    | none => simp [hdl] at hr
    | some d' =>
      simp only [hdl] at hr
      injection hr with _ _ h3
      rw [← h3]; exact Nat.le_refl _
  | cons x rest ih =>
    obtain ⟨t', e⟩ := x
    have he : e = .data := hs (t', e) (List.mem_cons_self ..)
    subst he
    by_cases hdu : d ≤ max t' c.anchor
    · have hst := settle_body_expired (L := L) hp hd hdu
      have hnx : next S L (enter L .idle d) (max t' c.anchor) .data = enter L .header (max t' c.anchor) := rfl
      have hge : ∀ {t s p}, run S L (enter L .header (max t' c.anchor)) rest = .closed t p s → d ≤ s := by
        intro t s p h
        have := run_closed_anchor_ge rest (wf_enter L .header (max t' c.anchor)) h
        exact Nat.le_trans hdu this
      simp only [run, hst] at hr
      cases hdl : (enter L .idle d).deadline with
      | none =>
        simp only [hdl, hnx] at hr
        exact hge hr
      | some d' =>
        simp only [hdl, hnx] at hr
        split at hr
        · injection hr with _ _ h3
          rw [← h3]; exact Nat.le_refl _
        · exact hge hr
    · rw [run_cons_before rest (by intro d' h'; rw [hd] at h'; injection h' with h'; omega),
        next_body_data _ hp] at hr
      exact ih (fun y hy => hs y (List.mem_cons_of_mem _ hy)) hr

/-- no body read is abandoned while an event arrives before the deadline of a phase other than `body` -/
theorem timeoutsK_cons_before {S : Stacking} {L : Limits} {k : KConn} {t : Nat} {e : Ev}
    (rest : List (Nat × Ev)) (hnb : k.conn.phase ≠ .body)
    (h : ∀ d, k.conn.deadline = some d → max t k.conn.anchor < d) :
    timeoutsK S L k ((t, e) :: rest) = timeoutsK S L (nextK S L k (max t k.conn.anchor) e) rest := by
  have hst : settleK S L k (max t k.conn.anchor) = k := settleK_of_none (bodyTimeout_not_body _ hnb)
  cases hd : k.conn.deadline with
  | none => simp [timeoutsK, hst, hd, bodyTimeout_not_body _ hnb]
  | some d =>
    have := h d hd
    simp only [timeoutsK, hst, hd, bodyTimeout_not_body _ hnb, Option.toList, List.nil_append]
    rw [if_neg (by omega)]

theorem timeoutsK_nil_body {S : Stacking} {L : Limits} {c : Conn} {d : Nat} (as : List Ev)
    (hp : c.phase = .body) (hd : c.deadline = some d) : timeoutsK S L ⟨c, as⟩ [] = [d] := by
  obtain ⟨ph, an, de⟩ := c
  simp only at hp hd
  subst hp hd
  simp [timeoutsK]

/-! ## §7 the loop for an arbitrary expiry table (`lapse`, `runRe`) -/

/-- an expiry in a phase that is not in the table leaves the state as it is: the connection is closed there -/
theorem lapse_not_re {re : Phase → Bool} {L : Limits} (n : Nat) {c : Conn} (u : Nat) (h : re c.phase = false) :
    lapse re L n c u = c := by
  cases n with
  | zero => rfl
  | succ n => cases hd : c.deadline <;> simp [lapse, hd, h]

theorem lapseEnd_not_re {re : Phase → Bool} {L : Limits} (n : Nat) {c : Conn} (h : re c.phase = false) :
    lapseEnd re L n c = c := by
  cases n with
  | zero => rfl
  | succ n => cases hd : c.deadline <;> simp [lapseEnd, hd, h]

theorem reCode_eq (p : Phase) : reCode p = (p == .body) := by
  cases p <;> rfl

/-- with the table of the code `lapse` is `settle`, whatever the budget (one round is the most it takes) -/
theorem lapse_reCode (L : Limits) (n : Nat) (c : Conn) (u : Nat) : lapse reCode L (n + 1) c u = settle L c u := by
  obtain ⟨p, a, de⟩ := c
  cases de with
  | none => cases p <;> simp [lapse, settle]
  | some d =>
    have hi : lapse reCode L n (enter L .idle d) u = enter L .idle d := lapse_not_re n u rfl
    cases p <;> simp [lapse, settle, reCode_eq, hi]

theorem lapseEnd_reCode (L : Limits) (n : Nat) (c : Conn) : lapseEnd reCode L (n + 1) c = settleEnd L c := by
  obtain ⟨p, a, de⟩ := c
  cases de with
  | none => cases p <;> simp [lapseEnd, settleEnd]
  | some d =>
    have hi : lapseEnd reCode L n (enter L .idle d) = enter L .idle d := lapseEnd_not_re n rfl
    cases p <;> simp [lapseEnd, settleEnd, reCode_eq, hi]

theorem runRe_reCode {S : Stacking} {L : Limits} (n : Nat) (evs : List (Nat × Ev)) (c : Conn) :
    runRe reCode (n + 1) S L c evs = run S L c evs := by
  induction evs generalizing c with
  | nil => simp only [runRe, run, lapseEnd_reCode]
  | cons x rest ih =>
    obtain ⟨t, e⟩ := x
    simp only [runRe, run, lapse_reCode, ih]

/-- an expiry in a phase that is not in the table closes, whatever arrives afterwards -/
theorem runRe_expired_not_re {re : Phase → Bool} {S : Stacking} {L : Limits} (n : Nat) {c : Conn} {d t : Nat}
    (e : Ev) (rest : List (Nat × Ev)) (hd : c.deadline = some d) (hx : d ≤ max t c.anchor)
    (h : re c.phase = false) : runRe re n S L c ((t, e) :: rest) = .closed d c.phase c.anchor := by
  simp [runRe, lapse_not_re n _ h, hd, hx]

theorem runRe_nil_not_re {re : Phase → Bool} {S : Stacking} {L : Limits} (n : Nat) {c : Conn} {d : Nat}
    (hd : c.deadline = some d) (h : re c.phase = false) : runRe re n S L c [] = .closed d c.phase c.anchor := by
  simp [runRe, lapseEnd_not_re n h, hd]

/-! ## §9 what connections share: handshake admission -/

theorem runningMax_length (free : Nat) (as : List Nat) : (runningMax free as).length = as.length := by
  induction as generalizing free with
  | nil => rfl
  | cons a as ih => simp [runningMax, ih]

theorem hsBegins_none (L : Limits) (now : Nat) (held : List (Option Nat)) (rs : List HsReq) :
    hsBegins none L now held rs = rs.map fun r => some r.reach := by
  induction rs generalizing now held with
  | nil => rfl
  | cons r rs ih => simp only [hsBegins, hsBegin, List.map_cons, ih]

theorem hsEnd_stalled (L : Limits) (b : Nat) (script : List (Nat × Ev)) (h : ∀ x ∈ script, x.2 = .data) :
    hsEnd L b script = dl L.tls b := by
  induction script with
  | nil => rfl
  | cons x rest ih =>
    obtain ⟨t, e⟩ := x
    have he : e = .data := h (t, e) (by simp)
    have ih' := ih (fun x hx => h x (by simp [hx]))
    subst he
    cases hd : dl L.tls b with
    | none =>
      simp only [hsEnd, hd]
      simp [ih', hd]
    | some d =>
      simp only [hsEnd, hd]
      split
      · rfl
      · simp [ih', hd]

theorem heldAt_replicate (j a T : Nat) (h : a < T) :
    heldAt (List.replicate j (some T)) a = List.replicate j (some T) := by
  unfold heldAt
  rw [List.filter_eq_self]
  intro x hx
  rw [List.eq_of_mem_replicate hx]
  simp [stillHeld, h]

theorem firstFree_replicate (j T : Nat) : firstFree (List.replicate (j + 1) (some T)) = some T := by
  induction j with
  | zero => simp [firstFree]
  | succ j ih =>
    rw [List.replicate_succ]
    simp only [firstFree, ih, Nat.min_self]

/-- `m` connections that reach their handshake at 0 and send nothing fill `m` of the `n` slots (the other `j`
    are held until `T` as well); a connection that reaches its handshake at `a < T` when all are taken waits
    for the first cut-off -/
theorem hsBegins_pool_fill (n : Nat) (L : Limits) (h0 : 0 < L.tls) (a : Nat) (ha : a < L.tls)
    (s : List (Nat × Ev)) (m j : Nat) (hj : j + m = n) (hn : 0 < n) :
    hsBegins (some n) L 0 (List.replicate j (some L.tls)) (List.replicate m ⟨0, []⟩ ++ [⟨a, s⟩]) =
      List.replicate m (some 0) ++ [some L.tls] := by
  induction m generalizing j with
  | zero =>
    obtain ⟨i, rfl⟩ : ∃ i, n = i + 1 := ⟨n - 1, by omega⟩
    have hji : j = i + 1 := by omega
    subst hji
    simp only [List.replicate_zero, List.nil_append, hsBegins, hsBegin, Nat.zero_max,
      heldAt_replicate _ _ _ ha, List.length_replicate, Nat.lt_irrefl, if_false, firstFree_replicate]
  | succ m ih =>
    have hlt : j < n := by omega
    simp only [List.replicate_succ, List.cons_append, hsBegins, hsBegin, Nat.max_self,
      heldAt_replicate _ _ _ h0, List.length_replicate, hlt, if_true, hsEnd, dl, h0, Nat.zero_add]
    have := ih (j + 1) (by omega)
    rw [List.replicate_succ] at this
    rw [this]

end C15
end FwdVerif
