/-
  Request pipeline — helper lemmas, part 6 (core Lean only): the upgrade re-add step on its own,
  `Authorization` through the tail of the pipeline, and removal of nominated names stated with the
  key side conditions explicit (so that it also covers managed names the proxy does not write).
-/
import FwdVerif.Lemmas.ReqRules

namespace FwdVerif
namespace Req

open Ascii
open C16

variable {cfg : Cfg} {ctx : Ctx} {r : Request} {hop : Hop} {out : OutMsg}
  {g0 : GoReq} {h3 h4 : HMap} {auth : Option Bytes}

/-! ## the upgrade re-add step -/

/-- the last header step of `processRequest` (`h7 ↦ h8`): after the hop-by-hop fields were
    stripped, a captured upgrade type puts back `Connection: Upgrade` and `Upgrade: <type>` -/
def upgradeReadd (upType : Bytes) (h7 : HMap) : HMap :=
  if upType.isEmpty then h7
  else goSet (goSet h7 (bs "Connection") (bs "Upgrade")) (bs "Upgrade") upType

/-- the tail before the re-add: site credential, empty User-Agent -/
def tailBeforeUpgrade (cfg : Cfg) (h5 : HMap) : HMap :=
  let h6 := match cfg.siteCred with
    | some a => if (goGet h5 (bs "Authorization")).isEmpty then goSet h5 (bs "Authorization") a else h5
    | none => h5
  if (HMap.get h6 (bs "User-Agent")).isNone then goSet h6 (bs "User-Agent") [] else h6

theorem finishTail_eq_readd (cfg : Cfg) (up : Bytes) (h5 : HMap) :
    finishTail cfg up h5 = upgradeReadd up (tailBeforeUpgrade cfg h5) := rfl

theorem finish_eq_readd (cfg : Cfg) (up : Bytes) (h4 : HMap) :
    finish cfg up h4 = upgradeReadd up (tailBeforeUpgrade cfg (applyRules cfg.rules h4)) := rfl

theorem upgradeReadd_nil (h7 : HMap) : upgradeReadd [] h7 = h7 := rfl

theorem get_upgradeReadd_other (up : Bytes) (h7 : HMap) {k : Bytes}
    (hc : k ≠ bs "Connection") (hu : k ≠ bs "Upgrade") :
    HMap.get (upgradeReadd up h7) k = HMap.get h7 k := by
  unfold upgradeReadd
  split
  · rfl
  · rw [get_goSet_ne _ _ (by rw [ck_Upgrade]; exact hu),
      get_goSet_ne _ _ (by rw [ck_Connection]; exact hc)]

theorem hget_upgradeReadd_conn {up : Bytes} (h7 : HMap) (hne : up ≠ []) :
    hget (upgradeReadd up h7) (bs "Connection") = [bs "Upgrade"] := by
  unfold upgradeReadd
  have : up.isEmpty = false := by cases up with | nil => exact absurd rfl hne | cons _ _ => rfl
  simp only [this, Bool.false_eq_true, if_false]
  rw [hget_congr (get_goSet_ne _ _ ne_conn_upg), hget_goSet_self' _ _ ck_Connection]

theorem hget_upgradeReadd_upg {up : Bytes} (h7 : HMap) (hne : up ≠ []) :
    hget (upgradeReadd up h7) (bs "Upgrade") = [up] := by
  unfold upgradeReadd
  have : up.isEmpty = false := by cases up with | nil => exact absurd rfl hne | cons _ _ => rfl
  simp only [this, Bool.false_eq_true, if_false]
  exact hget_goSet_self' _ _ ck_Upgrade

/-- the map the re-add step produces differs from its input in at most the two keys -/
theorem keys_upgradeReadd (up : Bytes) (h7 : HMap) {e : Bytes × List Bytes}
    (he : e ∈ upgradeReadd up h7) : e ∈ h7 ∨ e = (bs "Connection", [bs "Upgrade"]) ∨ e = (bs "Upgrade", [up]) := by
  unfold upgradeReadd at he
  split at he
  · exact Or.inl he
  · unfold goSet at he
    rcases C16.mem_put he with he | he
    · rcases C16.mem_put he with he | he
      · exact Or.inl he
      · right; left
        rw [ck_Connection] at he
        exact he
    · right; right
      rw [ck_Upgrade] at he
      exact he

/-! ## Authorization through the tail -/

theorem ck_Auth : canonicalKey (bs "Authorization") = bs "Authorization" := by decide +kernel
theorem ne_auth_ua : bs "Authorization" ≠ canonicalKey (bs "User-Agent") := by decide +kernel
theorem ne_auth_conn : bs "Authorization" ≠ canonicalKey (bs "Connection") := by decide +kernel
theorem ne_auth_upg : bs "Authorization" ≠ canonicalKey (bs "Upgrade") := by decide +kernel

/-- `Authorization` after the tail: the site credential iff one is configured for the target and
    the first surviving client value is empty -/
theorem hget_finishTail_auth (cfg : Cfg) (up : Bytes) (h5 : HMap) :
    hget (finishTail cfg up h5) (bs "Authorization") =
      match cfg.siteCred with
      | some a => if (goGet h5 (bs "Authorization")).isEmpty then [a] else hget h5 (bs "Authorization")
      | none => hget h5 (bs "Authorization") := by
  unfold finishTail
  extract_lets h6 h7
  have e7 : HMap.get h7 (bs "Authorization") = HMap.get h6 (bs "Authorization") :=
    get_ite_goSet_ne _ _ _ ne_auth_ua
  have e6 : hget h6 (bs "Authorization") =
      match cfg.siteCred with
      | some a => if (goGet h5 (bs "Authorization")).isEmpty then [a] else hget h5 (bs "Authorization")
      | none => hget h5 (bs "Authorization") := by
    simp only [h6]
    cases cfg.siteCred with
    | none => rfl
    | some a =>
      simp only []
      split
      · exact hget_goSet_self' _ _ ck_Auth
      · rfl
  split
  · rw [hget_congr e7]; exact e6
  · rw [hget_congr (get_goSet_ne _ _ ne_auth_upg), hget_congr (get_goSet_ne _ _ ne_auth_conn),
      hget_congr e7]
    exact e6

theorem tok_authorization : (bs "authorization").all isTokenByte = true := by decide +kernel
theorem low_authorization : lower (bs "authorization") = bs "authorization" := by decide +kernel
theorem ck_authorization : canonicalKey (bs "authorization") = bs "Authorization" := by decide +kernel

/-- `Authorization` as the Via modifier leaves it: the client's values unless nominated -/
theorem Trace.hget4_auth (t : Trace cfg ctx r hop out g0 h3 h4 auth) :
    hget h4 (bs "Authorization") = survivingValues r (bs "authorization") := by
  have h3' := t.hget3_name (n := bs "authorization") tok_authorization low_authorization
    (by decide +kernel) (by decide +kernel) (by decide +kernel) (by decide +kernel)
  rw [ck_authorization] at h3'
  rw [hget_congr (t.get4 (by decide +kernel)), h3']

/-- `Authorization` at the hop, exactly (no `--header` rules) -/
theorem Trace.outValues_auth (t : Trace cfg ctx r hop out g0 h3 h4 auth) (hr : cfg.rules = []) :
    outValues out (bs "authorization") =
      match cfg.siteCred with
      | some a => if (survivingFirst r (bs "authorization")).isEmpty then [a]
                  else survivingValues r (bs "authorization")
      | none => survivingValues r (bs "authorization") := by
  rw [t.outValues_other hr tok_authorization low_authorization (by decide +kernel), ck_authorization,
    finish_eq, hr]
  show hget (finishTail cfg (upgradeType g0.header) h4) (bs "Authorization") = _
  rw [hget_finishTail_auth, t.hget4_auth]
  have : goGet h4 (bs "Authorization") = survivingFirst r (bs "authorization") := by
    unfold goGet survivingFirst
    rw [ck_Auth, t.hget4_auth]
  rw [this]

/-! ## nominated names, key conditions explicit -/

/-- a nominated name whose key no later stage writes is absent from the header given to the writer -/
theorem Trace.hget_nominated_removed (t : Trace cfg ctx r hop out g0 h3 h4 auth) (hr : cfg.rules = [])
    {n : Bytes} (hn : n.all isTokenByte = true) (hl : lower n = n) (hnom : n ∈ nominated r)
    (k3 : canonicalKey n ∉ fwdKeys) (k4 : canonicalKey n ≠ canonicalKey (bs "Content-Length"))
    (k5 : canonicalKey n ≠ canonicalKey (bs "Via")) (k6 : canonicalKey n ∉ tailKeys) :
    hget (finish cfg (upgradeType g0.header) h4) (canonicalKey n) = [] := by
  rw [hget_eq, t.get8 hr k5 k6,
    t.get3_removed (Or.inl ((mem_nominatedKeys_iff r hn hl).mpr hnom)) k3 k4]
  rfl

/-- names the writer produces are all proxy-written or `user-agent` -/
theorem writerNames_written : ∀ n ∈ writerNames, n ∈ proxyWrittenLower ++ [bs "user-agent"] := by
  decide +kernel

theorem stageKeys_written :
    (∀ s ∈ fwdKeys, lower s ∈ proxyWrittenLower ++ [bs "user-agent"]) ∧
    (∀ s ∈ [bs "Content-Length", bs "Via"], lower s ∈ proxyWrittenLower ++ [bs "user-agent"]) ∧
    (∀ s ∈ tailKeys, lower s ∈ proxyWrittenLower ++ [bs "user-agent"]) := by decide +kernel

end Req
end FwdVerif
