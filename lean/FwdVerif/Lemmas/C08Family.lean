/-
  C08 helper lemmas, part 8: characterised families of texts that the `net.ParseIP` / `strconv.Atoi`
  models provably accept: every dotted quad of canonical decimal octets, every full-form IPv6
  address (eight groups of four lower-case hex digits), every canonical decimal port 0..99999.
-/
import FwdVerif.Lemmas.C08Parse

namespace FwdVerif
namespace C08

/-- ASCII digit -/
def dg (k : Nat) : UInt8 := UInt8.ofNat (48 + k)

/-- canonical decimal spelling of an octet (no leading zeros) -/
def dec8 (n : Nat) : Bytes :=
  if n < 10 then [dg n]
  else if n < 100 then [dg (n / 10), dg (n % 10)]
  else [dg (n / 100), dg (n / 10 % 10), dg (n % 10)]

theorem dg_facts : ∀ k, k < 10 → isDigit (dg k) = true ∧ (dg k).toNat - 48 = k ∧
    ((dg k == 46 || dg k == 58 || dg k == 37) = false) := by
  decide

theorem dg_digit {k : Nat} (h : k < 10) : isDigit (dg k) = true := (dg_facts k h).1
theorem dg_val {k : Nat} (h : k < 10) : (dg k).toNat - 48 = k := (dg_facts k h).2.1

/-- the loop of `parseIPv4Fields` over one canonical octet -/
theorem v4Loop_dec8 {n : Nat} (hn : n < 256) (rest : Bytes) (pos : Nat) (acc : Bytes)
 :
    ∃ dl, dl ≠ 0 ∧ v4Loop (dec8 n ++ rest) 0 pos 0 acc = v4Loop rest n pos dl acc := by
  unfold dec8
  split
  · rename_i h10
    refine ⟨1, by omega, ?_⟩
    simp only [List.cons_append, List.nil_append]
    rw [v4Loop]
    simp [dg_digit h10, dg_val h10]
    omega
  · split
    · rename_i h10 h100
      have a1 : n / 10 < 10 := by omega
      have a2 : n % 10 < 10 := by omega
      refine ⟨2, by omega, ?_⟩
      simp only [List.cons_append, List.nil_append]
      rw [v4Loop]
      simp [dg_digit a1, dg_val a1]
      rw [if_neg (by omega)]
      rw [v4Loop]
      simp [dg_digit a2, dg_val a2]
      rw [if_neg h10, if_neg (by omega)]
      congr 1
      omega
    · rename_i h10 h100
      have a1 : n / 100 < 10 := by omega
      have a2 : n / 10 % 10 < 10 := by omega
      have a3 : n % 10 < 10 := by omega
      refine ⟨3, by omega, ?_⟩
      simp only [List.cons_append, List.nil_append]
      rw [v4Loop]
      simp [dg_digit a1, dg_val a1]
      rw [if_neg (by omega)]
      rw [v4Loop]
      simp [dg_digit a2, dg_val a2]
      rw [if_neg (by omega), if_neg (by omega)]
      rw [v4Loop]
      simp [dg_digit a3, dg_val a3]
      rw [if_neg (by omega)]
      congr 1
      omega


theorem dec8_ne_nil (n : Nat) : dec8 n ≠ [] := by
  unfold dec8
  split
  · simp
  · split <;> simp

theorem v4Loop_dot {r : Bytes} {val pos dl : Nat} {acc : Bytes} (hdl : dl ≠ 0) (hr : r ≠ []) (hp : pos < 3) :
    v4Loop (46 :: r) val pos dl acc = v4Loop r 0 (pos + 1) 0 (acc ++ [UInt8.ofNat val]) := by
  rw [v4Loop]
  have h1 : isDigit 46 = false := by decide
  have h2 : (pos == 3) = false := by simp; omega
  cases r with
  | nil => exact absurd rfl hr
  | cons x xs => simp [h1, hdl, h2]

theorem firstSpecial_dec8 (n : Nat) (hn : n < 256) (r : Bytes) : firstSpecial (dec8 n ++ 46 :: r) = some 46 := by
  have f : ∀ k, k < 10 → (dg k == 46 || dg k == 58 || dg k == 37) = false := fun k hk => (dg_facts k hk).2.2
  unfold dec8
  split
  · rename_i h
    simp [firstSpecial, f n h]
  · split
    · simp [firstSpecial, f (n / 10) (by omega), f (n % 10) (by omega)]
    · simp [firstSpecial, f (n / 100) (by omega), f (n / 10 % 10) (by omega), f (n % 10) (by omega)]

/-- `a.b.c.d` in canonical decimal -/
def dottedQuad (a b c d : Nat) : Bytes := dec8 a ++ 46 :: (dec8 b ++ 46 :: (dec8 c ++ 46 :: dec8 d))

/-- every dotted quad of canonical decimal octets is accepted, with the expected 16-byte result -/
theorem parseIP_dottedQuad {a b c d : Nat} (ha : a < 256) (hb : b < 256) (hc : c < 256) (hd : d < 256) :
    parseIP (dottedQuad a b c d) =
      some (v4InV6Prefix ++ [UInt8.ofNat a, UInt8.ofNat b, UInt8.ofNat c, UInt8.ofNat d]) ∧
    isV4Text (dottedQuad a b c d) = true := by
  have hfs : firstSpecial (dottedQuad a b c d) = some 46 := firstSpecial_dec8 a ha _
  refine ⟨?_, by simp [isV4Text, hfs]⟩
  unfold parseIP
  rw [hfs]
  have hp : parseV4Fields (dottedQuad a b c d) = some [UInt8.ofNat a, UInt8.ofNat b, UInt8.ofNat c, UInt8.ofNat d] := by
    unfold parseV4Fields dottedQuad
    obtain ⟨d1, h1, e1⟩ := v4Loop_dec8 ha (46 :: (dec8 b ++ 46 :: (dec8 c ++ 46 :: dec8 d))) 0 []
    rw [e1, v4Loop_dot h1 (by simp) (by omega)]
    obtain ⟨d2, h2, e2⟩ := v4Loop_dec8 hb (46 :: (dec8 c ++ 46 :: dec8 d)) 1 ([] ++ [UInt8.ofNat a])
    rw [e2, v4Loop_dot h2 (by simp) (by omega)]
    obtain ⟨d3, h3, e3⟩ := v4Loop_dec8 hc (46 :: dec8 d) 2 ([] ++ [UInt8.ofNat a] ++ [UInt8.ofNat b])
    rw [e3, v4Loop_dot h3 (dec8_ne_nil d) (by omega)]
    obtain ⟨d4, h4, e4⟩ := v4Loop_dec8 hd [] 3 ([] ++ [UInt8.ofNat a] ++ [UInt8.ofNat b] ++ [UInt8.ofNat c])
    rw [List.append_nil] at e4
    rw [e4]
    simp [v4Loop]
  rw [hp]
  rfl

/-- canonical decimal spelling of a port number -/
def dec16 (n : Nat) : Bytes :=
  if n < 10 then [dg n]
  else if n < 100 then [dg (n / 10), dg (n % 10)]
  else if n < 1000 then [dg (n / 100), dg (n / 10 % 10), dg (n % 10)]
  else if n < 10000 then [dg (n / 1000), dg (n / 100 % 10), dg (n / 10 % 10), dg (n % 10)]
  else [dg (n / 10000), dg (n / 1000 % 10), dg (n / 100 % 10), dg (n / 10 % 10), dg (n % 10)]

theorem dg_sign : ∀ k, k < 10 → (dg k == 45) = false ∧ (dg k == 43) = false := by decide

theorem atoi_digits {c : UInt8} {r : Bytes} {v : Nat} (h45 : (c == 45) = false) (h43 : (c == 43) = false)
    (hv : digitsVal (c :: r) 0 = some v) (hr : v ≤ 9223372036854775807) : atoi (c :: r) = some (v : Int) := by
  simp [atoi, h45, h43, atoiDigits, hv, hr]

theorem atoi_dec16 {n : Nat} (hn : n < 100000) : atoi (dec16 n) = some (n : Int) := by
  unfold dec16
  split
  · rename_i h
    have := dg_sign n h
    apply atoi_digits this.1 this.2 _ (by omega)
    simp [digitsVal, dg_digit h, dg_val h]
  · split
    · have a1 : n / 10 < 10 := by omega
      have a2 : n % 10 < 10 := by omega
      have := dg_sign _ a1
      apply atoi_digits this.1 this.2 _ (by omega)
      simp [digitsVal, dg_digit a1, dg_val a1, dg_digit a2, dg_val a2]
      omega
    · split
      · have a1 : n / 100 < 10 := by omega
        have a2 : n / 10 % 10 < 10 := by omega
        have a3 : n % 10 < 10 := by omega
        have := dg_sign _ a1
        apply atoi_digits this.1 this.2 _ (by omega)
        simp [digitsVal, dg_digit a1, dg_val a1, dg_digit a2, dg_val a2, dg_digit a3, dg_val a3]
        omega
      · split
        · have a1 : n / 1000 < 10 := by omega
          have a2 : n / 100 % 10 < 10 := by omega
          have a3 : n / 10 % 10 < 10 := by omega
          have a4 : n % 10 < 10 := by omega
          have := dg_sign _ a1
          apply atoi_digits this.1 this.2 _ (by omega)
          simp [digitsVal, dg_digit a1, dg_val a1, dg_digit a2, dg_val a2, dg_digit a3, dg_val a3, dg_digit a4, dg_val a4]
          omega
        · have a1 : n / 10000 < 10 := by omega
          have a2 : n / 1000 % 10 < 10 := by omega
          have a3 : n / 100 % 10 < 10 := by omega
          have a4 : n / 10 % 10 < 10 := by omega
          have a5 : n % 10 < 10 := by omega
          have := dg_sign _ a1
          apply atoi_digits this.1 this.2 _ (by omega)
          simp [digitsVal, dg_digit a1, dg_val a1, dg_digit a2, dg_val a2, dg_digit a3, dg_val a3, dg_digit a4, dg_val a4,
            dg_digit a5, dg_val a5]
          omega

theorem dec16_length (n : Nat) : 1 ≤ (dec16 n).length ∧ (dec16 n).length ≤ 5 := by
  unfold dec16
  split
  · simp
  · split
    · simp
    · split
      · simp
      · split <;> simp

/-- lower-case hex digit -/
def hx (k : Nat) : UInt8 := if k < 10 then UInt8.ofNat (48 + k) else UInt8.ofNat (87 + k)

/-- a 16-bit group as four hex digits -/
def hex4 (g : Nat) : Bytes := [hx (g / 4096), hx (g / 256 % 16), hx (g / 16 % 16), hx (g % 16)]

theorem hx_facts : ∀ k, k < 16 → hexVal (hx k) = some k ∧ (hx k == 46 || hx k == 58 || hx k == 37) = false ∧ hx k ≠ 58 ∧ hx k ≠ 37 := by
  decide

theorem hexGroup_hex4 {g : Nat} (hg : g < 65536) (rest : Bytes) (hrest : rest = [] ∨ ∃ r, rest = 58 :: r) :
    hexGroup (hex4 g ++ rest) 0 0 = some (g, 4, rest) := by
  have f0 := (hx_facts (g / 4096) (by omega)).1
  have f1 := (hx_facts (g / 256 % 16) (by omega)).1
  have f2 := (hx_facts (g / 16 % 16) (by omega)).1
  have f3 := (hx_facts (g % 16) (by omega)).1
  unfold hex4
  simp only [List.cons_append, List.nil_append]
  rw [hexGroup]; simp only [f0]
  rw [if_neg (by omega), if_neg (by omega)]
  rw [hexGroup]; simp only [f1]
  rw [if_neg (by omega), if_neg (by omega)]
  rw [hexGroup]; simp only [f2]
  rw [if_neg (by omega), if_neg (by omega)]
  rw [hexGroup]; simp only [f3]
  rw [if_neg (by omega), if_neg (by omega)]
  have e : (((0 * 16 + g / 4096) * 16 + g / 256 % 16) * 16 + g / 16 % 16) * 16 + g % 16 = g := by omega
  have o : 0 + 1 + 1 + 1 + 1 = 4 := rfl
  rw [e, o]
  rcases hrest with h | ⟨r, h⟩
  · subst h; rfl
  · subst h
    rw [hexGroup]
    have : hexVal 58 = none := by decide
    simp only [this]

def grpBytes (g : Nat) : Bytes := [UInt8.ofNat (g / 256), UInt8.ofNat (g % 256)]

theorem v6Loop_mid {n g : Nat} (hg : g < 65536) {ip : Bytes} (hip : ip.length < 16) {c2 : UInt8} (s2 : Bytes)
    (hc2 : c2 ≠ 58) :
    v6Loop (n + 1) (hex4 g ++ 58 :: c2 :: s2) ip none = v6Loop n (c2 :: s2) (ip ++ grpBytes g) none := by
  rw [v6Loop]
  rw [if_neg (by omega)]
  rw [hexGroup_hex4 hg _ (Or.inr ⟨_, rfl⟩)]
  simp [hc2, grpBytes]

theorem v6Loop_last {n g : Nat} (hg : g < 65536) {ip : Bytes} (hip : ip.length < 16) :
    v6Loop (n + 1) (hex4 g) ip none = some (ip ++ grpBytes g, none, []) := by
  rw [v6Loop]
  rw [if_neg (by omega)]
  have := hexGroup_hex4 hg [] (Or.inl rfl)
  rw [List.append_nil] at this
  rw [this]
  simp [grpBytes]

/-- groups separated by single colons -/
def render : List Nat → Bytes
  | [] => []
  | [g] => hex4 g
  | g :: g' :: gs => hex4 g ++ 58 :: render (g' :: gs)

theorem render_head (g : Nat) (gs : List Nat) : ∃ t, render (g :: gs) = hx (g / 4096) :: t := by
  cases gs with
  | nil => exact ⟨_, rfl⟩
  | cons g' gs => exact ⟨_, rfl⟩

theorem v6Loop_render : ∀ (gs : List Nat) (fuel : Nat) (ip : Bytes), gs ≠ [] → (∀ g ∈ gs, g < 65536) →
    ip.length + 2 * gs.length ≤ 16 → gs.length ≤ fuel →
    v6Loop fuel (render gs) ip none = some (ip ++ gs.flatMap grpBytes, none, []) := by
  intro gs
  induction gs with
  | nil => intro _ _ h; exact absurd rfl h
  | cons g gs ih =>
    intro fuel ip _ hall hlen hfuel
    have hg : g < 65536 := hall g (by simp)
    cases fuel with
    | zero => simp at hfuel
    | succ n =>
      cases gs with
      | nil =>
        simp only [render]
        rw [v6Loop_last hg (by simp at hlen; omega)]
        simp
      | cons g' gs' =>
        obtain ⟨t, ht⟩ := render_head g' gs'
        have hg' : g' < 65536 := hall g' (by simp)
        simp only [render] at ht ⊢
        rw [ht, v6Loop_mid hg (by simp at hlen; omega) t (hx_facts _ (by omega)).2.2.1, ← ht]
        rw [ih n (ip ++ grpBytes g) (by simp) (fun x hx => hall x (by simp [hx])) (by simp [grpBytes] at hlen ⊢; omega)
          (by simp at hfuel ⊢; omega)]
        simp [List.append_assoc]

theorem render_chars : ∀ (gs : List Nat), (∀ g ∈ gs, g < 65536) → ∀ c ∈ render gs, c ≠ 37 := by
  intro gs
  induction gs with
  | nil => intro _ c hc; cases hc
  | cons g gs ih =>
    intro hall c hc
    have hg : g < 65536 := hall g (by simp)
    have h4 : ∀ c ∈ hex4 g, c ≠ 37 := by
      intro c hc
      simp only [hex4, List.mem_cons] at hc
      rcases hc with e | e | e | e | e
      · rw [e]; exact (hx_facts _ (by omega)).2.2.2
      · rw [e]; exact (hx_facts _ (by omega)).2.2.2
      · rw [e]; exact (hx_facts _ (by omega)).2.2.2
      · rw [e]; exact (hx_facts _ (by omega)).2.2.2
      · cases e
    cases gs with
    | nil => exact h4 c hc
    | cons g' gs' =>
      simp only [render, List.mem_append, List.mem_cons] at hc
      rcases hc with hc | hc | hc
      · exact h4 c hc
      · rw [hc]; decide
      · exact ih (fun x hx => hall x (by simp [hx])) c hc

theorem firstSpecial_render (g g' : Nat) (gs : List Nat) (hg : g < 65536) :
    firstSpecial (render (g :: g' :: gs)) = some 58 := by
  have f : ∀ k, k < 16 → (hx k == 46 || hx k == 58 || hx k == 37) = false := fun k hk => (hx_facts k hk).2.1
  simp [render, hex4, firstSpecial, f (g / 4096) (by omega), f (g / 256 % 16) (by omega), f (g / 16 % 16) (by omega),
    f (g % 16) (by omega)]

/-- every full-form IPv6 address (eight groups of four lower-case hex digits) is accepted, with the
    expected 16 bytes -/
theorem parseIP_fullV6 (gs : List Nat) (h8 : gs.length = 8) (hall : ∀ g ∈ gs, g < 65536) :
    parseIP (render gs) = some (gs.flatMap grpBytes) ∧ isV6Text (render gs) = true := by
  match gs, h8 with
  | g :: g' :: gs', h8 =>
    have hg : g < 65536 := hall g (by simp)
    have hfs := firstSpecial_render g g' gs' hg
    refine ⟨?_, by simp [isV6Text, hfs]⟩
    unfold parseIP
    rw [hfs]
    have hno : (render (g :: g' :: gs')).contains 37 = false := by
      have := render_chars _ hall
      simp only [List.contains_eq_mem, decide_eq_false_iff_not]
      intro hm; exact this 37 hm rfl
    simp only [hno, Bool.false_eq_true, if_false]
    unfold parseV6
    have hstart : render (g :: g' :: gs') = hx (g / 4096) :: (render (g :: g' :: gs')).tail := by
      simp [render, hex4]
    have hne : hx (g / 4096) ≠ 58 := (hx_facts _ (by omega)).2.2.1
    have hl := v6Loop_render (g :: g' :: gs') 8 [] (by simp) hall (by simp at h8 ⊢; omega) (by omega)
    split
    · rename_i r heq
      rw [hstart] at heq
      injection heq with e1 _
      exact absurd e1 hne
    · simp only [Option.isSome_none, Bool.false_and, Bool.false_eq_true, if_false]
      rw [hl]
      have hlen : (gs'.flatMap grpBytes).length = 12 := by
        have : ∀ l : List Nat, (l.flatMap grpBytes).length = 2 * l.length := by
          intro l; induction l with
          | nil => rfl
          | cons x xs ih => simp [List.flatMap_cons, grpBytes, ih]; omega
        rw [this]; simp at h8; omega
      simp [grpBytes, hlen]


/-! ### lengths -/

theorem dec8_length (n : Nat) : (dec8 n).length ≤ 3 := by
  unfold dec8
  split
  · simp
  · split <;> simp

theorem dottedQuad_length (a b c d : Nat) : (dottedQuad a b c d).length ≤ 15 := by
  have := dec8_length a
  have := dec8_length b
  have := dec8_length c
  have := dec8_length d
  simp [dottedQuad]; omega

theorem render_length : ∀ (gs : List Nat), gs ≠ [] → (render gs).length = 5 * gs.length - 1 := by
  intro gs
  induction gs with
  | nil => intro h; exact absurd rfl h
  | cons g gs ih =>
    intro _
    cases gs with
    | nil => simp [render, hex4]
    | cons g' gs' =>
      have := ih (by simp)
      simp only [render, List.length_append, List.length_cons] at this ⊢
      simp [hex4] at this ⊢
      omega

end C08
end FwdVerif
