/-
  C03 — the two pipes of the tunnel machine share no state (core Lean only).

  `Recarry d st st'`: `st'` is `st`, except that a write of the *source endpoint of direction `d`*
  may carry other bytes (as many).  `Sim d s t`: `t` is `s`, except for the bytes direction `d`
  carries — the opposite pipe is identical, the pipe of `d` has the same shape (lengths, counters,
  flags).  Every guard of `step` reads lengths, counters and flags only, so `Sim` is a lock-step
  simulation: the same schedule is accepted, and the opposite direction cannot tell the difference.
  In the code this is `bicopy` starting two `copier`s that have nothing in common — each takes its own
  buffer from `copyBufPool` (`copy.go`).
-/
import FwdVerif.Lemmas.C03

set_option linter.unusedSimpArgs false

namespace FwdVerif
namespace C03

inductive Recarry (d : Dir) : Step → Step → Prop where
  | same (st : Step) : Recarry d st st
  | client (a b : Bytes) : d = .up → a.length = b.length → Recarry d (.clientWrite a) (.clientWrite b)
  | target (a b : Bytes) : d = .down → a.length = b.length → Recarry d (.targetWrite a) (.targetWrite b)

/-- schedules that differ at most in the bytes the source of direction `d` writes -/
inductive RecarryAll (d : Dir) : List Step → List Step → Prop where
  | nil : RecarryAll d [] []
  | cons {st st' : Step} {r r' : List Step} :
      Recarry d st st' → RecarryAll d r r' → RecarryAll d (st :: r) (st' :: r')

theorem recarryAll_refl (d : Dir) : ∀ steps : List Step, RecarryAll d steps steps
  | [] => .nil
  | st :: r => .cons (.same st) (recarryAll_refl d r)

structure PipeShape (p q : Pipe) : Prop where
  written : q.written.length = p.written.length
  fin : q.fin = p.fin
  taken : q.taken = p.taken
  held : q.held.length = p.held.length
  delivered : q.delivered.length = p.delivered.length
  eof : q.eof = p.eof
  done : q.done = p.done

theorem pipeShape_refl (p : Pipe) : PipeShape p p := ⟨rfl, rfl, rfl, rfl, rfl, rfl, rfl⟩

theorem PipeShape.avail {p q : Pipe} (h : PipeShape p q) : q.avail = p.avail := by
  simp only [Pipe.avail, h.written, h.taken, h.held]

theorem PipeShape.pull {p q : Pipe} (h : PipeShape p q) (n : Nat) : PipeShape (p.pull n) (q.pull n) := by
  constructor <;>
    simp only [Pipe.pull, List.length_append, List.length_take, List.length_drop, h.written, h.fin,
      h.taken, h.held, h.delivered, h.eof, h.done]

structure Sim (d : Dir) (s t : State) : Prop where
  phase : t.phase = s.phase
  dropped : t.dropped = s.dropped
  grace : t.grace = s.grace
  expired : t.expired = s.expired
  closedC : t.closedC = s.closedC
  closedT : t.closedT = s.closedT
  other : t.pipe d.other = s.pipe d.other
  shape : PipeShape (s.pipe d) (t.pipe d)

theorem sim_refl (d : Dir) (s : State) : Sim d s s :=
  ⟨rfl, rfl, rfl, rfl, rfl, rfl, rfl, pipeShape_refl _⟩

/-- both pipes of `t` have the shape of the pipes of `s` -/
theorem Sim.shapeUp {d : Dir} {s t : State} (h : Sim d s t) : PipeShape s.up t.up := by
  cases d
  · exact h.shape
  · have := h.other; simp only [other_down, pipe_up] at this; rw [this]; exact pipeShape_refl _

theorem Sim.shapeDown {d : Dir} {s t : State} (h : Sim d s t) : PipeShape s.down t.down := by
  cases d
  · have := h.other; simp only [other_up, pipe_down] at this; rw [this]; exact pipeShape_refl _
  · exact h.shape

theorem Sim.shapeAny {d : Dir} {s t : State} (h : Sim d s t) (e : Dir) : PipeShape (s.pipe e) (t.pipe e) := by
  cases e
  · exact h.shapeUp
  · exact h.shapeDown

/-- a step that is the same on both sides -/
theorem sim_step_same {c : Cfg} {d : Dir} {s t s' : State} {st : Step} (hs : Sim d s t)
    (h : step c s st = some s') : ∃ t', step c t st = some t' ∧ Sim d s' t' := by
  have su := hs.shapeUp
  have sd := hs.shapeDown
  have hoth := hs.other
  cases st with
  | clientWrite seg =>
    simp only [step] at h ⊢
    split at h
    · exact absurd h (by simp)
    · rename_i hf
      have := some_inj h; subst this
      rw [if_neg (by rw [su.fin]; exact hf)]
      refine ⟨_, rfl, ?_⟩
      cases d
      · exact ⟨hs.phase, hs.dropped, hs.grace, hs.expired, hs.closedC, hs.closedT, hoth,
          ⟨by simp [su.written], su.fin, su.taken, su.held, su.delivered, su.eof, su.done⟩⟩
      · simp only [other_down, pipe_up] at hoth
        exact ⟨hs.phase, hs.dropped, hs.grace, hs.expired, hs.closedC, hs.closedT,
          by simp only [other_down, pipe_up]; rw [hoth], hs.shape⟩
  | targetWrite seg =>
    simp only [step] at h ⊢
    split at h
    · exact absurd h (by simp)
    · rename_i hf
      have := some_inj h; subst this
      rw [if_neg (by rw [sd.fin]; exact hf)]
      refine ⟨_, rfl, ?_⟩
      cases d
      · simp only [other_up, pipe_down] at hoth
        exact ⟨hs.phase, hs.dropped, hs.grace, hs.expired, hs.closedC, hs.closedT,
          by simp only [other_up, pipe_down]; rw [hoth], hs.shape⟩
      · exact ⟨hs.phase, hs.dropped, hs.grace, hs.expired, hs.closedC, hs.closedT, hoth,
          ⟨by simp [sd.written], sd.fin, sd.taken, sd.held, sd.delivered, sd.eof, sd.done⟩⟩
  | fin e =>
    simp only [step] at h ⊢
    split at h
    · exact absurd h (by simp)
    · rename_i hf
      have := some_inj h; subst this
      have se := hs.shapeAny e
      rw [if_neg (by rw [se.fin]; exact hf)]
      refine ⟨_, rfl, ?_⟩
      cases d <;> cases e <;>
        simp only [other_up, other_down, pipe_up, pipe_down, setPipe_up, setPipe_down] at hoth ⊢ <;>
        first
          | exact ⟨hs.phase, hs.dropped, hs.grace, hs.expired, hs.closedC, hs.closedT, hoth,
              ⟨hs.shape.written, rfl, hs.shape.taken, hs.shape.held, hs.shape.delivered, hs.shape.eof,
                hs.shape.done⟩⟩
          | exact ⟨hs.phase, hs.dropped, hs.grace, hs.expired, hs.closedC, hs.closedT,
              by simp only [other_up, other_down, pipe_up, pipe_down]; rw [hoth], hs.shape⟩
  | readHead k =>
    simp only [step] at h ⊢
    split at h
    · rename_i hc
      have := some_inj h; subst this
      rw [if_pos (by rw [hs.phase, su.written]; exact hc)]
      refine ⟨_, rfl, ?_⟩
      cases d
      · exact ⟨by simp, hs.dropped, hs.grace, hs.expired, hs.closedC, hs.closedT, hoth,
          ⟨su.written, su.fin, rfl, by simp [su.written], su.delivered, su.eof, su.done⟩⟩
      · simp only [other_down, pipe_up] at hoth
        exact ⟨by simp, hs.dropped, hs.grace, hs.expired, hs.closedC, hs.closedT,
          by simp only [other_down, pipe_up]; rw [hoth], hs.shape⟩
    · exact absurd h (by simp)
  | replyRead n =>
    simp only [step] at h ⊢
    split at h
    · rename_i hc
      have := some_inj h; subst this
      rw [if_pos (by rw [hs.phase, sd.taken, sd.written]; exact hc)]
      refine ⟨_, rfl, ?_⟩
      cases d
      · simp only [other_up, pipe_down] at hoth
        exact ⟨hs.phase, hs.dropped, hs.grace, hs.expired, hs.closedC, hs.closedT,
          by simp only [other_up, pipe_down]; rw [hoth], hs.shape⟩
      · exact ⟨hs.phase, hs.dropped, hs.grace, hs.expired, hs.closedC, hs.closedT, hoth,
          ⟨sd.written, sd.fin, by simp [sd.taken], sd.held, sd.delivered, sd.eof, sd.done⟩⟩
    · exact absurd h (by simp)
  | connected =>
    simp only [step] at h ⊢
    split at h
    · rename_i hc
      rw [if_pos (by rw [hs.phase, sd.taken]; exact hc)]
      split at h
      · rename_i hk
        have := some_inj h; subst this
        rw [if_pos hk]
        refine ⟨_, rfl, ?_⟩
        cases d
        · simp only [other_up, pipe_down] at hoth
          exact ⟨by simp, hs.dropped, hs.grace, hs.expired, hs.closedC, hs.closedT,
            by simp only [other_up, pipe_down]; rw [hoth], hs.shape⟩
        · exact ⟨by simp, hs.dropped, hs.grace, hs.expired, hs.closedC, hs.closedT, hoth,
            ⟨sd.written, sd.fin, sd.taken, by simp [sd.written, sd.taken], sd.delivered, sd.eof, sd.done⟩⟩
      · rename_i hk
        have := some_inj h; subst this
        rw [if_neg hk]
        refine ⟨_, rfl, ?_⟩
        exact ⟨by simp, by simp [sd.taken], hs.grace, hs.expired, hs.closedC, hs.closedT,
          by cases d <;> exact hoth, by cases d <;> exact hs.shape⟩
    · exact absurd h (by simp)
  | drain =>
    simp only [step] at h ⊢
    split at h
    · rename_i hc
      have := some_inj h; subst this
      rw [if_pos (by rw [hs.phase]; exact hc)]
      refine ⟨_, rfl, ?_⟩
      cases d
      · exact ⟨by simp, hs.dropped, hs.grace, hs.expired, hs.closedC, hs.closedT, hoth,
          ⟨su.written, su.fin, su.taken, rfl, by simp [su.delivered, su.held], su.eof, su.done⟩⟩
      · simp only [other_down, pipe_up] at hoth
        exact ⟨by simp, hs.dropped, hs.grace, hs.expired, hs.closedC, hs.closedT,
          by simp only [other_down, pipe_up]; rw [hoth], hs.shape⟩
    · exact absurd h (by simp)
  | copy e n =>
    simp only [step] at h ⊢
    split at h
    · rename_i hc
      have := some_inj h; subst this
      have se := hs.shapeAny e
      rw [if_pos (by rw [hs.phase, se.done, se.avail]; exact hc)]
      refine ⟨_, rfl, ?_⟩
      cases d <;> cases e <;>
        simp only [other_up, other_down, pipe_up, pipe_down, setPipe_up, setPipe_down] at hoth ⊢ <;>
        first
          | exact ⟨hs.phase, hs.dropped, hs.grace, hs.expired, hs.closedC, hs.closedT, hoth,
              hs.shape.pull n⟩
          | exact ⟨hs.phase, hs.dropped, hs.grace, hs.expired, hs.closedC, hs.closedT,
              by simp only [other_up, other_down, pipe_up, pipe_down]; rw [hoth], hs.shape⟩
    · exact absurd h (by simp)
  | eof e =>
    simp only [step] at h ⊢
    split at h
    · rename_i hc
      have se := hs.shapeAny e
      have so := hs.shapeAny e.other
      rw [if_pos (by rw [hs.phase, se.done, se.fin, se.avail]; exact hc)]
      split at h
      · rename_i ho
        have := some_inj h; subst this
        rw [if_pos (by rw [so.done]; exact ho)]
        refine ⟨_, rfl, ?_⟩
        cases d <;> cases e <;>
          simp only [other_up, other_down, pipe_up, pipe_down, setPipe_up, setPipe_down] at hoth ⊢ <;>
          first
            | exact ⟨rfl, hs.dropped, hs.grace, hs.expired, rfl, rfl, hoth,
                ⟨hs.shape.written, hs.shape.fin, hs.shape.taken, hs.shape.held, hs.shape.delivered, rfl, rfl⟩⟩
            | exact ⟨rfl, hs.dropped, hs.grace, hs.expired, rfl, rfl,
                by simp only [other_up, other_down, pipe_up, pipe_down]; rw [hoth], hs.shape⟩
      · rename_i ho
        have := some_inj h; subst this
        rw [if_neg (by rw [so.done]; exact ho)]
        refine ⟨_, rfl, ?_⟩
        cases d <;> cases e <;>
          simp only [other_up, other_down, pipe_up, pipe_down, setPipe_up, setPipe_down] at hoth ⊢ <;>
          first
            | exact ⟨hs.phase, hs.dropped, rfl, hs.expired, hs.closedC, hs.closedT, hoth,
                ⟨hs.shape.written, hs.shape.fin, hs.shape.taken, hs.shape.held, hs.shape.delivered, rfl, rfl⟩⟩
            | exact ⟨hs.phase, hs.dropped, rfl, hs.expired, hs.closedC, hs.closedT,
                by simp only [other_up, other_down, pipe_up, pipe_down]; rw [hoth], hs.shape⟩
    · exact absurd h (by simp)
  | graceExpire =>
    simp only [step] at h ⊢
    split at h
    · rename_i hc
      have := some_inj h; subst this
      rw [if_pos (by rw [hs.phase, hs.grace]; exact hc)]
      refine ⟨_, rfl, ?_⟩
      cases d
      · simp only [other_up, pipe_down] at hoth
        exact ⟨rfl, hs.dropped, hs.grace, rfl, rfl, rfl,
          by simp only [other_up, pipe_down]; rw [hoth],
          ⟨su.written, su.fin, su.taken, su.held, su.delivered, su.eof, rfl⟩⟩
      · simp only [other_down, pipe_up] at hoth
        exact ⟨rfl, hs.dropped, hs.grace, rfl, rfl, rfl,
          by simp only [other_down, pipe_up]; rw [hoth],
          ⟨sd.written, sd.fin, sd.taken, sd.held, sd.delivered, sd.eof, rfl⟩⟩
    · exact absurd h (by simp)

/-- a write of the source of `d` carrying other bytes of the same length -/
theorem sim_step {c : Cfg} {d : Dir} {s t s' : State} {st st' : Step} (hs : Sim d s t)
    (hr : Recarry d st st') (h : step c s st = some s') :
    ∃ t', step c t st' = some t' ∧ Sim d s' t' := by
  cases hr with
  | same => exact sim_step_same hs h
  | client a b hd hl =>
    subst hd
    have su := hs.shapeUp
    simp only [step] at h ⊢
    split at h
    · exact absurd h (by simp)
    · rename_i hf
      have := some_inj h; subst this
      rw [if_neg (by rw [su.fin]; exact hf)]
      exact ⟨_, rfl, hs.phase, hs.dropped, hs.grace, hs.expired, hs.closedC, hs.closedT, hs.other,
        ⟨by simp [su.written, hl], su.fin, su.taken, su.held, su.delivered, su.eof, su.done⟩⟩
  | target a b hd hl =>
    subst hd
    have sd := hs.shapeDown
    simp only [step] at h ⊢
    split at h
    · exact absurd h (by simp)
    · rename_i hf
      have := some_inj h; subst this
      rw [if_neg (by rw [sd.fin]; exact hf)]
      exact ⟨_, rfl, hs.phase, hs.dropped, hs.grace, hs.expired, hs.closedC, hs.closedT, hs.other,
        ⟨by simp [sd.written, hl], sd.fin, sd.taken, sd.held, sd.delivered, sd.eof, sd.done⟩⟩

theorem sim_runFrom {c : Cfg} {d : Dir} {steps steps' : List Step} (hr : RecarryAll d steps steps') :
    ∀ {s t s' : State}, Sim d s t → runFrom c s steps = some s' →
      ∃ t', runFrom c t steps' = some t' ∧ Sim d s' t' := by
  induction hr with
  | nil =>
    intro s t s' hs h
    simp only [runFrom] at h
    have := some_inj h; subst this
    exact ⟨t, rfl, hs⟩
  | cons h1 _ ih =>
    intro s t s' hs h
    simp only [runFrom] at h
    split at h
    · exact absurd h (by simp)
    · rename_i s1 hst
      obtain ⟨t1, ht1, hs1⟩ := sim_step hs h1 hst
      obtain ⟨t', ht', hs'⟩ := ih hs1 h
      refine ⟨t', ?_, hs'⟩
      simp only [runFrom, ht1]
      exact ht'

end C03
end FwdVerif
