/-
  Request pipeline — concrete requests used by the non-vacuity examples and the witnesses of
  `Theorems/C01.lean`, and the Boolean form in which they are checked (`decide +kernel`: the
  `bs "…"` literals of the model reduce in the kernel only).
-/
import FwdVerif.Lemmas.ReqPipeline

namespace FwdVerif
namespace Req

theorem checkFwd_of {o : Outcome} {p : OutMsg → Bool}
    (h : ∀ hop out, o = .forwarded hop out → p out = true) : checkFwd o p = true := by
  cases o with
  | forwarded hop out => exact h hop out rfl
  | _ => rfl

theorem isFwd_iff {o : Outcome} : isFwd o = true ↔ ∃ hop out, o = .forwarded hop out := by
  cases o <;> simp [isFwd]

def exCfg : Cfg := { tag := bs "fwd-0123456789abcdef0123", name := bs "fwd" }

def exCfgUp : Cfg :=
  { exCfg with upstream := .http (bs "upstream.test:3128") (some (bs "Basic dTpw")) }

/-- `--header` rules: `-x-hop`, `-x-internal-*`, `X-Added: 1`, `X-Empty;` -/
def exCfgRules : Cfg :=
  { exCfg with rules := [.remove (bs "x-hop"), .removePrefix (bs "x-internal-"),
      .add (bs "X-Added") (bs "1"), .empty (bs "X-Empty")] }

def exCtx : Ctx := { clientIP := bs "192.0.2.7" }

/-- `POST /a/b?x=1&y=%2f HTTP/1.1`, origin-form; repeated `X-A` (three spellings), a nominated
    `X-Hop`, static hop-by-hop `Keep-Alive`/`TE`, pre-existing single `Via` and
    `X-Forwarded-For`, `Accept-Encoding: br`, chunked body with a declared trailer -/
def exReq : Request where
  method := bs "POST"
  minor := 1
  target := .origin
  path := bs "/a/b"
  query := some (bs "x=1&y=%2f")
  fields := [
    (bs "Host", bs "origin.test:8080"),
    (bs "X-A", bs "1"),
    (bs "Connection", bs "X-Hop, close"),
    (bs "x-a", bs "2"),
    (bs "X-Hop", bs "secret"),
    (bs "Keep-Alive", bs "timeout=5"),
    (bs "TE", bs "trailers"),
    (bs "X-a", bs "1"),
    (bs "Via", bs "1.0 edge"),
    (bs "X-Forwarded-For", bs "198.51.100.1"),
    (bs "Accept-Encoding", bs "br"),
    (bs "User-Agent", bs "curl/8"),
    (bs "Transfer-Encoding", bs "chunked"),
    (bs "Trailer", bs "X-T")]

/-- `GET http://origin.test/ws HTTP/1.1`, absolute-form, requesting an upgrade; no User-Agent,
    no Accept-Encoding, `X-Forwarded-Proto` supplied by the client -/
def exReqUpgrade : Request where
  method := bs "GET"
  minor := 1
  target := .absolute (bs "http") (bs "origin.test")
  path := bs "/ws"
  query := none
  fields := [
    (bs "Host", bs "other.test"),
    (bs "Connection", bs "Upgrade"),
    (bs "Upgrade", bs "websocket"),
    (bs "X-Forwarded-Proto", bs "https"),
    (bs "Cookie", bs "a=1"),
    (bs "Cookie", bs "b=2")]

/-- two `Via` and two `X-Forwarded-For` lines (the shapes of the former findings F11a, F11b) -/
def exReqChains : Request where
  method := bs "GET"
  minor := 1
  target := .origin
  path := bs "/"
  query := none
  fields := [
    (bs "Host", bs "origin.test"),
    (bs "Via", bs "1.0 a"),
    (bs "Via", bs "1.1 b"),
    (bs "X-Forwarded-For", bs "198.51.100.1"),
    (bs "X-Forwarded-For", bs "198.51.100.2")]

/-- an empty `Accept-Encoding` value (F23) -/
def exReqEmptyAE : Request where
  method := bs "GET"
  minor := 1
  target := .origin
  path := bs "/"
  query := none
  fields := [(bs "Host", bs "origin.test"), (bs "Accept-Encoding", [])]

end Req
end FwdVerif
