/-
  C17 — helper lemmas for the subject-extraction theorems of `FwdVerif/Theorems/C17.lean`
  (core Lean only): what the byte classes of a well-formed target exclude, `URL.Hostname()` on
  `[v6]` without port, and `net.SplitHostPort` on the four well-formed authority shapes.
-/
import FwdVerif.Model.C17Subject
import FwdVerif.Lemmas.C07

namespace FwdVerif
namespace C17

open Ascii

theorem optMatch_some (m : Matcher) (d : Bool) (s : Bytes) : optMatch (some m) d s = m.matches s := rfl

/-! ### byte classes -/

theorem regNameByte_plain (c : UInt8) (h : isRegNameByte c = true) : c ≠ 58 ∧ c ≠ 91 ∧ c ≠ 93 := by
  refine ⟨?_, ?_, ?_⟩ <;> (intro e; subst e; revert h; decide)

theorem unreserved_nobracket (c : UInt8) (h : isUnreserved c = true) : c ≠ 91 ∧ c ≠ 93 := by
  refine ⟨?_, ?_⟩ <;> (intro e; subst e; revert h; decide)

theorem v6Byte_nobracket (c : UInt8) (h : isV6Byte c = true) : c ≠ 91 ∧ c ≠ 93 := by
  refine ⟨?_, ?_⟩ <;> (intro e; subst e; revert h; decide)

theorem digit_plain (c : UInt8) (h : isDigit c = true) : c ≠ 58 ∧ c ≠ 91 ∧ c ≠ 93 := by
  refine ⟨?_, ?_, ?_⟩ <;> (intro e; subst e; revert h; decide)

theorem not_mem_of_all {p : UInt8 → Bool} {s : Bytes} {c : UInt8} (hs : s.all p = true)
    (hc : p c = false) : c ∉ s := by
  intro hm
  have := List.all_eq_true.mp hs c hm
  simp [hc] at this

theorem digits_plain {p : Bytes} (hp : p.all isDigit = true) : C07.Plain p :=
  ⟨not_mem_of_all hp (by decide), not_mem_of_all hp (by decide), not_mem_of_all hp (by decide)⟩

theorem regName_facts {h : Bytes} (hr : regName h = true) : h ≠ [] ∧ C07.Plain h := by
  simp only [regName, Bool.and_eq_true, Bool.not_eq_true', List.isEmpty_eq_false_iff] at hr
  exact ⟨hr.1, not_mem_of_all hr.2 (by decide), not_mem_of_all hr.2 (by decide),
    not_mem_of_all hr.2 (by decide)⟩

/-- what stands between the brackets of a well-formed literal holds no bracket -/
theorem v6Literal_facts {h : Bytes} (hv : v6Literal h = true) :
    h ≠ [] ∧ (91 : UInt8) ∉ h ∧ (93 : UInt8) ∉ h := by
  have split : h.takeWhile (· != 37) ++ h.dropWhile (· != 37) = h := List.takeWhile_append_dropWhile
  simp only [v6Literal, Bool.and_eq_true, Bool.not_eq_true', List.isEmpty_eq_false_iff] at hv
  obtain ⟨⟨⟨hne, hall⟩, _⟩, hrest⟩ := hv
  have ne : h ≠ [] := by
    intro e
    rw [e] at hne
    simp at hne
  have a1 : (91 : UInt8) ∉ h.takeWhile (· != 37) := not_mem_of_all hall (by decide)
  have a2 : (93 : UInt8) ∉ h.takeWhile (· != 37) := not_mem_of_all hall (by decide)
  have r : (91 : UInt8) ∉ h.dropWhile (· != 37) ∧ (93 : UInt8) ∉ h.dropWhile (· != 37) := by
    cases hd : h.dropWhile (· != 37) with
    | nil => simp
    | cons x zone =>
      have hx : x = 37 := by
        have := List.head_dropWhile_not (· != 37) (l := h) (by rw [hd]; simp)
        simp only [hd, List.head_cons] at this
        simpa using this
      rw [hd] at hrest
      simp only [Bool.and_eq_true, Bool.not_eq_true'] at hrest
      have z1 : (91 : UInt8) ∉ zone := not_mem_of_all hrest.2 (by decide)
      have z2 : (93 : UInt8) ∉ zone := not_mem_of_all hrest.2 (by decide)
      subst hx
      constructor
      · intro hm
        rcases List.mem_cons.mp hm with e | e
        · revert e; decide
        · exact z1 e
      · intro hm
        rcases List.mem_cons.mp hm with e | e
        · revert e; decide
        · exact z2 e
  refine ⟨ne, ?_, ?_⟩
  · intro hm
    rw [← split] at hm
    rcases List.mem_append.mp hm with e | e
    · exact a1 e
    · exact r.1 e
  · intro hm
    rw [← split] at hm
    rcases List.mem_append.mp hm with e | e
    · exact a2 e
    · exact r.2 e

/-! ### `URL.Hostname()` on `[v6]` without port -/

theorem splitLastColon_eq {s h p : Bytes} (e : C07.splitLastColon s = some (h, p)) :
    s = h ++ 58 :: p := by
  induction s generalizing h with
  | nil => simp [C07.splitLastColon] at e
  | cons c cs ih =>
    simp only [C07.splitLastColon] at e
    cases hc : C07.splitLastColon cs with
    | some hp' =>
      obtain ⟨h', p'⟩ := hp'
      simp only [hc, Option.some.injEq, Prod.mk.injEq] at e
      obtain ⟨e1, e2⟩ := e
      subst e1 e2
      simp [ih hc]
    | none =>
      simp only [hc] at e
      by_cases h58 : c = 58
      · subst h58
        simp only [beq_self_eq_true, if_true, Option.some.injEq, Prod.mk.injEq] at e
        obtain ⟨e1, e2⟩ := e
        subst e1 e2
        rfl
      · simp [h58] at e

/-- a text that ends in `]`: what follows its last colon is not a port -/
theorem port_not_digits_of_bracket_end {pre h p : Bytes}
    (e : pre ++ [93] = h ++ 58 :: p) : p.all isDigit = false := by
  have er := congrArg List.reverse e
  simp only [List.reverse_append, List.reverse_cons, List.reverse_nil, List.nil_append,
    List.singleton_append, List.append_assoc] at er
  have hm : (93 : UInt8) ∈ p := by
    cases hr : p.reverse with
    | nil =>
      rw [hr] at er
      simp at er
    | cons x xs =>
      rw [hr] at er
      simp only [List.cons_append, List.cons.injEq] at er
      have : (93 : UInt8) ∈ p.reverse := by rw [hr, ← er.1]; simp
      simpa using this
  cases hall : p.all isDigit with
  | false => rfl
  | true => exact absurd hm (not_mem_of_all hall (by decide))

/-- `[v]`: what is between the brackets, whatever colons it holds -/
theorem urlHostname_bracketed_noport (v : Bytes) : C07.urlHostname (91 :: (v ++ [93])) = v := by
  have gl : (91 :: (v ++ [93]) : Bytes).getLast? = some 93 := by
    rw [← List.cons_append, List.getLast?_append]
    simp
  unfold C07.urlHostname
  cases hs : C07.splitLastColon (91 :: (v ++ [93])) with
  | none => simp [gl]
  | some hp =>
    obtain ⟨h, p⟩ := hp
    have e := splitLastColon_eq hs
    rw [← List.cons_append] at e
    simp [port_not_digits_of_bracket_end e, gl]

/-! ### `net.SplitHostPort` on `[v6]` without port -/

theorem splitHostPort_bracketed_noport {v : Bytes} (h3 : (93 : UInt8) ∉ v) :
    C07.splitHostPort (91 :: (v ++ [93])) = none := by
  unfold C07.splitHostPort
  split
  · rfl
  · have tw := C07.takeWhile_ne_append h3 []
    have dr : (v ++ [93]).drop v.length = [93] := by simp
    simp [C07.splitBracket, tw, dr]

end C17
end FwdVerif
