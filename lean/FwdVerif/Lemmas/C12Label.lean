/-
  C12 — helper lemmas for §7 of `Model/C12.lean` (the dialer's metric label): UTF-8 validity as a
  predicate on bytes, the decoder `validUTF8`, truncation at encoding boundaries.  Core Lean only.
-/
import FwdVerif.Model.C12

namespace FwdVerif
namespace C12

open Req (bs)

/-! ### lead bytes -/

theorem leadLen_toNat (a : UInt8) :
    leadLen a = if a.toNat < 128 then 1 else if a.toNat < 224 then 2 else if a.toNat < 240 then 3 else 4 := by
  simp [leadLen, UInt8.lt_iff_toNat_lt]

theorem leadLen_pos (a : UInt8) : 0 < leadLen a := by
  rw [leadLen_toNat]; repeat' split
  all_goals omega

theorem leadLen_le_four (a : UInt8) : leadLen a ≤ 4 := by
  rw [leadLen_toNat]; repeat' split
  all_goals omega

/-- a well-formed encoding is non-empty and has the length its lead byte announces -/
theorem utf8Char_length (c : Bytes) (h : utf8Char c = true) :
    ∃ a rest, c = a :: rest ∧ (a :: rest).length = leadLen a := by
  match c, h with
  | [a], h =>
    refine ⟨a, [], rfl, ?_⟩
    simp only [utf8Char, decide_eq_true_eq, UInt8.le_iff_toNat_le] at h
    rw [leadLen_toNat]
    have : a.toNat ≤ 127 := by simpa using h
    simp [show a.toNat < 128 by omega]
  | [a, b], h =>
    refine ⟨a, [b], rfl, ?_⟩
    simp only [utf8Char, Bool.and_eq_true, decide_eq_true_eq, UInt8.le_iff_toNat_le] at h
    rw [leadLen_toNat]
    have h1 : 194 ≤ a.toNat := by simpa using h.1.1
    have h2 : a.toNat ≤ 223 := by simpa using h.1.2
    simp [show ¬ a.toNat < 128 by omega, show a.toNat < 224 by omega]
  | [a, b, c], h =>
    refine ⟨a, [b, c], rfl, ?_⟩
    simp only [utf8Char, Bool.and_eq_true, Bool.or_eq_true, decide_eq_true_eq, beq_iff_eq, UInt8.le_iff_toNat_le] at h
    rw [leadLen_toNat]
    have : 224 ≤ a.toNat ∧ a.toNat ≤ 239 := by
      rcases h.1 with ((h | h) | h) | h
      · rw [h.1.1]; decide
      · have h1 : 225 ≤ a.toNat := by simpa using h.1.1
        have h2 : a.toNat ≤ 236 := by simpa using h.1.2
        omega
      · rw [h.1.1]; decide
      · have h1 : 238 ≤ a.toNat := by simpa using h.1.1
        have h2 : a.toNat ≤ 239 := by simpa using h.1.2
        omega
    simp [show ¬ a.toNat < 128 by omega, show ¬ a.toNat < 224 by omega, show a.toNat < 240 by omega]
  | [a, b, c, d], h =>
    refine ⟨a, [b, c, d], rfl, ?_⟩
    simp only [utf8Char, Bool.and_eq_true, Bool.or_eq_true, decide_eq_true_eq, beq_iff_eq, UInt8.le_iff_toNat_le] at h
    rw [leadLen_toNat]
    have : 240 ≤ a.toNat := by
      rcases h.1.1 with (h | h) | h
      · rw [h.1.1]; decide
      · have h1 : 241 ≤ a.toNat := by simpa using h.1.1
        omega
      · rw [h.1.1]; decide
    simp [show ¬ a.toNat < 128 by omega, show ¬ a.toNat < 224 by omega, show ¬ a.toNat < 240 by omega]

/-! ### the decoder decides the predicate -/

theorem validUTF8Aux_flatten (cs : List Bytes) (hcs : ∀ c ∈ cs, utf8Char c = true) (fuel : Nat)
    (hf : cs.flatten.length ≤ fuel) : validUTF8Aux fuel cs.flatten = true := by
  induction cs generalizing fuel with
  | nil => cases fuel <;> rfl
  | cons c cs ih =>
    obtain ⟨a, rest, hc, hlen⟩ := utf8Char_length c (hcs c List.mem_cons_self)
    subst hc
    have hfl : (a :: rest) ++ cs.flatten = a :: (rest ++ cs.flatten) := rfl
    simp only [List.flatten_cons, hfl, List.length_cons, List.length_append] at hf ⊢
    cases fuel with
    | zero => omega
    | succ fuel =>
      have htake : (a :: (rest ++ cs.flatten)).take (leadLen a) = a :: rest := by
        rw [← hfl, ← hlen]; exact List.take_left' rfl
      have hdrop : (a :: (rest ++ cs.flatten)).drop (leadLen a) = cs.flatten := by
        rw [← hfl, ← hlen]; exact List.drop_left' rfl
      simp only [validUTF8Aux, htake, hdrop, hcs _ List.mem_cons_self, Bool.true_and]
      exact ih (fun c hc => hcs c (List.mem_cons_of_mem _ hc)) fuel (by omega)

theorem validUTF8Aux_sound (fuel : Nat) (l : Bytes) (h : validUTF8Aux fuel l = true) : ValidUTF8 l := by
  induction fuel generalizing l with
  | zero =>
    cases l with
    | nil => exact ⟨[], by simp, rfl⟩
    | cons a rest => simp [validUTF8Aux] at h
  | succ fuel ih =>
    cases l with
    | nil => exact ⟨[], by simp, rfl⟩
    | cons a rest =>
      simp only [validUTF8Aux, Bool.and_eq_true] at h
      obtain ⟨cs, hcs, heq⟩ := ih _ h.2
      refine ⟨(a :: rest).take (leadLen a) :: cs, ?_, ?_⟩
      · intro c hc
        rcases List.mem_cons.1 hc with rfl | hc
        · exact h.1
        · exact hcs c hc
      · rw [List.flatten_cons, ← heq, List.take_append_drop]

theorem validUTF8_iff (l : Bytes) : validUTF8 l = true ↔ ValidUTF8 l := by
  constructor
  · exact validUTF8Aux_sound _ l
  · rintro ⟨cs, hcs, rfl⟩
    exact validUTF8Aux_flatten cs hcs _ (Nat.le_refl _)

theorem validUTF8_nil : ValidUTF8 [] := ⟨[], by simp, rfl⟩

/-! ### the label -/

theorem netSplitHostPort_host_length (addr host port : Bytes) (h : Req.netSplitHostPort addr = some (host, port)) :
    host.length ≤ addr.length := by
  unfold Req.netSplitHostPort at h
  split at h
  · exact absurd h (by simp)
  · split at h
    · split at h
      · exact absurd h (by simp)
      · split at h
        · exact absurd h (by simp)
        · split at h
          · split at h
            · exact absurd h (by simp)
            · simp only [Option.some.injEq, Prod.mk.injEq] at h
              rw [← h.1]
              simp only [List.length_drop, List.length_take]
              omega
          · exact absurd h (by simp)
    · simp only at h
      split at h
      · exact absurd h (by simp)
      · simp only [Option.some.injEq, Prod.mk.injEq] at h
        rw [← h.1]
        simp only [List.length_take]
        omega

theorem fixedLabels_valid :
    validUTF8 (bs "unknown") = true ∧ validUTF8 (bs "localhost") = true ∧ validUTF8 (bs "invalid") = true := by
  with_unfolding_all decide

theorem fixedLabels_length :
    (bs "unknown").length = 7 ∧ (bs "localhost").length = 9 ∧ (bs "invalid").length = 7 := by
  with_unfolding_all decide

/-! ### truncation at encoding boundaries -/

theorem truncRunesAux_length (fuel n : Nat) (l : Bytes) : (truncRunesAux fuel n l).length ≤ n := by
  induction fuel generalizing n l with
  | zero => cases l <;> simp [truncRunesAux]
  | succ fuel ih =>
    cases l with
    | nil => simp [truncRunesAux]
    | cons a rest =>
      simp only [truncRunesAux]
      split
      · have := ih (n - leadLen a) ((a :: rest).drop (leadLen a))
        simp only [List.length_append, List.length_take]
        omega
      · simp

theorem truncRunesAux_flatten (cs : List Bytes) (hcs : ∀ c ∈ cs, utf8Char c = true) (fuel n : Nat)
    (hf : cs.flatten.length ≤ fuel) :
    ∃ k, truncRunesAux fuel n cs.flatten = (cs.take k).flatten ∧ (cs.flatten.length ≤ n → cs.take k = cs) := by
  induction cs generalizing fuel n with
  | nil => exact ⟨0, by cases fuel <;> simp [truncRunesAux], by simp⟩
  | cons c cs ih =>
    obtain ⟨a, rest, hc, hlen⟩ := utf8Char_length c (hcs c List.mem_cons_self)
    subst hc
    have hfl : (a :: rest) ++ cs.flatten = a :: (rest ++ cs.flatten) := rfl
    simp only [List.flatten_cons, hfl, List.length_cons, List.length_append] at hf ⊢
    cases fuel with
    | zero => omega
    | succ fuel =>
      have htake : (a :: (rest ++ cs.flatten)).take (leadLen a) = a :: rest := by
        rw [← hfl, ← hlen]; exact List.take_left' rfl
      have hdrop : (a :: (rest ++ cs.flatten)).drop (leadLen a) = cs.flatten := by
        rw [← hfl, ← hlen]; exact List.drop_left' rfl
      simp only [truncRunesAux, htake, hdrop]
      split
      · obtain ⟨k, hk, hall⟩ := ih (fun c hc => hcs c (List.mem_cons_of_mem _ hc)) fuel (n - leadLen a) (by omega)
        refine ⟨k + 1, ?_, ?_⟩
        · rw [hk]; simp
        · intro hle
          simp only [List.take_succ_cons, List.cons.injEq, true_and]
          apply hall
          simp only [List.length_cons] at hlen
          omega
      · refine ⟨0, by simp, ?_⟩
        intro hle
        simp only [List.length_cons] at hlen
        omega

theorem truncRunes_valid (n : Nat) (l : Bytes) (h : ValidUTF8 l) : ValidUTF8 (truncRunes n l) := by
  obtain ⟨cs, hcs, rfl⟩ := h
  obtain ⟨k, hk, _⟩ := truncRunesAux_flatten cs hcs cs.flatten.length n (Nat.le_refl _)
  exact ⟨cs.take k, fun c hc => hcs c (List.mem_of_mem_take hc), hk⟩

theorem truncRunes_id (n : Nat) (l : Bytes) (h : ValidUTF8 l) (hn : l.length ≤ n) : truncRunes n l = l := by
  obtain ⟨cs, hcs, rfl⟩ := h
  obtain ⟨k, hk, hall⟩ := truncRunesAux_flatten cs hcs cs.flatten.length n (Nat.le_refl _)
  unfold truncRunes
  rw [hk, hall hn]

end C12
end FwdVerif
