/-
  Flow-control core of the HTTP/2 relay model: the head-of-queue gate `emitQ`, the stream map, and
  the two invariants every primitive of `Model/H2Relay.lean` preserves:

    Book d L     bookkeeping against a ledger L computed from the wire only
                 (connWin = 65535 + Σinc₀ − Σsent ≥ 0,  win s = initWin + Σinc s − sent s, …)
    AllStuck d   no stranding: every queue is empty or its head does not fit min(win s, connWin)

  Core-only.
-/
import FwdVerif.Model.H2Relay

namespace FwdVerif
namespace H2

variable {α : Type}

/-! ### stream map -/

theorem SMap.get_set (m : SMap α) (k : Nat) (v : Stream α) (s : Nat) :
    (m.set k v).get s = if k = s then some v else m.get s := by
  induction m with
  | nil => simp [SMap.set, SMap.get]
  | cons e m ih =>
    obtain ⟨a, w⟩ := e
    simp only [SMap.set]
    by_cases hak : a = k
    · subst hak
      simp only [if_true, SMap.get]
      split <;> rfl
    · simp only [hak, if_false, SMap.get]
      by_cases has : a = s
      · subst has
        have : ¬ k = a := fun h => hak h.symm
        simp [this]
      · simp only [has, if_false]
        exact ih

theorem SMap.get_mapWin (m : SMap α) (f : Int → Int) (s : Nat) :
    (m.mapWin f).get s = (m.get s).map (fun st => { st with win := f st.win }) := by
  induction m with
  | nil => rfl
  | cons e m ih =>
    obtain ⟨a, w⟩ := e
    simp only [SMap.mapWin, List.map_cons, SMap.get]
    split
    · rfl
    · exact ih

theorem SMap.get_some_of_mem_keys (m : SMap α) (s : Nat) (h : s ∈ m.keys) : ∃ st, m.get s = some st := by
  induction m with
  | nil => simp [SMap.keys] at h
  | cons e m ih =>
    obtain ⟨a, w⟩ := e
    simp only [SMap.keys, List.map_cons, List.mem_cons] at h
    simp only [SMap.get]
    by_cases has : a = s
    · exact ⟨w, by simp [has]⟩
    · simp only [has, if_false]
      rcases h with h | h
      · exact absurd h.symm has
      · exact ih h

theorem SMap.mem_keys_of_get (m : SMap α) (s : Nat) (st : Stream α) (h : m.get s = some st) : s ∈ m.keys := by
  induction m with
  | nil => simp [SMap.get] at h
  | cons e m ih =>
    obtain ⟨a, w⟩ := e
    simp only [SMap.keys, List.map_cons, List.mem_cons]
    simp only [SMap.get] at h
    by_cases has : a = s
    · exact Or.inl has.symm
    · simp only [has, if_false] at h
      exact Or.inr (ih h)

/-! ### the gate -/

/-- flow-controlled octets of a list of queued frames -/
def fcSum : List (QFrame α) → Int
  | [] => 0
  | f :: t => (f.fc : Int) + fcSum t

theorem fcSum_append (a b : List (QFrame α)) : fcSum (a ++ b) = fcSum a + fcSum b := by
  induction a with
  | nil => simp [fcSum]
  | cons f t ih => simp [fcSum, ih]; omega

theorem fcSum_nonneg (a : List (QFrame α)) : 0 ≤ fcSum a := by
  induction a with
  | nil => simp [fcSum]
  | cons f t ih => simp [fcSum]; omega

/-- a queue is stuck: empty, or its head does not fit both windows -/
def stuck (win conn : Int) : List (QFrame α) → Prop
  | [] => True
  | f :: _ => (f.fc : Int) > conn ∨ (f.fc : Int) > win

theorem stuck_mono {win conn conn' : Int} {q : List (QFrame α)} (h : stuck win conn q) (hc : conn' ≤ conn) :
    stuck win conn' q := by
  cases q with
  | nil => trivial
  | cons f t =>
    simp only [stuck] at h ⊢
    omega

/-- FIFO split: what the gate emits followed by what it leaves is the queue -/
theorem emitQ_split (win conn : Int) (q : List (QFrame α)) :
    (emitQ win conn q).1 ++ (emitQ win conn q).2.1 = q := by
  induction q generalizing win conn with
  | nil => rfl
  | cons f t ih =>
    unfold emitQ
    split
    · rfl
    · simp [ih]

/-- conservation: both windows are debited by exactly what was emitted -/
theorem emitQ_win (win conn : Int) (q : List (QFrame α)) :
    (emitQ win conn q).2.2.1 = win - fcSum (emitQ win conn q).1 := by
  induction q generalizing win conn with
  | nil => simp [emitQ, fcSum]
  | cons f t ih =>
    unfold emitQ
    split
    · simp [fcSum]
    · simp only [fcSum, ih]; omega

theorem emitQ_conn (win conn : Int) (q : List (QFrame α)) :
    (emitQ win conn q).2.2.2 = conn - fcSum (emitQ win conn q).1 := by
  induction q generalizing win conn with
  | nil => simp [emitQ, fcSum]
  | cons f t ih =>
    unfold emitQ
    split
    · simp [fcSum]
    · simp only [fcSum, ih]; omega

/-- the connection window never goes negative through the gate -/
theorem emitQ_conn_nonneg (win conn : Int) (q : List (QFrame α)) (h : 0 ≤ conn) :
    0 ≤ (emitQ win conn q).2.2.2 := by
  induction q generalizing win conn with
  | nil => simpa [emitQ]
  | cons f t ih =>
    unfold emitQ
    split
    · simpa
    · rename_i hn
      exact ih _ _ (by omega)

/-- nothing is released from a stream whose window is negative, and a release leaves it ≥ 0 -/
theorem emitQ_win_nonneg (win conn : Int) (q : List (QFrame α)) (h : (emitQ win conn q).1 ≠ []) :
    0 ≤ (emitQ win conn q).2.2.1 := by
  induction q generalizing win conn with
  | nil => simp [emitQ] at h
  | cons f t ih =>
    unfold emitQ at h ⊢
    split
    · rename_i hb; simp [hb] at h
    · rename_i hn
      by_cases he : (emitQ (win - f.fc) (conn - f.fc) t).1 = []
      · have := emitQ_win (win - f.fc) (conn - f.fc) t
        simp only [he, fcSum] at this
        simp only [this]
        omega
      · exact ih _ _ he

theorem emitQ_win_nonneg' (win conn : Int) (q : List (QFrame α)) (h : 0 ≤ win) :
    0 ≤ (emitQ win conn q).2.2.1 := by
  by_cases he : (emitQ win conn q).1 = []
  · rw [emitQ_win, he]; simpa [fcSum]
  · exact emitQ_win_nonneg win conn q he

/-- maximality: after the gate the queue is stuck -/
theorem emitQ_stuck (win conn : Int) (q : List (QFrame α)) :
    stuck (emitQ win conn q).2.2.1 (emitQ win conn q).2.2.2 (emitQ win conn q).2.1 := by
  induction q generalizing win conn with
  | nil => simp [emitQ, stuck]
  | cons f t ih =>
    unfold emitQ
    split
    · rename_i hb; simpa [stuck] using hb
    · exact ih _ _

/-- a queue that fits entirely is released entirely -/
theorem emitQ_all (win conn : Int) (q : List (QFrame α)) (hw : fcSum q ≤ win) (hc : fcSum q ≤ conn) :
    (emitQ win conn q).1 = q ∧ (emitQ win conn q).2.1 = [] := by
  induction q generalizing win conn with
  | nil => simp [emitQ]
  | cons f t ih =>
    have ht := fcSum_nonneg t
    simp only [fcSum] at hw hc
    unfold emitQ
    have : ¬ ((f.fc : Int) > conn ∨ (f.fc : Int) > win) := by omega
    simp only [this, if_false]
    have := ih (win - f.fc) (conn - f.fc) (by omega) (by omega)
    simp [this.1, this.2]

/-! ### ledger -/

/-- what can be counted on the wire of one direction: DATA octets released per stream and in
    total, WINDOW_UPDATE increments received per stream and for the connection -/
structure Ledger where
  sent : Nat → Int := fun _ => 0
  inc : Nat → Int := fun _ => 0
  total : Int := 0
  incConn : Int := 0

def Ledger.addFrame (L : Ledger) (q : QFrame α) : Ledger :=
  { L with sent := fun s => if s = q.sid then L.sent s + q.fc else L.sent s, total := L.total + q.fc }

def Ledger.addEmitted (L : Ledger) (qs : List (QFrame α)) : Ledger := qs.foldl Ledger.addFrame L

def Ledger.addInc (L : Ledger) (s n : Nat) : Ledger :=
  { L with inc := fun t => if t = s then L.inc t + n else L.inc t }

def Ledger.addIncConn (L : Ledger) (n : Nat) : Ledger := { L with incConn := L.incConn + n }

theorem Ledger.addEmitted_append (L : Ledger) (a b : List (QFrame α)) :
    L.addEmitted (a ++ b) = (L.addEmitted a).addEmitted b := by
  simp [Ledger.addEmitted, List.foldl_append]

theorem Ledger.addEmitted_inc (L : Ledger) (qs : List (QFrame α)) :
    (L.addEmitted qs).inc = L.inc ∧ (L.addEmitted qs).incConn = L.incConn := by
  induction qs generalizing L with
  | nil => exact ⟨rfl, rfl⟩
  | cons q t ih =>
    have := ih (L.addFrame q)
    simp only [Ledger.addEmitted, List.foldl_cons] at this ⊢
    exact this

theorem Ledger.addEmitted_total (L : Ledger) (qs : List (QFrame α)) :
    (L.addEmitted qs).total = L.total + fcSum qs := by
  induction qs generalizing L with
  | nil => simp [Ledger.addEmitted, fcSum]
  | cons q t ih =>
    have := ih (L.addFrame q)
    simp only [Ledger.addEmitted, List.foldl_cons] at this ⊢
    rw [this]
    simp [Ledger.addFrame, fcSum]; omega

/-- frames of one stream only -/
theorem Ledger.addEmitted_sent (L : Ledger) (qs : List (QFrame α)) (s : Nat) (h : ∀ q ∈ qs, q.sid = s) (t : Nat) :
    (L.addEmitted qs).sent t = if t = s then L.sent t + fcSum qs else L.sent t := by
  induction qs generalizing L with
  | nil => simp [Ledger.addEmitted, fcSum]
  | cons q r ih =>
    have hq : q.sid = s := h q (by simp)
    have := ih (L.addFrame q) (fun x hx => h x (by simp [hx]))
    simp only [Ledger.addEmitted, List.foldl_cons] at this ⊢
    rw [this]
    simp only [Ledger.addFrame, hq, fcSum]
    split <;> omega

/-! ### bookkeeping invariant -/

structure Book (d : Dir α) (L : Ledger) : Prop where
  conn : d.connWin = 65535 + L.incConn - L.total
  connNonneg : 0 ≤ d.connWin
  win : ∀ s st, d.streams.get s = some st → st.win = d.initWin + L.inc s - L.sent s
  fresh : ∀ s, d.streams.get s = none → L.inc s = 0 ∧ L.sent s = 0
  sids : ∀ s st, d.streams.get s = some st → ∀ q ∈ st.queue, q.sid = s

theorem Book.init : Book ({} : Dir α) {} :=
  { conn := by simp, connNonneg := by simp, win := by intro s st h; simp [SMap.get] at h,
    fresh := by intro s _; exact ⟨rfl, rfl⟩, sids := by intro s st h; simp [SMap.get] at h }

/-- only the flow fields matter -/
theorem Book.congr {d d' : Dir α} {L : Ledger} (h : Book d L) (h1 : d'.connWin = d.connWin)
    (h2 : d'.initWin = d.initWin) (h3 : d'.streams = d.streams) : Book d' L :=
  { conn := by rw [h1]; exact h.conn, connNonneg := by rw [h1]; exact h.connNonneg,
    win := by rw [h2, h3]; exact h.win, fresh := by rw [h3]; exact h.fresh, sids := by rw [h3]; exact h.sids }

theorem Dir.buf_spec (d : Dir α) (s : Nat) :
    (∃ st, d.streams.get s = some st ∧ d.buf s = st) ∨
    (d.streams.get s = none ∧ d.buf s = { win := d.initWin, queue := [] }) := by
  unfold Dir.buf
  cases h : d.streams.get s with
  | none => exact Or.inr ⟨rfl, rfl⟩
  | some st => exact Or.inl ⟨st, rfl, rfl⟩

/-- effect of the gate on one stream -/
theorem Dir.emitOn_spec (d : Dir α) (s : Nat) :
    (d.streams.get s = none ∧ d.emitOn s = (d, [])) ∨
    (∃ st, d.streams.get s = some st ∧
      (d.emitOn s).2 = (emitQ st.win d.connWin st.queue).1 ∧
      (d.emitOn s).1 = { d with connWin := (emitQ st.win d.connWin st.queue).2.2.2,
                                streams := d.streams.set s { win := (emitQ st.win d.connWin st.queue).2.2.1,
                                                              queue := (emitQ st.win d.connWin st.queue).2.1 } }) := by
  unfold Dir.emitOn
  cases h : d.streams.get s with
  | none => exact Or.inl ⟨rfl, rfl⟩
  | some st => exact Or.inr ⟨st, rfl, rfl, rfl⟩

theorem mem_of_emitQ (win conn : Int) (q : List (QFrame α)) : ∀ x ∈ (emitQ win conn q).1, x ∈ q := by
  intro x hx
  have := emitQ_split win conn q
  rw [← this]
  exact List.mem_append_left _ hx

theorem mem_of_emitQ_rest (win conn : Int) (q : List (QFrame α)) : ∀ x ∈ (emitQ win conn q).2.1, x ∈ q := by
  intro x hx
  have := emitQ_split win conn q
  rw [← this]
  exact List.mem_append_right _ hx

theorem Book.emitOn {d : Dir α} {L : Ledger} (h : Book d L) (s : Nat) :
    Book (d.emitOn s).1 (L.addEmitted (d.emitOn s).2) := by
  rcases d.emitOn_spec s with ⟨_, he⟩ | ⟨st, hs, he2, he1⟩
  · rw [he]; exact h
  · rw [he1, he2]
    have hsid : ∀ q ∈ (emitQ st.win d.connWin st.queue).1, q.sid = s :=
      fun q hq => h.sids s st hs q (mem_of_emitQ _ _ _ q hq)
    have hinc := Ledger.addEmitted_inc L (emitQ st.win d.connWin st.queue).1
    refine { conn := ?_, connNonneg := ?_, win := ?_, fresh := ?_, sids := ?_ }
    · simp only [emitQ_conn, Ledger.addEmitted_total, hinc.2]
      have := h.conn; omega
    · exact emitQ_conn_nonneg _ _ _ h.connNonneg
    · intro t st' ht
      simp only [SMap.get_set] at ht
      rw [Ledger.addEmitted_sent L _ s hsid t, hinc.1]
      by_cases hst : s = t
      · subst hst
        simp only [if_true] at ht
        injection ht with ht
        subst ht
        simp only [emitQ_win, if_true]
        have := h.win s st hs; omega
      · have hts : ¬ t = s := fun x => hst x.symm
        simp only [hst, if_false] at ht
        simp only [hts, if_false]
        exact h.win t st' ht
    · intro t ht
      simp only [SMap.get_set] at ht
      by_cases hst : s = t
      · simp [hst] at ht
      · have hts : ¬ t = s := fun x => hst x.symm
        simp only [hst, if_false] at ht
        rw [Ledger.addEmitted_sent L _ s hsid t, hinc.1]
        simp only [hts, if_false]
        exact h.fresh t ht
    · intro t st' ht q hq
      simp only [SMap.get_set] at ht
      by_cases hst : s = t
      · subst hst
        simp only [if_true] at ht
        injection ht with ht
        subst ht
        exact h.sids s st hs q (mem_of_emitQ_rest _ _ _ q hq)
      · simp only [hst, if_false] at ht
        exact h.sids t st' ht q hq

/-- `w.enqueue(f)` on the frame's own stream (creating the buffer) -/
theorem Book.enqueue {d : Dir α} {L : Ledger} (h : Book d L) (f : QFrame α) :
    Book { d with streams := d.streams.set f.sid { d.buf f.sid with queue := (d.buf f.sid).queue ++ [f] } } L := by
  refine { conn := h.conn, connNonneg := h.connNonneg, win := ?_, fresh := ?_, sids := ?_ }
  · intro t st' ht
    simp only [SMap.get_set] at ht
    by_cases hst : f.sid = t
    · subst hst
      simp only [if_true] at ht
      injection ht with ht
      subst ht
      rcases d.buf_spec f.sid with ⟨st, hs, hb⟩ | ⟨hn, hb⟩
      · rw [hb]; exact h.win _ st hs
      · rw [hb]; have := h.fresh _ hn; simp only; omega
    · simp only [hst, if_false] at ht
      exact h.win t st' ht
  · intro t ht
    simp only [SMap.get_set] at ht
    by_cases hst : f.sid = t
    · simp [hst] at ht
    · simp only [hst, if_false] at ht
      exact h.fresh t ht
  · intro t st' ht q hq
    simp only [SMap.get_set] at ht
    by_cases hst : f.sid = t
    · subst hst
      simp only [if_true] at ht
      injection ht with ht
      subst ht
      simp only [List.mem_append, List.mem_singleton] at hq
      rcases hq with hq | hq
      · rcases d.buf_spec f.sid with ⟨st, hs, hb⟩ | ⟨hn, hb⟩
        · rw [hb] at hq; exact h.sids _ st hs q hq
        · rw [hb] at hq; simp at hq
      · rw [hq]
    · simp only [hst, if_false] at ht
      exact h.sids t st' ht q hq

theorem Book.enqEmit {d : Dir α} {L : Ledger} (h : Book d L) (f : QFrame α) :
    Book (d.enqEmit f).1 (L.addEmitted (d.enqEmit f).2) := by
  unfold Dir.enqEmit
  exact (h.enqueue f).emitOn f.sid

theorem Book.enqEmitAll {d : Dir α} {L : Ledger} (h : Book d L) (fs : List (QFrame α)) :
    Book (d.enqEmitAll fs).1 (L.addEmitted (d.enqEmitAll fs).2) := by
  induction fs generalizing d L with
  | nil => exact h
  | cons f t ih =>
    simp only [Dir.enqEmitAll]
    rw [Ledger.addEmitted_append]
    exact ih (h.enqEmit f)

theorem Book.emitList {d : Dir α} {L : Ledger} (h : Book d L) (ss : List Nat) :
    Book (d.emitList ss).1 (L.addEmitted (d.emitList ss).2) := by
  induction ss generalizing d L with
  | nil => exact h
  | cons s t ih =>
    simp only [Dir.emitList]
    rw [Ledger.addEmitted_append]
    exact ih (h.emitOn s)

theorem Book.pass {d : Dir α} {L : Ledger} (h : Book d L) (order : List Nat) :
    Book (d.pass order).1 (L.addEmitted (d.pass order).2) := h.emitList _

/-- WINDOW_UPDATE on a stream buffer (creating it) -/
theorem Book.addWin {d : Dir α} {L : Ledger} (h : Book d L) (s n : Nat) :
    Book { d with streams := d.streams.set s { d.buf s with win := (d.buf s).win + n } } (L.addInc s n) := by
  refine { conn := h.conn, connNonneg := h.connNonneg, win := ?_, fresh := ?_, sids := ?_ }
  · intro t st' ht
    simp only [SMap.get_set] at ht
    simp only [Ledger.addInc]
    by_cases hst : s = t
    · subst hst
      simp only [if_true] at ht
      injection ht with ht
      subst ht
      rcases d.buf_spec s with ⟨st, hs, hb⟩ | ⟨hn, hb⟩
      · rw [hb]; have := h.win _ st hs; simp only [if_true]; omega
      · rw [hb]; have := h.fresh _ hn; simp only [if_true]; omega
    · have hts : ¬ t = s := fun x => hst x.symm
      simp only [hst, if_false] at ht
      simp only [hts, if_false]
      exact h.win t st' ht
  · intro t ht
    simp only [SMap.get_set] at ht
    by_cases hst : s = t
    · simp [hst] at ht
    · have hts : ¬ t = s := fun x => hst x.symm
      simp only [hst, if_false] at ht
      simp only [Ledger.addInc, hts, if_false]
      exact h.fresh t ht
  · intro t st' ht q hq
    simp only [SMap.get_set] at ht
    by_cases hst : s = t
    · subst hst
      simp only [if_true] at ht
      injection ht with ht
      subst ht
      rcases d.buf_spec s with ⟨st, hs, hb⟩ | ⟨hn, hb⟩
      · rw [hb] at hq; exact h.sids _ st hs q hq
      · rw [hb] at hq; simp at hq
    · simp only [hst, if_false] at ht
      exact h.sids t st' ht q hq

theorem Book.addConn {d : Dir α} {L : Ledger} (h : Book d L) (n : Nat) :
    Book { d with connWin := d.connWin + n } (L.addIncConn n) :=
  { conn := by simp only [Ledger.addIncConn]; have := h.conn; omega,
    connNonneg := by have := h.connNonneg; simp only; omega,
    win := h.win, fresh := h.fresh, sids := h.sids }

/-- ledger after a WINDOW_UPDATE frame: the connection-level increment also lands on the (unused)
    buffer of stream 0, as in the code -/
def Ledger.addWU (L : Ledger) (s n : Nat) : Ledger :=
  if s = 0 then (L.addIncConn n).addInc 0 n else L.addInc s n

theorem Ledger.addInc_addEmitted (L : Ledger) (s n : Nat) (qs : List (QFrame α)) :
    (L.addEmitted qs).addInc s n = (L.addInc s n).addEmitted qs := by
  induction qs generalizing L with
  | nil => rfl
  | cons q t ih =>
    simp only [Ledger.addEmitted, List.foldl_cons] at ih ⊢
    rw [ih]
    rfl

theorem Book.windowUpdate {d : Dir α} {L : Ledger} (h : Book d L) (order : List Nat) (s n : Nat) :
    Book (d.windowUpdate order s n).1 ((L.addWU s n).addEmitted (d.windowUpdate order s n).2) := by
  unfold Dir.windowUpdate
  by_cases hs : s = 0
  · subst hs
    simp only [if_true, Ledger.addWU]
    have h1 := (h.addConn n).pass order
    have h2 := (h1.addWin 0 n).emitOn 0
    rw [Ledger.addEmitted_append, ← Ledger.addInc_addEmitted]
    exact h2
  · simp only [hs, if_false, Ledger.addWU, List.nil_append]
    exact (h.addWin s n).emitOn s

theorem Book.setInitWin {d : Dir α} {L : Ledger} (h : Book d L) (order : List Nat) (v : Nat) :
    Book (d.setInitWin order v).1 (L.addEmitted (d.setInitWin order v).2) := by
  unfold Dir.setInitWin
  refine Book.pass ?_ order
  refine { conn := h.conn, connNonneg := h.connNonneg, win := ?_, fresh := ?_, sids := ?_ }
  · intro t st' ht
    simp only [SMap.get_mapWin] at ht
    cases hg : d.streams.get t with
    | none => simp [hg] at ht
    | some st =>
      simp only [hg, Option.map_some, Option.some.injEq] at ht
      subst ht
      have := h.win t st hg
      simp only; omega
  · intro t ht
    simp only [SMap.get_mapWin] at ht
    cases hg : d.streams.get t with
    | none => exact h.fresh t hg
    | some st => simp [hg] at ht
  · intro t st' ht q hq
    simp only [SMap.get_mapWin] at ht
    cases hg : d.streams.get t with
    | none => simp [hg] at ht
    | some st =>
      simp only [hg, Option.map_some, Option.some.injEq] at ht
      subst ht
      exact h.sids t st hg q hq

/-! ### no stranding -/

/-- stream `u` of `d` is stuck (vacuous when it has no buffer) -/
def stuckAt (d : Dir α) (u : Nat) : Prop :=
  ∀ st, d.streams.get u = some st → stuck st.win d.connWin st.queue

def AllStuck (d : Dir α) : Prop := ∀ u, stuckAt d u

theorem AllStuck.init : AllStuck ({} : Dir α) := by
  intro u st h; simp [SMap.get] at h

theorem AllStuck.congr {d d' : Dir α} (h : AllStuck d) (h1 : d'.connWin = d.connWin)
    (h3 : d'.streams = d.streams) : AllStuck d' := by
  intro u st hs; rw [h3] at hs; rw [h1]; exact h u st hs

theorem emitQ_conn_le (win conn : Int) (q : List (QFrame α)) : (emitQ win conn q).2.2.2 ≤ conn := by
  rw [emitQ_conn]; have := fcSum_nonneg (emitQ win conn q).1; omega

/-- the gate on `s` leaves `s` stuck and keeps every other stuck stream stuck -/
theorem stuckAt_emitOn (d : Dir α) (s u : Nat) (h : u ≠ s → stuckAt d u) : stuckAt (d.emitOn s).1 u := by
  rcases d.emitOn_spec s with ⟨hn, he⟩ | ⟨st, hs, _, he1⟩
  · rw [he]
    by_cases hus : u = s
    · subst hus; intro st' h'; simp [hn] at h'
    · exact h hus
  · rw [he1]
    intro st' ht
    simp only [SMap.get_set] at ht
    by_cases hst : s = u
    · subst hst
      simp only [if_true] at ht
      injection ht with ht
      subst ht
      exact emitQ_stuck _ _ _
    · simp only [hst, if_false] at ht
      exact stuck_mono (h (fun x => hst x.symm) st' ht) (emitQ_conn_le _ _ _)

theorem stuckAt_emitList (d : Dir α) (ss : List Nat) (u : Nat) (h : u ∉ ss → stuckAt d u) :
    stuckAt (d.emitList ss).1 u := by
  induction ss generalizing d with
  | nil => exact h (by simp)
  | cons s t ih =>
    simp only [Dir.emitList]
    apply ih
    intro hu
    apply stuckAt_emitOn
    intro hus
    exact h (by simp [hus, hu])

theorem emitOn_get_none (d : Dir α) (s u : Nat) (h : d.streams.get u = none) : (d.emitOn s).1.streams.get u = none := by
  rcases d.emitOn_spec s with ⟨_, he⟩ | ⟨st, hs, _, he1⟩
  · rw [he]; exact h
  · rw [he1]
    simp only [SMap.get_set]
    by_cases hst : s = u
    · subst hst; simp [hs] at h
    · simp [hst, h]

theorem emitList_get_none (d : Dir α) (ss : List Nat) (u : Nat) (h : d.streams.get u = none) :
    (d.emitList ss).1.streams.get u = none := by
  induction ss generalizing d with
  | nil => exact h
  | cons s t ih => simp only [Dir.emitList]; exact ih _ (emitOn_get_none d s u h)

/-- after a scan nothing that fits is left queued, whatever the state before and whatever the order -/
theorem AllStuck.pass (d : Dir α) (order : List Nat) : AllStuck (d.pass order).1 := by
  intro u
  unfold Dir.pass
  cases hg : d.streams.get u with
  | none =>
    intro st hs
    rw [emitList_get_none d _ u hg] at hs
    simp at hs
  | some st0 =>
    apply stuckAt_emitList
    intro hu
    exact absurd (List.mem_append_right _ (SMap.mem_keys_of_get _ _ _ hg)) hu

/-- change one buffer (and possibly lower the connection window), then run the gate on it -/
theorem AllStuck.modify_emitOn {d : Dir α} (h : AllStuck d) (s : Nat) (st : Stream α) :
    AllStuck ({ d with streams := d.streams.set s st }.emitOn s).1 := by
  intro u
  apply stuckAt_emitOn
  intro hus st' ht
  simp only [SMap.get_set] at ht
  have : ¬ s = u := fun x => hus x.symm
  simp only [this, if_false] at ht
  exact h u st' ht

theorem AllStuck.enqEmit {d : Dir α} (h : AllStuck d) (f : QFrame α) : AllStuck (d.enqEmit f).1 := by
  unfold Dir.enqEmit
  exact h.modify_emitOn _ _

theorem AllStuck.enqEmitAll {d : Dir α} (h : AllStuck d) (fs : List (QFrame α)) : AllStuck (d.enqEmitAll fs).1 := by
  induction fs generalizing d with
  | nil => exact h
  | cons f t ih => simp only [Dir.enqEmitAll]; exact ih (h.enqEmit f)

theorem AllStuck.windowUpdate {d : Dir α} (h : AllStuck d) (order : List Nat) (s n : Nat) :
    AllStuck (d.windowUpdate order s n).1 := by
  unfold Dir.windowUpdate
  by_cases hs : s = 0
  · subst hs
    simp only [if_true]
    exact (AllStuck.pass _ order).modify_emitOn _ _
  · simp only [hs, if_false]
    exact h.modify_emitOn _ _

theorem AllStuck.setInitWin (d : Dir α) (order : List Nat) (v : Nat) : AllStuck (d.setInitWin order v).1 := by
  unfold Dir.setInitWin
  exact AllStuck.pass _ order

end H2
end FwdVerif
