/-
  Request pipeline — helper lemmas, part 4 (core Lean only): `processRequest` as the composition
  of its stages (`Trace`) and what the composition does to one header key.
-/
import FwdVerif.Lemmas.ReqOut

namespace FwdVerif
namespace Req

open Ascii
open C16

/-! ## §1 decomposition -/

/-- `req.URL.Host = req.Host` when empty; `fixRequestScheme` -/
def fixup (ctx : Ctx) (g0 : GoReq) : GoReq :=
  { g0 with
    urlHost := if g0.urlHost.isEmpty then g0.host else g0.urlHost,
    scheme :=
      if g0.scheme.isEmpty then
        let p := goGet g0.header (bs "X-Forwarded-Proto")
        if !p.isEmpty then p else if ctx.secure then bs "https" else bs "http"
      else g0.scheme }

theorem fixup_method (ctx : Ctx) (g : GoReq) : (fixup ctx g).method = g.method := rfl

/-- the stages a forwarded request went through -/
structure Trace (cfg : Cfg) (ctx : Ctx) (r : Request) (hop : Hop) (out : OutMsg)
    (g0 : GoReq) (h3 h4 : HMap) (auth : Option Bytes) : Prop where
  read : readRequest r = .ok g0
  sec : securityCheck cfg (fixup ctx g0) = none
  framing : badFraming
    (forwarded ctx { fixup ctx g0 with header := removeHopByHop g0.header }) = some h3
  via : viaStep cfg g0.minor h3 = some h4
  out : out = writeRequest hop auth
    { fixup ctx g0 with header := finish cfg (upgradeType g0.header) h4 }
  hop : hop = .direct (fixup ctx g0).urlHost ∨
    (hop.speaksProxy = true ∧ (fixup ctx g0).scheme = bs "http") ∨ ∃ hp, hop = .socks hp

theorem processRequest_forwarded {cfg : Cfg} {ctx : Ctx} {r : Request} {hop : Hop} {out : OutMsg}
    (h : processRequest cfg ctx r = .forwarded hop out) :
    ∃ g0 h3 h4 auth, Trace cfg ctx r hop out g0 h3 h4 auth := by
  unfold processRequest at h
  split at h
  · cases h
  rename_i g0 hr
  extract_lets urlHost p scheme g upType h1 h2 at h
  split at h
  · cases h
  rename_i hs
  split at h
  · cases h
  rename_i h3 hb
  split at h
  · cases h
  rename_i h4 hv
  extract_lets h5 h6 h7 h8 gOut at h
  have viaProxy : ∀ {hp' : Hop} {a : Option Bytes}, hp'.speaksProxy = true →
      (if (scheme == bs "http") = true then Outcome.forwarded hp' (writeRequest hp' a gOut)
        else .forwarded (.direct urlHost) (writeRequest (.direct urlHost) none gOut)) =
        .forwarded hop out → ∃ g0 h3 h4 auth, Trace cfg ctx r hop out g0 h3 h4 auth := by
    intro hp' a hsp h
    split at h
    · rename_i hsch
      cases h
      exact ⟨g0, h3, h4, _, hr, hs, hb, hv, rfl,
        Or.inr (Or.inl ⟨hsp, (show scheme = bs "http" from by simpa using hsch)⟩)⟩
    · cases h
      exact ⟨g0, h3, h4, none, hr, hs, hb, hv, rfl, Or.inl rfl⟩
  split at h
  · cases h
    exact ⟨g0, h3, h4, none, hr, hs, hb, hv, rfl, Or.inl rfl⟩
  · exact viaProxy rfl h
  · exact viaProxy rfl h
  · cases h
    exact ⟨g0, h3, h4, none, hr, hs, hb, hv, rfl, Or.inr (Or.inr ⟨_, rfl⟩)⟩
  · exact viaProxy rfl h
  · cases h

/-- the converse: a request that passes every stage is forwarded -/
theorem processRequest_of_stages {cfg : Cfg} {ctx : Ctx} {r : Request} {g0 : GoReq} {h3 h4 : HMap}
    (hr : readRequest r = .ok g0) (hs : securityCheck cfg (fixup ctx g0) = none)
    (hb : badFraming
      (forwarded ctx { fixup ctx g0 with header := removeHopByHop g0.header }) = some h3)
    (hv : viaStep cfg g0.minor h3 = some h4) :
    (cfg.upstream ≠ .failed ∧ ∃ hop out, processRequest cfg ctx r = .forwarded hop out) ∨
      (cfg.upstream = .failed ∧ processRequest cfg ctx r = .routeError) := by
  unfold processRequest
  split
  · rename_i e he; rw [hr] at he; cases he
  rename_i g0' hr'
  rw [hr] at hr'
  cases hr'
  extract_lets urlHost p scheme g upType h1 h2
  split
  · rename_i why hw
    have : securityCheck cfg g = none := hs
    rw [this] at hw; cases hw
  split
  · rename_i hn
    have : badFraming h2 = some h3 := hb
    rw [this] at hn; cases hn
  rename_i h3' hb'
  have e3 : badFraming h2 = some h3 := hb
  rw [e3] at hb'
  cases hb'
  split
  · rename_i hn
    have : viaStep cfg g.minor h3 = some h4 := hv
    rw [this] at hn; cases hn
  extract_lets h5 h6 h7 h8 gOut
  split
  · rename_i hu; exact Or.inl ⟨by rw [hu]; simp, _, _, rfl⟩
  · rename_i hu
    refine Or.inl ⟨by rw [hu]; simp, ?_⟩
    split
    · exact ⟨_, _, rfl⟩
    · exact ⟨_, _, rfl⟩
  · rename_i hu
    refine Or.inl ⟨by rw [hu]; simp, ?_⟩
    split
    · exact ⟨_, _, rfl⟩
    · exact ⟨_, _, rfl⟩
  · rename_i hu; exact Or.inl ⟨by rw [hu]; simp, _, _, rfl⟩
  · rename_i hu
    refine Or.inl ⟨by rw [hu]; simp, ?_⟩
    split
    · exact ⟨_, _, rfl⟩
    · exact ⟨_, _, rfl⟩
  · rename_i hu; exact Or.inr ⟨hu, rfl⟩

/-! ## §2 names and keys -/

theorem key_not_mem_of_lower {S L : List Bytes} (hS : ∀ s ∈ S, lower s ∈ L) {n : Bytes}
    (hl : lower n = n) (h : n ∉ L) : canonicalKey n ∉ S := by
  intro hm
  have := hS _ hm
  rw [lower_canonicalKey, hl] at this
  exact h this

theorem nominatedKeys_toHeader (r : Request) :
    nominatedKeys (toHeader r.fields) =
      (inValues r (bs "connection")).flatMap fun v =>
        (splitComma v).map fun t => canonicalKey (trimSpace t) := by
  unfold nominatedKeys
  rw [← ck_connection, hget_toHeader_lower r tok_connection low_connection]

theorem mem_nominatedKeys_iff (r : Request) {n : Bytes} (hn : n.all isTokenByte = true)
    (hl : lower n = n) : canonicalKey n ∈ nominatedKeys (toHeader r.fields) ↔ n ∈ nominated r := by
  rw [nominatedKeys_toHeader]
  unfold nominated
  simp only [List.mem_flatMap, List.mem_map]
  constructor
  · rintro ⟨v, hv, t, ht, hk⟩
    refine ⟨v, hv, t, ht, ?_⟩
    rw [← lower_canonicalKey (trimSpace t), hk, lower_canonicalKey, hl]
  · rintro ⟨v, hv, t, ht, hk⟩
    refine ⟨v, hv, t, ht, ?_⟩
    exact canonicalKey_congr hn (by rw [hk, hl])

/-- `Header.Get` on the parsed header = first value of the field lines of that name -/
theorem goGet_toHeader (r : Request) (n : Bytes) {m : Bytes} (hm : m.all isTokenByte = true)
    (hl : lower m = m) (hk : canonicalKey n = canonicalKey m) :
    goGet (toHeader r.fields) n = firstValue r m := by
  unfold goGet firstValue
  rw [hk, hget_toHeader_lower r hm hl]

theorem targetParts_fst (r : Request) : (targetParts r.target).1 = targetScheme r := by
  unfold targetScheme; cases r.target <;> rfl

theorem targetParts_snd (r : Request) : (targetParts r.target).2 = authorityOf r := by
  unfold authorityOf; cases r.target <;> rfl

theorem ReadSpec.goGet_eq {r : Request} {g : GoReq} (s : ReadSpec r g) {n : Bytes}
    (h1 : canonicalKey n ∉ readKeys) : Req.goGet g.header n = Req.goGet (toHeader r.fields) n :=
  goGet_congr (s.header.get (toHeader_inv _) h1)

theorem ReadSpec.hostOf {r : Request} {g : GoReq} (s : ReadSpec r g) : g.host = hostOf r := by
  rw [s.host, targetParts_snd,
    goGet_toHeader r (bs "Host") (m := bs "host") (by decide +kernel) (by decide +kernel)
      (by decide +kernel)]
  rfl

theorem ReadSpec.fixup_host {r : Request} {g : GoReq} (s : ReadSpec r g) (ctx : Ctx) :
    (fixup ctx g).host = Req.hostOf r := s.hostOf

theorem ReadSpec.fixup_urlHost {r : Request} {g : GoReq} (s : ReadSpec r g) (ctx : Ctx) :
    (fixup ctx g).urlHost = Req.hostOf r := by
  show (if g.urlHost.isEmpty then g.host else g.urlHost) = _
  rw [s.hostOf, s.urlHost, targetParts_snd]
  unfold Req.hostOf
  split <;> rfl

theorem ReadSpec.fixup_scheme {r : Request} {g : GoReq} (s : ReadSpec r g) (ctx : Ctx) :
    (fixup ctx g).scheme = effScheme ctx r := by
  show (if g.scheme.isEmpty then
      (if !(goGet g.header (bs "X-Forwarded-Proto")).isEmpty then goGet g.header (bs "X-Forwarded-Proto")
       else if ctx.secure then bs "https" else bs "http")
    else g.scheme) = _
  rw [s.scheme, targetParts_fst, s.goGet_eq (n := bs "X-Forwarded-Proto") (by decide +kernel),
    goGet_toHeader r (bs "X-Forwarded-Proto") (m := bs "x-forwarded-proto") (by decide +kernel)
      (by decide +kernel) (by decide +kernel)]
  rfl

theorem ReadSpec.requestURI {r : Request} {g : GoReq} (s : ReadSpec r g) (ctx : Ctx) (h : HMap) :
    Req.requestURI { fixup ctx g with header := h } = r.path ++ queryPart r := by
  show g.path ++ (match g.query with | some q => 63 :: q | none => []) = _
  rw [s.path, s.query]
  unfold queryPart
  cases r.query <;> rfl

theorem ReadSpec.fullURL {r : Request} {g : GoReq} (s : ReadSpec r g) (ctx : Ctx) (h : HMap) :
    Req.fullURL { fixup ctx g with header := h } = urlOf ctx r := by
  show (fixup ctx g).scheme ++ bs "://" ++ (fixup ctx g).urlHost ++ g.path ++
    (match g.query with | some q => 63 :: q | none => []) = _
  rw [s.fixup_scheme, s.fixup_urlHost, s.path, s.query]
  unfold urlOf queryPart
  cases r.query <;> simp

/-! ### the tail on its own keys -/

theorem ne_ua_auth : bs "User-Agent" ≠ canonicalKey (bs "Authorization") := by decide +kernel
theorem ne_ua_conn : bs "User-Agent" ≠ canonicalKey (bs "Connection") := by decide +kernel
theorem ne_ua_upg : bs "User-Agent" ≠ canonicalKey (bs "Upgrade") := by decide +kernel
theorem ne_conn_auth : bs "Connection" ≠ canonicalKey (bs "Authorization") := by decide +kernel
theorem ne_conn_ua : bs "Connection" ≠ canonicalKey (bs "User-Agent") := by decide +kernel
theorem ne_conn_upg : bs "Connection" ≠ canonicalKey (bs "Upgrade") := by decide +kernel
theorem ne_upg_auth : bs "Upgrade" ≠ canonicalKey (bs "Authorization") := by decide +kernel
theorem ne_upg_ua : bs "Upgrade" ≠ canonicalKey (bs "User-Agent") := by decide +kernel
theorem ck_UA : canonicalKey (bs "User-Agent") = bs "User-Agent" := by decide +kernel
theorem ck_Upgrade : canonicalKey (bs "Upgrade") = bs "Upgrade" := by decide +kernel

theorem get_goSet_self' (h : HMap) {n : Bytes} (v : Bytes) (hc : canonicalKey n = n) :
    HMap.get (goSet h n v) n = some [v] := by
  have := get_goSet_self h n v
  rwa [hc] at this

theorem hget_goSet_self' (h : HMap) {n : Bytes} (v : Bytes) (hc : canonicalKey n = n) :
    hget (goSet h n v) n = [v] := by
  rw [hget_eq, get_goSet_self' h v hc]; rfl

/-- the site-credential step leaves every key but `Authorization` alone -/
theorem get_cred_ne (cfg : Cfg) (h5 : HMap) {k : Bytes}
    (hk : k ≠ canonicalKey (bs "Authorization")) :
    HMap.get (match cfg.siteCred with
      | some a => if (goGet h5 (bs "Authorization")).isEmpty then goSet h5 (bs "Authorization") a else h5
      | none => h5) k = HMap.get h5 k := by
  split
  · exact get_ite_goSet_ne _ _ _ hk
  · rfl

/-- `Connection` after the tail: `Upgrade` iff an upgrade was captured -/
theorem hget_finishTail_conn (cfg : Cfg) (up : Bytes) (h5 : HMap) :
    hget (finishTail cfg up h5) (bs "Connection") =
      if up.isEmpty then hget h5 (bs "Connection") else [bs "Upgrade"] := by
  unfold finishTail
  extract_lets h6 h7
  have e6 : HMap.get h6 (bs "Connection") = HMap.get h5 (bs "Connection") := by
    exact get_cred_ne cfg h5 ne_conn_auth
  have e7 : HMap.get h7 (bs "Connection") = HMap.get h6 (bs "Connection") := by
    exact get_ite_goSet_ne _ _ _ ne_conn_ua
  split
  · exact hget_congr (e7.trans e6)
  · rw [hget_congr (get_goSet_ne _ _ ne_conn_upg), hget_goSet_self' _ _ ck_Connection]

/-- `Upgrade` after the tail -/
theorem hget_finishTail_upg (cfg : Cfg) (up : Bytes) (h5 : HMap) :
    hget (finishTail cfg up h5) (bs "Upgrade") =
      if up.isEmpty then hget h5 (bs "Upgrade") else [up] := by
  unfold finishTail
  extract_lets h6 h7
  have e6 : HMap.get h6 (bs "Upgrade") = HMap.get h5 (bs "Upgrade") := by
    exact get_cred_ne cfg h5 ne_upg_auth
  have e7 : HMap.get h7 (bs "Upgrade") = HMap.get h6 (bs "Upgrade") := by
    exact get_ite_goSet_ne _ _ _ ne_upg_ua
  split
  · exact hget_congr (e7.trans e6)
  · rw [hget_goSet_self' _ _ ck_Upgrade]

/-- `User-Agent` after the tail: an absent one becomes the empty string -/
theorem get_finishTail_ua (cfg : Cfg) (up : Bytes) (h5 : HMap) :
    HMap.get (finishTail cfg up h5) (bs "User-Agent") =
      if (HMap.get h5 (bs "User-Agent")).isNone then some [[]] else HMap.get h5 (bs "User-Agent") := by
  unfold finishTail
  extract_lets h6 h7
  have e6 : HMap.get h6 (bs "User-Agent") = HMap.get h5 (bs "User-Agent") := by
    exact get_cred_ne cfg h5 ne_ua_auth
  have e7 : HMap.get h7 (bs "User-Agent") =
      if (HMap.get h5 (bs "User-Agent")).isNone then some [[]] else HMap.get h5 (bs "User-Agent") := by
    simp only [h7, e6]
    split
    · exact get_goSet_self' _ _ ck_UA
    · exact e6
  split
  · exact e7
  · rw [get_goSet_ne _ _ ne_ua_upg, get_goSet_ne _ _ ne_ua_conn]; exact e7

theorem fill_shape (r : Request) (n x : Bytes) :
    (if (survivingFirst r n).isEmpty then [x] else survivingValues r n) =
      if (firstValue r n).isEmpty ∨ n ∈ nominated r then [x] else inValues r n := by
  unfold survivingFirst survivingValues firstValue
  by_cases hnom : n ∈ nominated r
  · simp [hnom]
  · simp [hnom]

/-! ## §3 one key through the pipeline -/

section trace

-- keep the unifier from evaluating the stages (their literals only reduce in the kernel)
attribute [local irreducible] removeHopByHop forwarded badFraming viaStep finishTail fixup
  nominatedKeys upgradeType

variable {cfg : Cfg} {ctx : Ctx} {r : Request} {hop : Hop} {out : OutMsg}
  {g0 : GoReq} {h3 h4 : HMap} {auth : Option Bytes}

theorem Trace.spec (t : Trace cfg ctx r hop out g0 h3 h4 auth) : ReadSpec r g0 :=
  readRequest_ok t.read

theorem Trace.inv0 (t : Trace cfg ctx r hop out g0 h3 h4 auth) : Inv g0.header :=
  t.spec.header.inv (toHeader_inv _)

theorem Trace.conn (t : Trace cfg ctx r hop out g0 h3 h4 auth) :
    hget g0.header (bs "Connection") = inValues r (bs "connection") := by
  rw [hget_congr (t.spec.header.get (toHeader_inv _) (k := bs "Connection") (by decide +kernel)),
    ← ck_connection, hget_toHeader_lower r tok_connection low_connection]

theorem Trace.nomKeys (t : Trace cfg ctx r hop out g0 h3 h4 auth) :
    nominatedKeys g0.header = nominatedKeys (toHeader r.fields) := by
  unfold nominatedKeys
  rw [t.conn, ← ck_connection, hget_toHeader_lower r tok_connection low_connection]

theorem Trace.inv3 (t : Trace cfg ctx r hop out g0 h3 h4 auth) : Inv h3 :=
  (badFraming_agree t.framing).inv
    ((forwarded_agree ctx _).inv ((removeHopByHop_agree g0.header).inv t.inv0))

theorem Trace.inv4 (t : Trace cfg ctx r hop out g0 h3 h4 auth) : Inv h4 :=
  (viaStep_agree t.via).inv t.inv3

/-- a key no stage before the Via modifier touches -/
theorem Trace.get3 (t : Trace cfg ctx r hop out g0 h3 h4 auth) {k : Bytes}
    (h1 : k ∉ readKeys) (h2 : k ∉ nominatedKeys (toHeader r.fields)) (h3' : k ∉ hopByHopNames)
    (h4' : k ∉ fwdKeys) (h5 : k ≠ canonicalKey (bs "Content-Length")) :
    HMap.get h3 k = HMap.get (toHeader r.fields) k := by
  have iB := (removeHopByHop_agree g0.header).inv t.inv0
  have iC := (forwarded_agree ctx
    { fixup ctx g0 with header := removeHopByHop g0.header }).inv iB
  rw [(badFraming_agree t.framing).get iC h5,
    (forwarded_agree ctx { fixup ctx g0 with header := removeHopByHop g0.header }).get iB h4',
    (removeHopByHop_agree g0.header).get t.inv0 (by
      rw [t.nomKeys]; exact fun h => h.elim h2 h3'),
    t.spec.header.get (toHeader_inv _) h1]

/-- a nominated or static hop-by-hop key that no later stage re-creates is absent before Via -/
theorem Trace.get3_removed (t : Trace cfg ctx r hop out g0 h3 h4 auth) {k : Bytes}
    (h2 : k ∈ nominatedKeys (toHeader r.fields) ∨ k ∈ hopByHopNames)
    (h4' : k ∉ fwdKeys) (h5 : k ≠ canonicalKey (bs "Content-Length")) :
    HMap.get h3 k = none := by
  have iB := (removeHopByHop_agree g0.header).inv t.inv0
  have iC := (forwarded_agree ctx
    { fixup ctx g0 with header := removeHopByHop g0.header }).inv iB
  rw [(badFraming_agree t.framing).get iC h5,
    (forwarded_agree ctx { fixup ctx g0 with header := removeHopByHop g0.header }).get iB h4']
  exact get_removeHopByHop_none g0.header (by rw [t.nomKeys]; exact h2)

/-- with no configured rules: a key the tail does not touch -/
theorem Trace.get8 (t : Trace cfg ctx r hop out g0 h3 h4 auth) (hr : cfg.rules = [])
    {k : Bytes} (h1 : k ≠ canonicalKey (bs "Via")) (h2 : k ∉ tailKeys) :
    HMap.get (finish cfg (upgradeType g0.header) h4) k = HMap.get h3 k := by
  rw [finish_eq, hr]
  show HMap.get (finishTail cfg (upgradeType g0.header) h4) k = _
  rw [(finishTail_agree cfg _ h4).get t.inv4 h2, (viaStep_agree t.via).get t.inv3 h1]

theorem Trace.inv8 (t : Trace cfg ctx r hop out g0 h3 h4 auth) (hr : cfg.rules = []) :
    Inv (finish cfg (upgradeType g0.header) h4) := by
  rw [finish_eq, hr]
  exact (finishTail_agree cfg _ h4).inv t.inv4

theorem ck_CL : canonicalKey (bs "Content-Length") = bs "Content-Length" := by decide +kernel
theorem ck_Via : canonicalKey (bs "Via") = bs "Via" := by decide +kernel

/-- keys of a name that is neither static hop-by-hop nor managed -/
theorem other_keys {n : Bytes} (hl : lower n = n) (hL : n ∉ hopByHopLower ++ managedLower) :
    canonicalKey n ∉ readKeys ∧ canonicalKey n ∉ hopByHopNames ∧ canonicalKey n ∉ fwdKeys ∧
      canonicalKey n ≠ canonicalKey (bs "Content-Length") ∧
      canonicalKey n ≠ canonicalKey (bs "Via") ∧ canonicalKey n ∉ tailKeys ∧
      canonicalKey n ∉ writerExcluded := by
  have hk := key_not_mem_of_lower stageKeys_lower hl hL
  simp only [List.mem_append, not_or, List.mem_cons, List.not_mem_nil, or_false] at hk
  obtain ⟨⟨⟨⟨⟨k1, k2⟩, k3⟩, k4, k5⟩, k6⟩, k7⟩ := hk
  rw [ck_CL, ck_Via]
  exact ⟨k1, k2, k3, k4, k5, k6, k7⟩

/-- managed-set-free part: a managed name whose keys only the listed stages touch -/
theorem Trace.hget_other (t : Trace cfg ctx r hop out g0 h3 h4 auth) (hr : cfg.rules = [])
    {n : Bytes} (hn : n.all isTokenByte = true) (hl : lower n = n)
    (hL : n ∉ hopByHopLower ++ managedLower) (hnom : n ∉ nominated r) :
    hget (finish cfg (upgradeType g0.header) h4) (canonicalKey n) = inValues r n := by
  obtain ⟨k1, k2, k3, k4, k5, k6, _⟩ := other_keys hl hL
  rw [hget_congr (t.get8 hr k5 k6),
    hget_congr (t.get3 k1 (fun h => hnom ((mem_nominatedKeys_iff r hn hl).mp h)) k2 k3 k4),
    hget_toHeader_lower r hn hl]

theorem Trace.hget_removed (t : Trace cfg ctx r hop out g0 h3 h4 auth) (hr : cfg.rules = [])
    {n : Bytes} (hn : n.all isTokenByte = true) (hl : lower n = n)
    (hm : n ∉ managedLower) (hrem : n ∈ hopByHopLower ∨ n ∈ nominated r) :
    hget (finish cfg (upgradeType g0.header) h4) (canonicalKey n) = [] := by
  have hmk : ∀ S : List Bytes, (∀ s ∈ S, lower s ∈ managedLower) → canonicalKey n ∉ S :=
    fun S hS => key_not_mem_of_lower hS hl hm
  have k3 : canonicalKey n ∉ fwdKeys := hmk _ (by decide +kernel)
  have k45 : canonicalKey n ∉ [bs "Content-Length", bs "Via"] := hmk _ (by decide +kernel)
  have k6 : canonicalKey n ∉ tailKeys := hmk _ (by decide +kernel)
  simp only [List.mem_cons, List.not_mem_nil, or_false, not_or] at k45
  have hk : canonicalKey n ∈ nominatedKeys (toHeader r.fields) ∨ canonicalKey n ∈ hopByHopNames := by
    rcases hrem with hs | hnom
    · right
      rw [← hopByHopNames_lower] at hs
      obtain ⟨m, hm', hlm⟩ := List.mem_map.mp hs
      have : canonicalKey m = canonicalKey n := canonicalKey_congr hn (by rw [hlm, hl])
      rw [← this, hopByHopNames_canon m hm']
      exact hm'
    · exact Or.inl ((mem_nominatedKeys_iff r hn hl).mpr hnom)
  rw [hget_eq, t.get8 hr (by rw [ck_Via]; exact k45.2) k6,
    t.get3_removed hk k3 (by rw [ck_CL]; exact k45.1)]
  rfl

/-- before the Via modifier: the values of a name that only nomination can remove -/
theorem Trace.hget3_name (t : Trace cfg ctx r hop out g0 h3 h4 auth)
    {n : Bytes} (hn : n.all isTokenByte = true) (hl : lower n = n)
    (k1 : canonicalKey n ∉ readKeys) (k2 : canonicalKey n ∉ hopByHopNames)
    (k3 : canonicalKey n ∉ fwdKeys) (k4 : canonicalKey n ≠ canonicalKey (bs "Content-Length")) :
    hget h3 (canonicalKey n) = survivingValues r n := by
  unfold survivingValues
  split
  · rename_i hnom
    rw [hget_eq, t.get3_removed (Or.inl ((mem_nominatedKeys_iff r hn hl).mpr hnom)) k3 k4]
    rfl
  · rename_i hnom
    rw [hget_congr (t.get3 k1 (fun h => hnom ((mem_nominatedKeys_iff r hn hl).mp h)) k2 k3 k4),
      hget_toHeader_lower r hn hl]

/-- after hop-by-hop removal: the values of a name that is not static hop-by-hop -/
theorem Trace.hgetB (t : Trace cfg ctx r hop out g0 h3 h4 auth)
    {n : Bytes} (hn : n.all isTokenByte = true) (hl : lower n = n)
    (k1 : canonicalKey n ∉ readKeys) (k2 : canonicalKey n ∉ hopByHopNames) :
    hget (removeHopByHop g0.header) (canonicalKey n) = survivingValues r n := by
  unfold survivingValues
  split
  · rename_i hnom
    rw [hget_eq, get_removeHopByHop_none g0.header (by
      rw [t.nomKeys]; exact Or.inl ((mem_nominatedKeys_iff r hn hl).mpr hnom))]
    rfl
  · rename_i hnom
    rw [hget_congr ((removeHopByHop_agree g0.header).get t.inv0 (by
        rw [t.nomKeys]
        exact fun h => h.elim (fun h => hnom ((mem_nominatedKeys_iff r hn hl).mp h)) k2)),
      hget_congr (t.spec.header.get (toHeader_inv _) k1), hget_toHeader_lower r hn hl]

theorem Trace.goGetB (t : Trace cfg ctx r hop out g0 h3 h4 auth) (N : Bytes)
    {n : Bytes} (hn : n.all isTokenByte = true) (hl : lower n = n)
    (hk : canonicalKey N = canonicalKey n)
    (k1 : canonicalKey n ∉ readKeys) (k2 : canonicalKey n ∉ hopByHopNames) :
    goGet (removeHopByHop g0.header) N = survivingFirst r n := by
  unfold goGet survivingFirst
  rw [hk, t.hgetB hn hl k1 k2]

/-- the header the forwarded modifier runs on -/
theorem Trace.get3C (t : Trace cfg ctx r hop out g0 h3 h4 auth) {k : Bytes}
    (hk : k ≠ canonicalKey (bs "Content-Length")) :
    HMap.get h3 k = HMap.get
      (forwarded ctx { fixup ctx g0 with header := removeHopByHop g0.header }) k :=
  (badFraming_agree t.framing).get
    ((forwarded_agree ctx { fixup ctx g0 with header := removeHopByHop g0.header }).inv
      ((removeHopByHop_agree g0.header).inv t.inv0)) hk

theorem Trace.get4 (t : Trace cfg ctx r hop out g0 h3 h4 auth) {k : Bytes}
    (hk : k ≠ canonicalKey (bs "Via")) : HMap.get h4 k = HMap.get h3 k :=
  (viaStep_agree t.via).get t.inv3 hk

/-- the upgrade captured before the modifiers run is the one the client asked for -/
theorem Trace.upType (t : Trace cfg ctx r hop out g0 h3 h4 auth) :
    upgradeType g0.header = upgradeRequested r := by
  unfold upgradeType upgradeRequested
  rw [t.conn, t.spec.goGet_eq (n := bs "Upgrade") (by decide +kernel),
    goGet_toHeader r (bs "Upgrade") (m := bs "upgrade") (by decide +kernel) (by decide +kernel)
      (by decide +kernel)]

/-- the client's own `Connection` never survives the hop-by-hop removal -/
theorem Trace.hget4_conn (t : Trace cfg ctx r hop out g0 h3 h4 auth) :
    hget h4 (bs "Connection") = [] := by
  rw [hget_eq, t.get4 (by decide +kernel),
    t.get3_removed (Or.inr (by decide +kernel)) (by decide +kernel) (by decide +kernel)]
  rfl

theorem vals_uaPiece_finishTail (cfg : Cfg) (up : Bytes) (h5 : HMap)
    (h : hget h5 (bs "User-Agent") = []) :
    vals (uaPiece (finishTail cfg up h5)) (bs "user-agent") = [] := by
  unfold uaPiece
  rw [get_finishTail_ua]
  rw [hget_eq] at h
  cases hg : HMap.get h5 (bs "User-Agent") with
  | none => simp [trimOWS, vals_nil]
  | some vs =>
    rw [hg] at h
    have : vs = [] := h
    subst this
    simp [vals_nil]

theorem header_mk (g : GoReq) (X : HMap) : ({ g with header := X } : GoReq).header = X := rfl

/-- the writer on a name it does not produce itself -/
theorem Trace.outValues_other (t : Trace cfg ctx r hop out g0 h3 h4 auth) (hr : cfg.rules = [])
    {n : Bytes} (hn : n.all isTokenByte = true) (hl : lower n = n) (hw : n ∉ writerNames) :
    outValues out n = hget (finish cfg (upgradeType g0.header) h4) (canonicalKey n) := by
  rw [t.out, outValues_writeRequest_other _ _ (by rw [header_mk]; exact t.inv8 hr) hn hl hw,
    header_mk]

/-- Via as the writer gets it -/
theorem Trace.hget8_via (t : Trace cfg ctx r hop out g0 h3 h4 auth) (hr : cfg.rules = []) :
    hget (finish cfg (upgradeType g0.header) h4) (bs "Via") =
      [viaValue cfg r.minor (survivingChain r (bs "via"))] := by
  rw [finish_eq, hr]
  show hget (finishTail cfg (upgradeType g0.header) h4) (bs "Via") = _
  rw [hget_congr ((finishTail_agree cfg _ h4).get t.inv4 (k := bs "Via") (by decide +kernel)),
    viaStep_some t.via, hget_goSet_self' _ _ ck_Via, t.spec.minor]
  have h3' := t.hget3_name (n := bs "via") (by decide +kernel) (by decide +kernel)
    (by decide +kernel) (by decide +kernel) (by decide +kernel) (by decide +kernel)
  have : viaChainOf h3 = survivingChain r (bs "via") := by
    unfold viaChainOf survivingChain
    rw [← h3', show canonicalKey (bs "via") = bs "Via" from by decide +kernel]
  rw [this]

/-- a key the forwarded modifier owns, as the writer gets it -/
theorem Trace.hget8_fwd (t : Trace cfg ctx r hop out g0 h3 h4 auth) (hr : cfg.rules = [])
    {k : Bytes} (h1 : k ≠ canonicalKey (bs "Via")) (h2 : k ∉ tailKeys)
    (h3' : k ≠ canonicalKey (bs "Content-Length")) :
    hget (finish cfg (upgradeType g0.header) h4) k =
      hget (forwarded ctx { fixup ctx g0 with header := removeHopByHop g0.header }) k := by
  rw [hget_congr (t.get8 hr h1 h2), hget_congr (t.get3C h3')]

/-- X-Forwarded-For as the writer gets it -/
theorem Trace.hget8_xff (t : Trace cfg ctx r hop out g0 h3 h4 auth) (hr : cfg.rules = []) :
    hget (finish cfg (upgradeType g0.header) h4) (canonicalKey (bs "X-Forwarded-For")) =
      [if (survivingChain r (bs "x-forwarded-for")).isEmpty then ctx.clientIP
       else survivingChain r (bs "x-forwarded-for") ++ bs ", " ++ ctx.clientIP] := by
  have hB := t.hgetB (n := bs "x-forwarded-for") (by decide +kernel) (by decide +kernel)
    (by decide +kernel) (by decide +kernel)
  rw [show canonicalKey (bs "x-forwarded-for") = bs "X-Forwarded-For" from by decide +kernel] at hB
  have : xffChainOf (removeHopByHop g0.header) = survivingChain r (bs "x-forwarded-for") := by
    unfold xffChainOf survivingChain
    rw [hB]
  rw [t.hget8_fwd hr (by decide +kernel) (by decide +kernel) (by decide +kernel),
    hget_forwarded_xff, header_mk, this]

theorem Trace.hget8_proto (t : Trace cfg ctx r hop out g0 h3 h4 auth) (hr : cfg.rules = []) :
    hget (finish cfg (upgradeType g0.header) h4) (canonicalKey (bs "X-Forwarded-Proto")) =
      if (firstValue r (bs "x-forwarded-proto")).isEmpty ∨ bs "x-forwarded-proto" ∈ nominated r
      then [effScheme ctx r] else inValues r (bs "x-forwarded-proto") := by
  rw [t.hget8_fwd hr (by decide +kernel) (by decide +kernel) (by decide +kernel),
    hget_forwarded_proto, header_mk,
    t.goGetB (bs "X-Forwarded-Proto") (n := bs "x-forwarded-proto") (by decide +kernel)
      (by decide +kernel) (by decide +kernel) (by decide +kernel) (by decide +kernel),
    show canonicalKey (bs "X-Forwarded-Proto") = canonicalKey (bs "x-forwarded-proto") from by
      decide +kernel,
    t.hgetB (n := bs "x-forwarded-proto") (by decide +kernel) (by decide +kernel)
      (by decide +kernel) (by decide +kernel)]
  have : ({ fixup ctx g0 with header := removeHopByHop g0.header } : GoReq).scheme =
      (fixup ctx g0).scheme := rfl
  rw [this, t.spec.fixup_scheme, fill_shape]

theorem Trace.hget8_host (t : Trace cfg ctx r hop out g0 h3 h4 auth) (hr : cfg.rules = []) :
    hget (finish cfg (upgradeType g0.header) h4) (canonicalKey (bs "X-Forwarded-Host")) =
      if (firstValue r (bs "x-forwarded-host")).isEmpty ∨ bs "x-forwarded-host" ∈ nominated r
      then [hostOf r] else inValues r (bs "x-forwarded-host") := by
  rw [t.hget8_fwd hr (by decide +kernel) (by decide +kernel) (by decide +kernel),
    hget_forwarded_host, header_mk,
    t.goGetB (bs "X-Forwarded-Host") (n := bs "x-forwarded-host") (by decide +kernel)
      (by decide +kernel) (by decide +kernel) (by decide +kernel) (by decide +kernel),
    show canonicalKey (bs "X-Forwarded-Host") = canonicalKey (bs "x-forwarded-host") from by
      decide +kernel,
    t.hgetB (n := bs "x-forwarded-host") (by decide +kernel) (by decide +kernel)
      (by decide +kernel) (by decide +kernel)]
  have : ({ fixup ctx g0 with header := removeHopByHop g0.header } : GoReq).host =
      (fixup ctx g0).host := rfl
  rw [this, t.spec.fixup_host, fill_shape]

theorem Trace.hget8_url (t : Trace cfg ctx r hop out g0 h3 h4 auth) (hr : cfg.rules = []) :
    hget (finish cfg (upgradeType g0.header) h4) (canonicalKey (bs "X-Forwarded-Url")) =
      if (firstValue r (bs "x-forwarded-url")).isEmpty ∨ bs "x-forwarded-url" ∈ nominated r
      then [urlOf ctx r] else inValues r (bs "x-forwarded-url") := by
  rw [t.hget8_fwd hr (by decide +kernel) (by decide +kernel) (by decide +kernel),
    hget_forwarded_url, header_mk,
    t.goGetB (bs "X-Forwarded-Url") (n := bs "x-forwarded-url") (by decide +kernel)
      (by decide +kernel) (by decide +kernel) (by decide +kernel) (by decide +kernel),
    show canonicalKey (bs "X-Forwarded-Url") = canonicalKey (bs "x-forwarded-url") from by
      decide +kernel,
    t.hgetB (n := bs "x-forwarded-url") (by decide +kernel) (by decide +kernel)
      (by decide +kernel) (by decide +kernel),
    t.spec.fullURL, fill_shape]

/-- a name only nomination can remove, as the writer gets it -/
theorem Trace.hget8_name (t : Trace cfg ctx r hop out g0 h3 h4 auth) (hr : cfg.rules = [])
    {n : Bytes} (hn : n.all isTokenByte = true) (hl : lower n = n)
    (k1 : canonicalKey n ∉ readKeys) (k2 : canonicalKey n ∉ hopByHopNames)
    (k3 : canonicalKey n ∉ fwdKeys) (k4 : canonicalKey n ≠ canonicalKey (bs "Content-Length"))
    (k5 : canonicalKey n ≠ canonicalKey (bs "Via")) (k6 : canonicalKey n ∉ tailKeys) :
    hget (finish cfg (upgradeType g0.header) h4) (canonicalKey n) = survivingValues r n := by
  rw [hget_congr (t.get8 hr k5 k6), t.hget3_name hn hl k1 k2 k3 k4]

theorem Trace.outValues_host (t : Trace cfg ctx r hop out g0 h3 h4 auth) (hr : cfg.rules = []) :
    outValues out (bs "host") = [hostOf r] := by
  rw [t.out, outValues_writeRequest_host _ _ (by rw [header_mk]; exact t.inv8 hr)]
  exact congrArg (fun x => [x]) (t.spec.fixup_host ctx)

theorem Trace.outValues_ua (t : Trace cfg ctx r hop out g0 h3 h4 auth) (hr : cfg.rules = []) :
    outValues out (bs "user-agent") =
      vals (uaPiece (finish cfg (upgradeType g0.header) h4)) (bs "user-agent") := by
  rw [t.out, outValues_writeRequest_ua _ _ (by rw [header_mk]; exact t.inv8 hr), header_mk]

theorem Trace.outValues_conn (t : Trace cfg ctx r hop out g0 h3 h4 auth) (hr : cfg.rules = []) :
    ∃ cl, (cl = [] ∨ cl = [bs "close"]) ∧
      outValues out (bs "connection") =
        cl ++ hget (finish cfg (upgradeType g0.header) h4) (bs "Connection") := by
  refine ⟨vals (connPiece { fixup ctx g0 with header := finish cfg (upgradeType g0.header) h4 })
    (bs "connection"), ?_, ?_⟩
  · unfold connPiece
    split
    · right; exact vals_single_self _ _
    · left; rfl
  · rw [t.out, outValues_writeRequest_conn _ _ (by rw [header_mk]; exact t.inv8 hr), header_mk]

theorem method_mk (g : GoReq) (X : HMap) : ({ g with header := X } : GoReq).method = g.method := rfl

theorem Trace.outValues_ae (t : Trace cfg ctx r hop out g0 h3 h4 auth) (hr : cfg.rules = []) :
    outValues out (bs "accept-encoding") =
      survivingValues r (bs "accept-encoding") ++
        (if (survivingFirst r (bs "accept-encoding")).isEmpty &&
            (survivingFirst r (bs "range")).isEmpty && r.method != bs "HEAD"
         then [bs "gzip"] else []) := by
  have hae : hget (finish cfg (upgradeType g0.header) h4) (bs "Accept-Encoding") =
      survivingValues r (bs "accept-encoding") := by
    have := t.hget8_name hr (n := bs "accept-encoding") (by decide +kernel) (by decide +kernel)
      (by decide +kernel) (by decide +kernel) (by decide +kernel) (by decide +kernel)
      (by decide +kernel) (by decide +kernel)
    rwa [ck_accept_encoding] at this
  have hrg : hget (finish cfg (upgradeType g0.header) h4) (bs "Range") =
      survivingValues r (bs "range") := by
    have := t.hget8_name hr (n := bs "range") (by decide +kernel) (by decide +kernel)
      (by decide +kernel) (by decide +kernel) (by decide +kernel) (by decide +kernel)
      (by decide +kernel) (by decide +kernel)
    rwa [show canonicalKey (bs "range") = bs "Range" from by decide +kernel] at this
  have g1 : goGet (finish cfg (upgradeType g0.header) h4) (bs "Accept-Encoding") =
      survivingFirst r (bs "accept-encoding") := by
    unfold goGet survivingFirst
    rw [show canonicalKey (bs "Accept-Encoding") = bs "Accept-Encoding" from by decide +kernel, hae]
  have g2 : goGet (finish cfg (upgradeType g0.header) h4) (bs "Range") =
      survivingFirst r (bs "range") := by
    unfold goGet survivingFirst
    rw [show canonicalKey (bs "Range") = bs "Range" from by decide +kernel, hrg]
  rw [t.out, outValues_writeRequest_ae _ _ (by rw [header_mk]; exact t.inv8 hr), header_mk, hae]
  unfold gzipPiece
  rw [header_mk, method_mk, g1, g2]
  rw [fixup_method, t.spec.method]
  split
  · rw [vals_single_self]
  · rfl

end trace

end Req
end FwdVerif
