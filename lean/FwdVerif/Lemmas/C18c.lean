/-
  C18 — helper lemmas, part c: `processRequest` cut around the Via modifier; what reaches the
  modifier (`preVia_via`).  Core Lean only.
-/
import FwdVerif.Lemmas.C18b

namespace FwdVerif
namespace C18
open Ascii Req
open C16 (HMap goDel goSet goAdd Rule applyRules prefixFold NodupKeys)

/-! ## §7 the pipeline around the Via modifier -/

theorem processRequest_eq (cfg : Cfg) (ctx : Ctx) (r : Request) :
    processRequest cfg ctx r =
      match preVia cfg ctx r with
      | .error o => o
      | .ok p =>
        match viaStep cfg p.g.minor p.h3 with
        | none => .refused 400 .loop
        | some h4 => postVia cfg p h4 := by
  unfold processRequest preVia
  cases readRequest r with
  | error e => rfl
  | ok g0 =>
    simp only
    split
    · rename_i why heq
      simp only [heq]
    · rename_i heq
      simp only [heq]
      split
      · rename_i heq2
        simp only [heq2]
      · rename_i h3 heq2
        simp only [heq2]
        split
        · rename_i heq3
          simp only [heq3]
        · rename_i h4 heq3
          simp only [heq3]
          unfold postVia finalHeader
          rfl

/-- names `removeHopByHop` deletes because a Connection option names them -/
def nominatedNames (h : HMap) : List Bytes :=
  (hget h (bs "Connection")).flatMap fun vs => (splitComma vs).map fun v => canonicalKey (trimSpace v)

theorem foldl_goDel_reach (ks : List Bytes) (S : List Bytes) (h0 h : HMap) (hr : Reach S h0 h)
    (hs : ∀ k ∈ ks, k ∈ S) : Reach S h0 (ks.foldl (fun h k => goDel h k) h) := by
  induction ks generalizing h with
  | nil => exact hr
  | cons k ks ih =>
    exact ih _ (Reach.del k hr (hs k (by simp))) (fun k' hk' => hs k' (List.mem_cons_of_mem _ hk'))

theorem removeHopByHop_reach (h : HMap) :
    Reach (nominatedNames h ++ hopByHopNames) h (removeHopByHop h) := by
  unfold removeHopByHop
  apply foldl_goDel_reach _ _ _ _ _ (fun k hk => List.mem_append_right _ hk)
  exact foldl_goDel_reach _ _ _ _ Reach.refl (fun k hk => List.mem_append_left _ hk)

def forwardedNames : List Bytes :=
  [bs "X-Forwarded-Proto", bs "X-Forwarded-Host", bs "X-Forwarded-Url", bs "X-Forwarded-For"]

theorem forwarded_reach (ctx : Ctx) (g : GoReq) (h0 : HMap) (hg : g.header = h0) :
    Reach forwardedNames h0 (forwarded ctx g) := by
  subst hg
  unfold forwarded
  simp only
  repeat (first
    | exact Reach.refl
    | apply Reach.set _ _ _ (by simp [forwardedNames])
    | split)

theorem badFraming_reach {h h3 : HMap} (hb : badFraming h = some h3) :
    Reach [bs "Content-Length"] h h3 := by
  unfold badFraming at hb
  split at hb
  · cases hb; exact Reach.refl
  · simp only at hb
    split at hb
    · cases hb; exact Reach.refl
    · split at hb
      · cases hb; exact Reach.set _ _ Reach.refl (by simp)
      · exact absurd hb (by simp)

def fixedNames : List Bytes :=
  framingNames ++ hopByHopNames ++ forwardedNames ++ [bs "Content-Length"]

theorem fixedNames_not_via : ∀ n ∈ fixedNames, viaName ≠ canonicalKey n := by decide +kernel

theorem framingNames_not_connection : ∀ n ∈ framingNames, bs "Connection" ≠ canonicalKey n := by
  decide +kernel

/-- what reaches the Via modifier, in terms of the request as read -/
theorem preVia_ok {cfg : Cfg} {ctx : Ctx} {r : Request} {p : PreVia} (h : preVia cfg ctx r = .ok p) :
    ∃ g0, readRequest r = .ok g0 ∧ p.g.minor = r.minor ∧
      Reach (nominatedNames g0.header ++ fixedNames) (toHeader r.fields) p.h3 := by
  unfold preVia at h
  cases hr : readRequest r with
  | error e => rw [hr] at h; exact absurd h (by simp)
  | ok g0 =>
    rw [hr] at h
    simp only at h
    obtain ⟨hreach, hminor⟩ := readRequest_header hr
    refine ⟨g0, rfl, ?_⟩
    split at h
    · exact absurd h (by simp)
    · split at h
      · exact absurd h (by simp)
      · rename_i h3 hbf
        simp only [Except.ok.injEq] at h
        subst h
        refine ⟨hminor, ?_⟩
        have m1 : ∀ n ∈ framingNames, n ∈ nominatedNames g0.header ++ fixedNames := by
          intro n hn; simp [fixedNames, hn]
        have m2 : ∀ n ∈ nominatedNames g0.header ++ hopByHopNames, n ∈ nominatedNames g0.header ++ fixedNames := by
          intro n hn
          rcases List.mem_append.mp hn with hn | hn <;> simp [fixedNames, hn]
        have m3 : ∀ n ∈ forwardedNames, n ∈ nominatedNames g0.header ++ fixedNames := by
          intro n hn; simp [fixedNames, hn]
        have m4 : ∀ n ∈ [bs "Content-Length"], n ∈ nominatedNames g0.header ++ fixedNames := by
          intro n hn; simp only [List.mem_singleton] at hn; simp [fixedNames, hn]
        have a := (hreach.mono m1).trans ((removeHopByHop_reach g0.header).mono m2)
        have c := (badFraming_reach hbf).mono m4
        refine (a.trans ?_).trans c
        refine Reach.mono ?_ m3
        apply forwarded_reach
        rfl

theorem nominated_not_via {fs : List (Bytes × Bytes)} {g0 : GoReq}
    (hc : hget g0.header (bs "Connection") = hget (toHeader fs) (bs "Connection"))
    (hn : viaNominated fs = false) : ∀ n ∈ nominatedNames g0.header, viaName ≠ canonicalKey n := by
  intro n hmem hv
  unfold nominatedNames at hmem
  rw [hc] at hmem
  obtain ⟨vs, hvs, hmem⟩ := List.mem_flatMap.mp hmem
  obtain ⟨v, hv', rfl⟩ := List.mem_map.mp hmem
  rw [C16.canonicalKey_idem] at hv
  have : viaNominated fs = true := by
    unfold viaNominated
    rw [List.any_eq_true]
    refine ⟨vs, hvs, ?_⟩
    rw [List.any_eq_true]
    exact ⟨v, hv', by rw [← hv]; simp⟩
  rw [hn] at this
  exact absurd this (by simp)

/-- Unless a Connection option nominates it, the Via field reaches the Via modifier exactly as the
    client sent it: every field line, in order. -/
theorem preVia_via {cfg : Cfg} {ctx : Ctx} {r : Request} {p : PreVia}
    (h : preVia cfg ctx r = .ok p) (hn : viaNominated r.fields = false) :
    viaChainOf p.h3 = viaChain (viaLines r.fields) ∧ ViaInv p.h3 ∧ p.g.minor = r.minor := by
  obtain ⟨g0, hr, hminor, hreach⟩ := preVia_ok h
  have hc : hget g0.header (bs "Connection") = hget (toHeader r.fields) (bs "Connection") := by
    unfold hget
    rw [(readRequest_header hr).1.get_eq framingNames_not_connection]
  have hk : ∀ n ∈ nominatedNames g0.header ++ fixedNames, viaName ≠ canonicalKey n := by
    intro n hmem
    rcases List.mem_append.mp hmem with hm | hm
    · exact nominated_not_via hc hn n hm
    · exact fixedNames_not_via n hm
  refine ⟨?_, hreach.viaInv (toHeader_viaInv _), hminor⟩
  rw [← hget_toHeader_via]
  show joinWith (bs ", ") (hget p.h3 viaName) = joinWith (bs ", ") (hget (toHeader r.fields) viaName)
  unfold hget
  rw [hreach.get_eq hk]

end C18
end FwdVerif
