/- helper lemmas for C12 §13 (the certificate generator) -/
import FwdVerif.Model.C12Cert

namespace FwdVerif
namespace C12

/-- the invariant of the generator's state: unlocked, and no refused name in the cache -/
def CertState.Ok (s : CertState) : Prop := s.locked = false ∧ ∀ c ∈ s.cache, certRefused c = false

theorem certState_ok_init : CertState.Ok {} := by
  refine ⟨rfl, ?_⟩
  intro c hc
  cases hc

theorem certGen_ok (s : CertState) (n : Bytes) (h : s.Ok) : (certGen s n).1.Ok := by
  obtain ⟨hl, hc⟩ := h
  unfold certGen certGenV
  by_cases h1 : s.cache.contains (certHost n) = true
  · simp only [h1, if_true]; exact ⟨hl, hc⟩
  · by_cases h3 : certRefused (certHost n) = true
    · have h1' : s.cache.contains (certHost n) = false := by simpa using h1
      simp only [h1', hl, h3, Bool.false_eq_true, if_false, if_true]; exact ⟨hl, hc⟩
    · have h1' : s.cache.contains (certHost n) = false := by simpa using h1
      have h3' : certRefused (certHost n) = false := by simpa using h3
      simp only [h1', hl, h3', Bool.false_eq_true, if_false]
      refine ⟨rfl, ?_⟩
      intro c hcm
      rcases List.mem_cons.mp hcm with rfl | hcm
      · exact h3'
      · exact hc c hcm

theorem certRun_ok (names : List Bytes) : ∀ s : CertState, s.Ok → (certRun s names).1.Ok := by
  induction names with
  | nil => intro s h; exact h
  | cons n rest ih =>
    intro s h
    exact ih _ (certGen_ok s n h)

theorem certRun_append (v : CertVariant) (a b : List Bytes) : ∀ s : CertState,
    certRunV v s (a ++ b) = ((certRunV v (certRunV v s a).1 b).1, (certRunV v s a).2 ++ (certRunV v (certRunV v s a).1 b).2) := by
  induction a with
  | nil => intro s; rfl
  | cons n rest ih =>
    intro s
    simp only [List.cons_append, certRunV, ih]

/-- a refused name in a state that satisfies the invariant: this call fails, nothing changes -/
theorem certGen_refused (s : CertState) (n : Bytes) (h : s.Ok) (hr : certRefused (certHost n) = true) :
    certGen s n = (s, .refused) := by
  obtain ⟨hl, hc⟩ := h
  have h1 : s.cache.contains (certHost n) = false := by
    cases hcn : s.cache.contains (certHost n) with
    | false => rfl
    | true =>
      have hm : certHost n ∈ s.cache := by simpa using hcn
      have := hc _ hm
      rw [hr] at this
      cases this
  unfold certGen certGenV
  simp only [h1, hl, hr, Bool.false_eq_true, if_false, if_true]

/-- a locked generator with nothing in its cache answers nobody -/
theorem certRun_locked_blocks (v : CertVariant) (names : List Bytes) :
    certRunV v { locked := true, cache := [] } names = ({ locked := true, cache := [] }, names.map fun _ => .blocked) := by
  induction names with
  | nil => rfl
  | cons n rest ih =>
    have h : certGenV v { locked := true, cache := [] } n = ({ locked := true, cache := [] }, .blocked) := by
      simp [certGenV]
    simp only [certRunV, h, ih, List.map_cons]

end C12
end FwdVerif
