/-
  C13 — helper lemmas for the close machine over a wrapped `Close` that returns anything: with the
  `sync.Once` guard the machine with results projects onto the plain one (the results play no part),
  for single connections and for listeners; byte counters under partial I/O.
-/
import FwdVerif.Lemmas.C13

namespace FwdVerif
namespace C13

/-! ## One connection -/

theorem rfires_once (s : RCloseSt) (j : Nat) : s.fires .once j = s.base.fires true j := by
  simp [RCloseSt.fires, CloseSt.fires]

/-- with the `once` guard a step of the machine with results is a step of the plain machine -/
theorem rstep_once_base (res : Nat → CloseResult) (s : RCloseSt) (j : Nat) :
    (s.step .once res j).base = s.base.step true j := by
  unfold RCloseSt.step CloseSt.step
  by_cases hj : j < s.base.n
  · simp only [hj, if_true]
    cases hp : s.base.pcs j with
    | start => rfl
    | closed =>
      simp only [rfires_once]
      by_cases hf : s.base.fires true j = true
      · simp [hf]
      · have : s.base.fires true j = false := by simpa using hf
        simp [this]
    | done => rfl
  · simp only [hj, if_false]

theorem rrun_once_base (res : Nat → CloseResult) (s : RCloseSt) (sched : List Nat) :
    (s.run .once res sched).base = s.base.run true sched := by
  induction sched generalizing s with
  | nil => rfl
  | cons j t ih =>
    show ((s.step .once res j).run .once res t).base = (s.base.step true j).run true t
    rw [ih, rstep_once_base]

theorem rinit_base (n : Nat) : (RCloseSt.init n).base = CloseSt.init n := rfl

/-! ## Listener -/

theorem rmodifyAt_map (F : RConn → RConn) (f : CloseSt → CloseSt)
    (h : ∀ c, (F c).st.base = f c.st.base) (cs : List RConn) (i : Nat) :
    (rmodifyAt F cs i).map (fun c => c.st.base) = modifyAt f (cs.map fun c => c.st.base) i := by
  induction cs generalizing i with
  | nil => rfl
  | cons a t ih =>
    cases i with
    | zero => simp [rmodifyAt, modifyAt, h]
    | succ k => simp [rmodifyAt, modifyAt, ih]

/-- with the `once` guard a listener step over connections of any kind is the plain listener step -/
theorem rlstep_once_proj (s : RLSt) (op : ROp) : (s.step .once op).proj = s.proj.step true op.proj := by
  cases op with
  | accept n res => simp [RLSt.step, RLSt.proj, LSt.step, ROp.proj, rinit_base]
  | acceptError => rfl
  | close i j =>
    simp only [RLSt.step, LSt.step, ROp.proj]
    have hget : s.proj.conns[i]? = (s.conns[i]?).map fun c => c.st.base := by
      simp [RLSt.proj]
    rw [hget]
    cases hc : s.conns[i]? with
    | none => rfl
    | some c =>
      simp only [Option.map_some, RLSt.proj, rfires_once]
      congr 1
      exact rmodifyAt_map _ (fun c => c.step true j) (fun c => rstep_once_base c.res c.st j) s.conns i

theorem rlrun_once_proj (s : RLSt) (ops : List ROp) :
    (s.run .once ops).proj = s.proj.run true (ops.map ROp.proj) := by
  induction ops generalizing s with
  | nil => rfl
  | cons op t ih =>
    show ((s.step .once op).run .once t).proj = (s.proj.step true op.proj).run true (t.map ROp.proj)
    rw [ih, rlstep_once_proj]

theorem rlinit_proj : RLSt.init.proj = LSt.init := rfl

theorem rl_closedCount_proj (s : RLSt) : s.proj.closedCount = s.closedCount := by
  simp [RLSt.proj, LSt.closedCount, RLSt.closedCount, List.map_map, Function.comp_def]

theorem rl_allGone_proj (s : RLSt) : s.proj.allGone = s.allGone := by
  simp [RLSt.proj, LSt.allGone, RLSt.allGone, List.all_map, Function.comp_def]

/-! ## Byte counters, the early-return variant -/

theorem observer_apply_io (o : Observer) (k : IoKind) (requested done : Nat) (err : Bool) :
    o.apply (.io k requested done err)
      = match k with
        | .read => { o with rx := o.rx + done }
        | .write => { o with tx := o.tx + done }
        | .readFrom => { o with tx := o.tx + done } := by
  cases k <;> rfl

end C13
end FwdVerif
