/-
  C08 helper lemmas, part 13: the connection automaton over operation sequences (Model/C08Seq.lean).
-/
import FwdVerif.Model.C08Seq

namespace FwdVerif
namespace C08

theorem enter_of_failed (v : Variant) (t : Nat) (c : SConn) (e : SeqErr) (h : c.phase = .failed e) :
    c.enter v t = (c, .failed e) := by
  unfold SConn.enter; rw [h]

theorem enter_of_ok (v : Variant) (t : Nat) (c : SConn) (hd : Header) (r : Bytes) (h : c.phase = .ok hd r) :
    c.enter v t = (c, .ok hd) := by
  unfold SConn.enter; rw [h]

/-- what `enter` (the code) leaves behind, by its answer -/
theorem enter_latch_spec (t : Nat) (c : SConn) :
    (∀ e, (c.enter .latch t).2 = .failed e → (c.enter .latch t).1.phase = .failed e) ∧
    (∀ h, (c.enter .latch t).2 = .ok h → ∃ rest, (c.enter .latch t).1.phase = .ok h rest) ∧
    ((c.enter .latch t).2 = .blocked → (c.enter .latch t).1 = c) ∧
    ((c.enter .latch t).1.fin = c.fin) ∧ ((c.enter .latch t).1.later = c.later) := by
  unfold SConn.enter
  cases hp : c.phase with
  | ok h r => simp [hp]
  | failed e => simp [hp]
  | pending wire =>
    simp only []
    by_cases hs : c.sockClosed = true
    · simp [hs, failWith]
    · simp only [hs, Bool.false_eq_true, if_false]
      by_cases hd : c.dl = .expired
      · simp [hd, failWith]
      · simp only [hd, if_false]
        cases hr : readHeader wire with
        | ok p => obtain ⟨h, rest⟩ := p; simp
        | panic => simp [failWith]
        | err e =>
          simp only []
          by_cases hst : e.cls = .short ∧ c.fin = false
          · simp only [hst, and_self, if_true]
            cases hc : cutBy t c.dl with
            | none => simp [hp, hst.2]
            | some b => simp [failWith, hst.2]
          · simp [hst, failWith]

/-- one call on a connection whose header phase has failed -/
theorem step_of_failed (t : Nat) (c : SConn) (e : SeqErr) (h : c.phase = .failed e) (op : SOp) :
    (c.step .latch t op).1.phase = .failed e ∧ FailAnswer e op (c.step .latch t op).2 ∧
    (c.step .latch t op).1.parses = c.parses := by
  cases op <;> simp [SConn.step, enter_of_failed .latch t c e h, h, FailAnswer]

theorem run_of_failed (t : Nat) (e : SeqErr) : ∀ (ops : List SOp) (c : SConn), c.phase = .failed e →
    FailAnswers e ops (SConn.run .latch t c ops).2 ∧ (SConn.run .latch t c ops).1.phase = .failed e ∧
    (SConn.run .latch t c ops).1.parses = c.parses ∧ sdataOf (SConn.run .latch t c ops).2 = [] := by
  intro ops
  induction ops with
  | nil => intro c h; exact ⟨FailAnswers.nil, h, rfl, rfl⟩
  | cons op ops ih =>
    intro c h
    obtain ⟨s1, s2, s3⟩ := step_of_failed t c e h op
    obtain ⟨i1, i2, i3, i4⟩ := ih (c.step .latch t op).1 s1
    unfold SConn.run
    refine ⟨FailAnswers.cons s2 i1, i2, by rw [i3, s3], ?_⟩
    have hnd : ∀ d, (c.step .latch t op).2 ≠ .data d := by
      intro d hd
      cases op <;> simp [FailAnswer, hd] at s2
    cases ho : (c.step .latch t op).2 with
    | data d => exact absurd ho (hnd d)
    | _ => simp only [sdataOf]; exact i4

/-- one call on a connection whose header has been accepted -/
theorem step_of_ok (v : Variant) (t : Nat) (c : SConn) (hd : Header) (r : Bytes) (h : c.phase = .ok hd r) (op : SOp) :
    (∃ r', (c.step v t op).1.phase = .ok hd r') ∧ OkAnswer hd op (c.step v t op).2 ∧
    (c.step v t op).1.parses = c.parses ∧
    sdataOf [(c.step v t op).2] ++ (c.step v t op).1.avail = c.avail := by
  cases op with
  | more => simp [SConn.step, h, OkAnswer, sdataOf, SConn.avail]
  | setDeadline ms => simp [SConn.step, h, OkAnswer, sdataOf, SConn.avail]
  | close => simp [SConn.step, h, OkAnswer, sdataOf, SConn.avail]
  | remoteAddr => simp [SConn.step, enter_of_ok v t c hd r h, h, OkAnswer, sdataOf, SConn.avail]
  | localAddr => simp [SConn.step, enter_of_ok v t c hd r h, h, OkAnswer, sdataOf, SConn.avail]
  | header => simp [SConn.step, enter_of_ok v t c hd r h, h, OkAnswer, sdataOf, SConn.avail]
  | write =>
    simp only [SConn.step, enter_of_ok v t c hd r h]
    by_cases hs : c.sockClosed = true <;> simp [hs, h, OkAnswer, sdataOf, SConn.avail]
  | read k =>
    simp only [SConn.step, enter_of_ok v t c hd r h, h, sockRead]
    by_cases hs : c.sockClosed = true
    · simp [hs, h, OkAnswer, sdataOf, SConn.avail]
    · simp only [hs, Bool.false_eq_true, if_false]
      by_cases hdl : c.dl = .expired
      · simp [hdl, h, OkAnswer, sdataOf, SConn.avail]
      · simp only [hdl, if_false]
        by_cases hr : r = []
        · simp only [hr, if_true]
          by_cases hf : c.fin = true
          · simp [hf, h, hr, OkAnswer, sdataOf, SConn.avail]
          · simp only [hf, Bool.false_eq_true, if_false]
            cases hd2 : c.dl with
            | armed ms => simp [h, hr, OkAnswer, sdataOf, SConn.avail]
            | off => simp [h, hr, OkAnswer, sdataOf, SConn.avail]
            | expired => exact absurd hd2 hdl
        · simp [hr, h, OkAnswer, sdataOf, SConn.avail, ← List.append_assoc, List.take_append_drop]

theorem sdataOf_cons (o : SOut) (os : List SOut) : sdataOf (o :: os) = sdataOf [o] ++ sdataOf os := by
  cases o <;> simp [sdataOf]

theorem run_of_ok (v : Variant) (t : Nat) (hd : Header) : ∀ (ops : List SOp) (c : SConn) (r : Bytes), c.phase = .ok hd r →
    OkAnswers hd ops (SConn.run v t c ops).2 ∧ (∃ r', (SConn.run v t c ops).1.phase = .ok hd r') ∧
    (SConn.run v t c ops).1.parses = c.parses ∧
    sdataOf (SConn.run v t c ops).2 ++ (SConn.run v t c ops).1.avail = c.avail := by
  intro ops
  induction ops with
  | nil => intro c r h; exact ⟨OkAnswers.nil, ⟨r, h⟩, rfl, by simp [SConn.run, sdataOf]⟩
  | cons op ops ih =>
    intro c r h
    obtain ⟨⟨r', s1⟩, s2, s3, s4⟩ := step_of_ok v t c hd r h op
    obtain ⟨i1, i2, i3, i4⟩ := ih (c.step v t op).1 r' s1
    unfold SConn.run
    refine ⟨OkAnswers.cons s2 i1, i2, by rw [i3, s3], ?_⟩
    dsimp only
    rw [sdataOf_cons, List.append_assoc, i4, s4]

/-- the timeout setting enters `enter` only through a stalled header read -/
theorem enter_timeout_indep (v : Variant) (t1 t2 : Nat) (c : SConn) (h : c.stalled = false) :
    c.enter v t1 = c.enter v t2 := by
  unfold SConn.enter
  cases hp : c.phase with
  | ok hd r => rfl
  | failed e => rfl
  | pending wire =>
    simp only []
    by_cases hs : c.sockClosed = true
    · simp [hs]
    · simp only [hs, Bool.false_eq_true, if_false]
      by_cases hd : c.dl = .expired
      · simp [hd]
      · simp only [hd, if_false]
        cases hr : readHeader wire with
        | ok p => rfl
        | panic => rfl
        | err e =>
          simp only []
          have : ¬ (e.cls = .short ∧ c.fin = false) := by
            intro ⟨h1, h2⟩
            simp [SConn.stalled, hp, hs, hd, h2, hr, h1] at h
          simp [this]

theorem step_timeout_indep (v : Variant) (t1 t2 : Nat) (c : SConn) (h : c.stalled = false) (op : SOp) :
    c.step v t1 op = c.step v t2 op := by
  cases op <;> simp [SConn.step, enter_timeout_indep v t1 t2 c h]

/-- a connection whose peer has closed its write side never stalls, whatever is done with it -/
theorem stalled_of_fin (c : SConn) (h : c.fin = true) : c.stalled = false := by
  unfold SConn.stalled
  cases c.phase <;> simp [h]

theorem enter_fin (v : Variant) (t : Nat) (c : SConn) : (c.enter v t).1.fin = c.fin := by
  unfold SConn.enter
  cases hp : c.phase with
  | ok hd r => rfl
  | failed e => rfl
  | pending wire =>
    simp only []
    by_cases hs : c.sockClosed = true
    · cases v <;> simp [hs, failWith]
    · simp only [hs, Bool.false_eq_true, if_false]
      by_cases hd : c.dl = .expired
      · cases v <;> simp [hd, failWith]
      · simp only [hd, if_false]
        cases hr : readHeader wire with
        | ok p => rfl
        | panic => cases v <;> simp [failWith]
        | err e =>
          simp only []
          by_cases hst : e.cls = .short ∧ c.fin = false
          · simp only [hst, and_self, if_true]
            cases hc : cutBy t c.dl with
            | none => simp [hst.2]
            | some b => cases v <;> simp [failWith, hst.2]
          · cases v <;> simp [hst, failWith]

theorem step_fin (v : Variant) (t : Nat) (c : SConn) (h : c.fin = true) (op : SOp) : (c.step v t op).1.fin = true := by
  have he := enter_fin v t c
  cases op with
  | more => simp [SConn.step]
  | setDeadline ms => simp [SConn.step, h]
  | close => simp [SConn.step, h]
  | remoteAddr =>
    simp only [SConn.step]
    cases hx : c.enter v t with
    | mk c' r => rw [hx] at he; cases r <;> simp_all
  | localAddr =>
    simp only [SConn.step]
    cases hx : c.enter v t with
    | mk c' r => rw [hx] at he; cases r <;> simp_all
  | header =>
    simp only [SConn.step]
    cases hx : c.enter v t with
    | mk c' r => rw [hx] at he; cases r <;> simp_all
  | write =>
    simp only [SConn.step]
    cases hx : c.enter v t with
    | mk c' r =>
      rw [hx] at he
      cases r with
      | ok hd => by_cases hs : c'.sockClosed = true <;> simp_all
      | failed e => simp_all
      | blocked => simp_all
  | read k =>
    simp only [SConn.step]
    cases hx : c.enter v t with
    | mk c' r =>
      rw [hx] at he
      cases r with
      | failed e => simp_all
      | blocked => simp_all
      | ok hd =>
        simp only []
        cases hp : c'.phase with
        | pending w => simp_all
        | failed e => simp_all
        | ok h2 rest =>
          simp only [sockRead]
          have hf : c'.fin = true := by simp_all
          by_cases hs : c'.sockClosed = true
          · simp [hs, hf]
          · simp only [hs, Bool.false_eq_true, if_false]
            by_cases hd : c'.dl = .expired
            · simp [hd, hf]
            · simp only [hd, if_false]
              by_cases hr : rest = [] <;> simp [hr, hf]

theorem run_timeout_indep (v : Variant) (t1 t2 : Nat) : ∀ (ops : List SOp) (c : SConn), c.fin = true →
    SConn.run v t1 c ops = SConn.run v t2 c ops := by
  intro ops
  induction ops with
  | nil => intro c _; rfl
  | cons op ops ih =>
    intro c h
    unfold SConn.run
    dsimp only
    rw [step_timeout_indep v t1 t2 c (stalled_of_fin c h) op, ih _ (step_fin v t2 c h op)]

end C08
end FwdVerif
