/-
  C18 — helper lemmas, part b: header maps under sequences of `Set`/`Del` calls (`Reach`), the
  invariant `ViaInv`, `toHeader`, and what `readRequest` does to the header map.  Core Lean only.
-/
import FwdVerif.Lemmas.C18a

namespace FwdVerif
namespace C18
open Ascii Req
open C16 (HMap goDel goSet goAdd Rule applyRules prefixFold NodupKeys)

/-! ## §6 header maps: what a sequence of `Set`/`Del` calls leaves alone -/

theorem viaName_eq : viaName = [86, 105, 97] := by decide +kernel
theorem viaName_canon : canonicalKey viaName = viaName := by decide +kernel
theorem viaName_token : viaName.all isTokenByte = true := by decide +kernel

theorem lookup_erase_ne (h : HMap) {c k : Bytes} (hne : k ≠ c) :
    (HMap.erase h c).lookup k = h.lookup k := by
  induction h with
  | nil => rfl
  | cons e h ih =>
    obtain ⟨k', ws⟩ := e
    by_cases hk : k' = c
    · subst hk
      rw [C16.erase_cons_eq h rfl, ih, List.lookup_cons]
      have : (k == k') = false := by simpa using hne
      rw [this]
    · rw [C16.erase_cons_ne h hk, List.lookup_cons, List.lookup_cons, ih]

theorem lookup_erase_self (h : HMap) (c : Bytes) : (HMap.erase h c).lookup c = none := by
  induction h with
  | nil => rfl
  | cons e h ih =>
    obtain ⟨k', ws⟩ := e
    by_cases hk : k' = c
    · rw [C16.erase_cons_eq h hk, ih]
    · rw [C16.erase_cons_ne h hk, List.lookup_cons]
      have : (c == k') = false := by simpa using (fun h' : c = k' => hk h'.symm)
      rw [this, ih]

theorem get_goSet_ne (h : HMap) (n v : Bytes) {k : Bytes} (hne : k ≠ canonicalKey n) :
    HMap.get (goSet h n v) k = HMap.get h k := C16.lookup_put_ne h _ hne

theorem get_goSet_self (h : HMap) (n v : Bytes) :
    HMap.get (goSet h n v) (canonicalKey n) = some [v] := C16.lookup_put_self h _ _

theorem get_goDel_ne (h : HMap) (n : Bytes) {k : Bytes} (hne : k ≠ canonicalKey n) :
    HMap.get (goDel h n) k = HMap.get h k := lookup_erase_ne h hne

theorem get_goAdd_ne (h : HMap) (n v : Bytes) {k : Bytes} (hne : k ≠ canonicalKey n) :
    HMap.get (goAdd h n v) k = HMap.get h k := C16.lookup_put_ne h _ hne

/-- `h` is obtained from `h0` by `Set`/`Del` calls on names in `S` only -/
inductive Reach (S : List Bytes) (h0 : HMap) : HMap → Prop where
  | refl : Reach S h0 h0
  | set {h : HMap} (n v : Bytes) : Reach S h0 h → n ∈ S → Reach S h0 (goSet h n v)
  | del {h : HMap} (n : Bytes) : Reach S h0 h → n ∈ S → Reach S h0 (goDel h n)

theorem Reach.mono {S T : List Bytes} {h0 h : HMap} (hr : Reach S h0 h) (hs : ∀ n ∈ S, n ∈ T) :
    Reach T h0 h := by
  induction hr with
  | refl => exact Reach.refl
  | set n v _ hn ih => exact Reach.set n v ih (hs n hn)
  | del n _ hn ih => exact Reach.del n ih (hs n hn)

theorem Reach.trans {S : List Bytes} {h0 h1 h2 : HMap} (a : Reach S h0 h1) (b : Reach S h1 h2) :
    Reach S h0 h2 := by
  induction b with
  | refl => exact a
  | set n v _ hn ih => exact Reach.set n v ih hn
  | del n _ hn ih => exact Reach.del n ih hn

/-- a key that none of the touched names canonicalises to keeps its values -/
theorem Reach.get_eq {S : List Bytes} {h0 h : HMap} (hr : Reach S h0 h) {k : Bytes}
    (hk : ∀ n ∈ S, k ≠ canonicalKey n) : HMap.get h k = HMap.get h0 k := by
  induction hr with
  | refl => rfl
  | set n v _ hn ih => rw [get_goSet_ne _ _ _ (hk n hn), ih]
  | del n _ hn ih => rw [get_goDel_ne _ _ (hk n hn), ih]

/-- unique keys, and the only key spelt like `via` (any case) is the canonical `Via` -/
def ViaInv (h : HMap) : Prop :=
  NodupKeys h ∧ ∀ e ∈ h, lower e.1 = lower viaName → e.1 = viaName

theorem canonicalKey_via_of_lower {n : Bytes} (h : lower n = lower viaName) :
    canonicalKey n = viaName := by
  rw [C16.canonicalKey_congr viaName_token h, viaName_canon]

theorem ViaInv.nil : ViaInv [] := ⟨List.nodup_nil, fun _ he => absurd he (by simp)⟩

theorem ViaInv.put {h : HMap} (hv : ViaInv h) (c : Bytes) (vs : List Bytes)
    (hc : lower c = lower viaName → c = viaName) : ViaInv (HMap.put h c vs) := by
  refine ⟨C16.NodupKeys.put c vs hv.1, ?_⟩
  intro e he hl
  rcases C16.mem_put he with he | rfl
  · exact hv.2 e he hl
  · exact hc hl

theorem ViaInv.sublist {h h' : HMap} (hs : h'.Sublist h) (hv : ViaInv h) : ViaInv h' :=
  ⟨C16.NodupKeys.sublist hs hv.1, fun e he => hv.2 e (hs.subset he)⟩

theorem canon_via_ok (n : Bytes) : lower (canonicalKey n) = lower viaName → canonicalKey n = viaName := by
  intro h
  rw [C16.lower_canonicalKey] at h
  exact canonicalKey_via_of_lower h

theorem ViaInv.goSet {h : HMap} (hv : ViaInv h) (n v : Bytes) : ViaInv (goSet h n v) :=
  hv.put _ _ (canon_via_ok n)

theorem ViaInv.goAdd {h : HMap} (hv : ViaInv h) (n v : Bytes) : ViaInv (goAdd h n v) :=
  hv.put _ _ (canon_via_ok n)

theorem ViaInv.goDel {h : HMap} (hv : ViaInv h) (n : Bytes) : ViaInv (goDel h n) :=
  hv.sublist (C16.erase_sublist h _)

theorem Reach.viaInv {S : List Bytes} {h0 h : HMap} (hr : Reach S h0 h) (hv : ViaInv h0) :
    ViaInv h := by
  induction hr with
  | refl => exact hv
  | set n v _ _ ih => exact ih.goSet n v
  | del n _ _ ih => exact ih.goDel n

/-! ### `toHeader` -/

theorem foldl_goAdd_viaInv (fs : List (Bytes × Bytes)) (h : HMap) (hv : ViaInv h) :
    ViaInv (fs.foldl (fun h f => goAdd h f.1 f.2) h) := by
  induction fs generalizing h with
  | nil => exact hv
  | cons f fs ih => exact ih _ (hv.goAdd f.1 f.2)

theorem toHeader_viaInv (fs : List (Bytes × Bytes)) : ViaInv (toHeader fs) :=
  foldl_goAdd_viaInv fs [] ViaInv.nil

theorem hget_goAdd (h : HMap) (n v k : Bytes) :
    hget (goAdd h n v) k = if canonicalKey n == k then hget h k ++ [v] else hget h k := by
  unfold hget
  by_cases hk : canonicalKey n = k
  · subst hk
    simp only [beq_self_eq_true, if_true]
    show ((HMap.put h _ _).lookup _).getD [] = _
    rw [C16.lookup_put_self]
    rfl
  · have : (canonicalKey n == k) = false := by simpa using hk
    rw [this, get_goAdd_ne h n v (fun h' => hk h'.symm)]
    rfl

theorem hget_foldl_goAdd (fs : List (Bytes × Bytes)) (h : HMap) (k : Bytes) :
    hget (fs.foldl (fun h f => goAdd h f.1 f.2) h) k =
      hget h k ++ (fs.filter fun f => canonicalKey f.1 == k).map (·.2) := by
  induction fs generalizing h with
  | nil => simp
  | cons f fs ih =>
    rw [List.foldl_cons, ih, hget_goAdd, List.filter_cons]
    by_cases hk : (canonicalKey f.1 == k) = true
    · simp [hk]
    · simp [hk]

/-- the values `net/http` stores under a canonical key = the field lines of that name, in order -/
theorem hget_toHeader (fs : List (Bytes × Bytes)) (k : Bytes) :
    hget (toHeader fs) k = (fs.filter fun f => canonicalKey f.1 == k).map (·.2) := by
  unfold toHeader
  rw [hget_foldl_goAdd]
  rfl

theorem canon_eq_via_iff (n : Bytes) : (canonicalKey n == viaName) = eqFold n viaName := by
  unfold eqFold
  by_cases h : lower n = lower viaName
  · have h1 := canonicalKey_via_of_lower h
    simp [h, h1]
  · have h1 : canonicalKey n ≠ viaName := by
      intro hc
      apply h
      rw [← hc, C16.lower_canonicalKey]
    have e1 : (canonicalKey n == viaName) = false := by simpa using h1
    have e2 : (lower n == lower viaName) = false := by simpa using h
    rw [e1, e2]

theorem hget_toHeader_via (fs : List (Bytes × Bytes)) : hget (toHeader fs) viaName = viaLines fs := by
  rw [hget_toHeader, viaLines]
  congr 1
  apply List.filter_congr
  intro f _
  exact canon_eq_via_iff f.1

theorem goGet_toHeader_via (fs : List (Bytes × Bytes)) :
    goGet (toHeader fs) viaName = firstVia fs := by
  unfold goGet firstVia
  rw [viaName_canon, hget_toHeader_via]


/-! ### `readRequest` -/

def framingNames : List Bytes := [bs "Cache-Control", bs "Transfer-Encoding", bs "Content-Length", bs "Trailer"]

theorem ite_throw_ok {α β : Type} {p : Prop} [Decidable p] {e : ReadErr} {f : β → Except ReadErr α}
    {k : Except ReadErr α} {g : α}
    (h : (if p then (throw e >>= f) else k) = .ok g) : k = .ok g := by
  split at h
  · exact absurd h (by simp [bind, Except.bind, throw, throwThe, MonadExceptOf.throw])
  · exact h

theorem readRequest_header {r : Request} {g : GoReq} (h : readRequest r = .ok g) :
    Reach framingNames (toHeader r.fields) g.header ∧ g.minor = r.minor := by
  unfold readRequest at h
  extract_lets h0 h1 conn hasClose close te h2 cls jp1 jp2 at h
  have r1 : Reach framingNames h0 h1 := by
    show Reach framingNames h0 (match hget h0 (bs "Pragma") with
      | p :: _ => if p == bs "no-cache" && (HMap.get h0 (bs "Cache-Control")).isNone
                  then goSet h0 (bs "Cache-Control") (bs "no-cache") else h0
      | [] => h0)
    split
    · split
      · exact Reach.set _ _ Reach.refl (by simp [framingNames])
      · exact Reach.refl
    · exact Reach.refl
  have r2 : Reach framingNames h0 h2 := Reach.del _ r1 (by simp [framingNames])
  have hcls : cls = hget h2 (bs "Content-Length") := rfl
  clear_value cls te h2 close hasClose conn h1
  split at h
  · exact absurd h (by simp [bind, Except.bind, throw, throwThe, MonadExceptOf.throw])
  simp -zeta only [jp2] at h
  split at h
  · exact absurd h (by simp [bind, Except.bind, throw, throwThe, MonadExceptOf.throw])
  simp -zeta only [jp1] at h
  extract_lets host jpC at h
  have hC : ∃ c, jpC c = .ok g := by
    split at h
    · exact ⟨false, h⟩
    · split at h
      · exact ⟨false, h⟩
      · split at h
        · split at h
          · exact ⟨true, h⟩
          · exact absurd h (by simp [bind, Except.bind, throw, throwThe, MonadExceptOf.throw])
        · exact absurd h (by simp [bind, Except.bind, throw, throwThe, MonadExceptOf.throw])
  clear h
  obtain ⟨c, h⟩ := hC
  simp -zeta only [jpC] at h
  extract_lets jpL at h
  have hL : ∃ x : HMap × List Bytes, Reach framingNames h0 x.1 ∧ jpL x = .ok g := by
    split at h
    · exact ⟨(h2, []), r2, h⟩
    · rename_i x
      exact ⟨(h2, [x]), r2, h⟩
    · rename_i c' rest hne
      split at h
      · exact ⟨(goSet (goDel h2 (bs "Content-Length")) (bs "Content-Length") (trimOWS c'), [trimOWS c']),
          Reach.set _ _ (Reach.del _ r2 (by simp [framingNames])) (by simp [framingNames]), h⟩
      · exact absurd h (by simp [bind, Except.bind, throw, throwThe, MonadExceptOf.throw])
  clear h
  obtain ⟨⟨h3, cls'⟩, r3, h⟩ := hL
  simp -zeta only [jpL] at h
  extract_lets jpN at h
  have hN : ∃ n, jpN n = .ok g := by
    split at h
    · exact ⟨0, h⟩
    · split at h
      · rename_i n _
        exact ⟨n, h⟩
      · exact absurd h (by simp [bind, Except.bind, throw, throwThe, MonadExceptOf.throw])
  clear h
  obtain ⟨n, h⟩ := hN
  simp -zeta only [jpN] at h
  extract_lets jpF at h
  have h := ite_throw_ok h
  simp -zeta only [jpF, pure, Except.pure, Except.ok.injEq] at h
  subst h
  refine ⟨?_, rfl⟩
  simp only
  repeat' split
  all_goals first
    | exact r3
    | exact Reach.del _ r3 (by simp [framingNames])
    | exact Reach.del _ (Reach.del _ r3 (by simp [framingNames])) (by simp [framingNames])

end C18
end FwdVerif
