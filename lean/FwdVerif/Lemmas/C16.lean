/-
  C16 — helper lemmas for `FwdVerif/Theorems/C16.lean` (core Lean only).

  §1 ASCII: case folding and `canonicalKey`.
  §2 Parser: closed forms of the two backtracking regular-expression matchers and what
     `parseRaw`/`parseRule` return in each branch.
  §3 Header maps: `put`/`erase`/`lookup` on maps with unique canonical keys and their image
     on the case-insensitive field-line view.
-/
import FwdVerif.Model.C16

namespace FwdVerif
namespace C16

open Ascii

/-! ## §1 ASCII -/

/-- one step of `canonLoop` -/
def caseStep (up : Bool) (c : UInt8) : UInt8 :=
  if up && isLower c then c - 32 else if !up && isUpper c then c + 32 else c

theorem canonLoop_cons (up : Bool) (c : UInt8) (cs : Bytes) :
    canonLoop up (c :: cs) = caseStep up c :: canonLoop (caseStep up c == 45) cs := rfl

theorem toLower_caseStep (up : Bool) (c : UInt8) : toLower (caseStep up c) = toLower c := by
  cases up <;> simp only [caseStep, toLower, isUpper, isLower] <;> grind

theorem caseStep_toLower (up : Bool) (c : UInt8) : caseStep up (toLower c) = caseStep up c := by
  cases up <;> simp only [caseStep, toLower, isUpper, isLower] <;> grind

theorem isTokenByte_toLower (c : UInt8) : isTokenByte (toLower c) = isTokenByte c := by
  simp only [isTokenByte, isAlpha, isDigit, toLower, isUpper, isLower]
  grind

theorem isTokenByte_of_isNameByte (c : UInt8) (h : isNameByte c = true) :
    isTokenByte c = true := by
  simp only [isNameByte, isTokenByte] at *
  grind

theorem lower_nil : lower [] = [] := rfl
theorem lower_cons (c : UInt8) (cs : Bytes) : lower (c :: cs) = toLower c :: lower cs := rfl

theorem lower_canonLoop (up : Bool) (s : Bytes) : lower (canonLoop up s) = lower s := by
  induction s generalizing up with
  | nil => rfl
  | cons c cs ih => rw [canonLoop_cons, lower_cons, lower_cons, toLower_caseStep, ih]

theorem canonLoop_lower (up : Bool) (s : Bytes) : canonLoop up (lower s) = canonLoop up s := by
  induction s generalizing up with
  | nil => rfl
  | cons c cs ih => rw [lower_cons, canonLoop_cons, canonLoop_cons, caseStep_toLower, ih]

theorem all_token_lower (s : Bytes) : (lower s).all isTokenByte = s.all isTokenByte := by
  induction s with
  | nil => rfl
  | cons c cs ih => simp only [lower_cons, List.all_cons, isTokenByte_toLower, ih]

/-- `CanonicalMIMEHeaderKey` never changes a name up to ASCII case. -/
theorem lower_canonicalKey (s : Bytes) : lower (canonicalKey s) = lower s := by
  unfold canonicalKey
  split
  · exact lower_canonLoop true s
  · rfl

theorem all_token_canonicalKey (s : Bytes) :
    (canonicalKey s).all isTokenByte = s.all isTokenByte := by
  rw [← all_token_lower, lower_canonicalKey, all_token_lower]

/-- `CanonicalMIMEHeaderKey` depends on a token name only up to ASCII case. -/
theorem canonicalKey_congr {a b : Bytes} (hb : b.all isTokenByte = true)
    (h : lower a = lower b) : canonicalKey a = canonicalKey b := by
  have ha : a.all isTokenByte = true := by rw [← all_token_lower, h, all_token_lower]; exact hb
  unfold canonicalKey
  rw [if_pos ha, if_pos hb, ← canonLoop_lower true a, h, canonLoop_lower]

theorem canonicalKey_idem (s : Bytes) : canonicalKey (canonicalKey s) = canonicalKey s := by
  by_cases hs : s.all isTokenByte = true
  · exact canonicalKey_congr hs (lower_canonicalKey s)
  · have : canonicalKey s = s := by unfold canonicalKey; rw [if_neg hs]
    rw [this, this]

/-- for a canonical key `k` and a token name `n`: `k` and `n` agree up to case iff `k` is the
    canonical spelling of `n`. -/
theorem lower_eq_iff_of_canon {k n : Bytes} (hk : canonicalKey k = k)
    (hn : n.all isTokenByte = true) : lower k = lower n ↔ k = canonicalKey n := by
  constructor
  · intro h
    rw [← hk]
    exact canonicalKey_congr hn h
  · intro h
    rw [h, lower_canonicalKey]

theorem all_token_of_validName {n : Bytes} (h : validName n = true) :
    n.all isTokenByte = true := by
  simp only [validName, Bool.and_eq_true, List.all_eq_true] at h
  simp only [List.all_eq_true]
  intro c hc
  exact isTokenByte_of_isNameByte c (h.2 c hc)

theorem ne_nil_of_validName {n : Bytes} (h : validName n = true) : n ≠ [] := by
  intro hn
  subst hn
  simp [validName] at h

theorem all_name_of_validName {n : Bytes} (h : validName n = true) :
    ∀ c ∈ n, isNameByte c = true := by
  simp only [validName, Bool.and_eq_true, List.all_eq_true] at h
  exact h.2

/-! ## §2 Parser -/

theorem findSome?_range_rev_succ {α : Type} (f : Nat → Option α) (n : Nat) :
    (List.range (n + 1)).reverse.findSome? f =
      match f n with
      | some b => some b
      | none => (List.range n).reverse.findSome? f := by
  rw [List.range_succ, List.reverse_append, List.reverse_singleton, List.singleton_append,
    List.findSome?_cons]
  cases f n <;> rfl

/-- a descending search whose failures propagate downwards is decided by its first candidate -/
theorem findSome?_range_rev_of_antitone {α : Type} (f : Nat → Option α) (n : Nat)
    (h : ∀ j, j < n → f (j + 1) = none → f j = none) :
    (List.range (n + 1)).reverse.findSome? f = f n := by
  induction n with
  | zero =>
    rw [findSome?_range_rev_succ]
    cases f 0 <;> rfl
  | succ n ih =>
    rw [findSome?_range_rev_succ]
    cases hfn : f (n + 1) with
    | some b => rfl
    | none =>
      show (List.range (n + 1)).reverse.findSome? f = none
      rw [ih (fun j hj => h j (by omega))]
      exact h n (by omega) hfn

theorem drop_takeWhile_length {α : Type} (p : α → Bool) (l : List α) :
    l.drop (l.takeWhile p).length = l.dropWhile p := by
  induction l with
  | nil => rfl
  | cons a l ih =>
    by_cases hp : p a = true
    · simp [hp, ih]
    · simp [hp]

theorem take_takeWhile_length {α : Type} (p : α → Bool) (l : List α) :
    l.take (l.takeWhile p).length = l.takeWhile p := by
  induction l with
  | nil => rfl
  | cons a l ih =>
    by_cases hp : p a = true
    · simp [hp, ih]
    · simp [hp]

theorem takeWhile_length_le {α : Type} (p : α → Bool) (l : List α) :
    (l.takeWhile p).length ≤ l.length := by
  induction l with
  | nil => simp
  | cons a l ih =>
    by_cases hp : p a = true
    · simp [hp, ih]
    · simp [hp]

theorem matchTail_cons_false {t : Bytes} (c : UInt8) (h : matchTail t = false) :
    matchTail (c :: t) = false := by
  rcases t with _ | ⟨a, _ | ⟨b, t⟩⟩ <;> simp_all [matchTail]

/-- closed form of `([^\r\n]*)\r?\n?$`: the greedy choice decides -/
theorem valueMatch_eq (r : Bytes) :
    valueMatch r =
      if matchTail (r.dropWhile isValueByte) then some (r.takeWhile isValueByte)
      else none := by
  unfold valueMatch
  simp only
  rw [findSome?_range_rev_of_antitone, drop_takeWhile_length, take_takeWhile_length]
  intro j hj hn
  have hlen := takeWhile_length_le isValueByte r
  have hjr : j < r.length := by omega
  rw [List.drop_eq_getElem_cons hjr]
  split at hn
  · simp at hn
  · rename_i hm
    simp only [Bool.not_eq_true] at hm
    rw [matchTail_cons_false _ hm]
    simp

theorem valueMatch_cons_none {t : Bytes} (c : UInt8) (h : valueMatch t = none) :
    valueMatch (c :: t) = none := by
  rw [valueMatch_eq] at h ⊢
  split at h
  · simp at h
  · rename_i hm
    simp only [Bool.not_eq_true] at hm
    by_cases hc : isValueByte c = true
    · simp [hc, hm]
    · have hc' : isValueByte c = false := by simpa using hc
      have : matchTail (c :: t) = false := by
        rcases t with _ | ⟨a, _ | ⟨b, t⟩⟩
        · simp [matchTail] at hm
        · by_cases ha : a = 10
          · subst ha; simp [matchTail, isValueByte] at hm
          · simp [matchTail, ha]
        · simp [matchTail]
      simp [hc', this]

/-- closed form of `\s*([^\r\n]*)\r?\n?$`: the greedy `\s*` never has to give anything back -/
theorem wsValueMatch_eq (rest : Bytes) :
    wsValueMatch rest = valueMatch (rest.dropWhile isSpaceRE) := by
  unfold wsValueMatch
  simp only
  rw [findSome?_range_rev_of_antitone, drop_takeWhile_length]
  intro j hj hn
  have hlen := takeWhile_length_le isSpaceRE rest
  rw [List.drop_eq_getElem_cons (by omega)]
  exact valueMatch_cons_none _ hn

theorem dropLast_append_of_getLast? {α : Type} {l : List α} {a : α} (h : l.getLast? = some a) :
    l.dropLast ++ [a] = l := by
  obtain ⟨ys, rfl⟩ := List.getLast?_eq_some_iff.mp h
  simp

theorem valueMatch_some {d val : Bytes} (h : valueMatch d = some val) :
    val = d.takeWhile isValueByte := by
  rw [valueMatch_eq] at h
  split at h
  · exact (Option.some.inj h).symm
  · simp at h

theorem valueMatch_of_value_bytes {val : Bytes} (hall : ∀ c ∈ val, isValueByte c = true) :
    valueMatch val = some val := by
  have h1 : val.takeWhile isValueByte = val := by
    have := List.takeWhile_append_of_pos (p := isValueByte) (l₁ := val) (l₂ := []) hall
    simpa using this
  have h2 : val.dropWhile isValueByte = [] := by
    have := drop_takeWhile_length isValueByte val
    rw [h1] at this
    simpa using this.symm
  rw [valueMatch_eq, h1, h2]
  rfl

theorem isValueByte_iff (c : UInt8) : isValueByte c = true ↔ c ≠ 13 ∧ c ≠ 10 := by
  simp [isValueByte]

/-- what a successful `lineMatch` looks like -/
theorem lineMatch_some {v n val : Bytes} (h : lineMatch v = some (n, val)) :
    n = v.takeWhile isNameByte ∧ n ≠ [] ∧
      ∃ rest, v = n ++ 58 :: rest ∧
        val = (rest.dropWhile isSpaceRE).takeWhile isValueByte := by
  unfold lineMatch at h
  simp only at h
  split at h
  · simp at h
  · rename_i hne
    split at h
    · rename_i rest hdrop
      rw [wsValueMatch_eq] at h
      simp only [Option.map_eq_some_iff, Prod.mk.injEq] at h
      obtain ⟨w, hw, hn, hval⟩ := h
      subst hval
      refine ⟨hn.symm, ?_, rest, ?_, valueMatch_some hw⟩
      · rw [← hn]; simpa using hne
      · have := List.take_append_drop (v.takeWhile isNameByte).length v
        rw [hdrop, take_takeWhile_length, hn] at this
        exact this.symm
    · simp at h

theorem mem_takeWhile {α : Type} {p : α → Bool} {l : List α} {a : α}
    (h : a ∈ l.takeWhile p) : a ∈ l ∧ p a = true := by
  induction l with
  | nil => simp at h
  | cons b l ih =>
    by_cases hp : p b = true
    · simp only [List.takeWhile_cons, hp, if_true, List.mem_cons] at h
      rcases h with h | h
      · subst h; exact ⟨List.mem_cons_self, hp⟩
      · exact ⟨List.mem_cons_of_mem _ (ih h).1, (ih h).2⟩
    · simp [hp] at h

theorem mem_of_mem_dropWhile {α : Type} {p : α → Bool} {l : List α} {a : α}
    (h : a ∈ l.dropWhile p) : a ∈ l := by
  rw [← drop_takeWhile_length] at h
  exact List.mem_of_mem_drop h

/-- `parseRaw` yields an add-rule only through the last branch -/
theorem parseRaw_add {v n val : Bytes} (h : parseRaw v = some (.add n val)) :
    v.head? ≠ some 45 ∧ v.head? ≠ some 37 ∧
      (v.getLast? == some 59 && validName v.dropLast) = false ∧
      lineMatch v = some (n, val) := by
  unfold parseRaw at h
  split at h
  · split at h <;> simp at h
  · split at h
    · simp at h
    · split at h
      · simp at h
      · rename_i h1 h2 h3
        refine ⟨by simpa using h1, by simpa using h2, by simpa using h3, ?_⟩
        simp only [Option.map_eq_some_iff, Rule.add.injEq] at h
        obtain ⟨⟨a, b⟩, hab, ha, hb⟩ := h
        simp only at ha hb
        subst ha; subst hb
        exact hab

/-- `parseRaw` yields a set-empty rule only through the third branch: the rule string is a valid
    name followed by `;` -/
theorem parseRaw_empty {v n : Bytes} (h : parseRaw v = some (.empty n)) :
    v = n ++ [59] ∧ validName n = true := by
  unfold parseRaw at h
  split at h
  · split at h <;> simp at h
  · split at h
    · simp at h
    · split at h
      · rename_i h3
        simp only [Bool.and_eq_true, beq_iff_eq] at h3
        have hr := Rule.empty.inj (Option.some.inj h)
        subst hr
        exact ⟨(dropLast_append_of_getLast? h3.1).symm, h3.2⟩
      · simp only [Option.map_eq_some_iff] at h
        obtain ⟨p, _, hp⟩ := h
        exact Rule.noConfusion hp

/-- every rule other than an add-rule prints back to exactly the string it was parsed from -/
theorem printRule_parseRaw {v : Bytes} {r : Rule} (h : parseRaw v = some r)
    (hr : ∀ n val, r ≠ .add n val) : printRule r = v := by
  unfold parseRaw at h
  split at h
  · rename_i h1
    rcases v with _ | ⟨a, t⟩
    · simp at h1
    · simp only [List.head?_cons, beq_iff_eq, Option.some.injEq] at h1
      subst h1
      split at h
      · rename_i h2
        simp only [beq_iff_eq] at h2
        have hr := Option.some.inj h
        subst hr
        rcases t with _ | ⟨b, t⟩
        · simp at h2
        · have h3 : (b :: t).getLast? = some 42 := by simpa [List.getLast?_cons_cons] using h2
          have := dropLast_append_of_getLast? h3
          simp only [printRule, List.drop_succ_cons, List.drop_zero]
          rw [List.cons_append, this]
      · have hr := Option.some.inj h
        subst hr
        simp [printRule]
  · split at h
    · rename_i h1 h2
      rcases v with _ | ⟨a, t⟩
      · simp at h2
      · simp only [List.head?_cons, beq_iff_eq, Option.some.injEq] at h2
        subst h2
        have hr := Option.some.inj h
        subst hr
        simp [printRule]
    · split at h
      · rename_i h3
        simp only [Bool.and_eq_true, beq_iff_eq] at h3
        have hr := Option.some.inj h
        subst hr
        exact dropLast_append_of_getLast? h3.1
      · simp only [Option.map_eq_some_iff] at h
        obtain ⟨p, _, hp⟩ := h
        exact absurd hp.symm (hr _ _)

theorem parseRule_some {v : Bytes} {r : Rule} (h : parseRule v = some r) :
    parseRaw v = some r ∧ validName r.name = true := by
  unfold parseRule at h
  split at h
  · simp at h
  · rename_i r' hr'
    split at h
    · rename_i hv
      have := Option.some.inj h
      subst this
      exact ⟨hr', hv⟩
    · simp at h

theorem parseRule_of_parseRaw {v : Bytes} {r : Rule} (h : parseRaw v = some r)
    (hv : validName r.name = true) : parseRule v = some r := by
  unfold parseRule
  rw [h]
  simp [hv]

theorem dropWhile_takeWhile_dropWhile {α : Type} (p q : α → Bool) (l : List α) :
    ((l.dropWhile p).takeWhile q).dropWhile p = (l.dropWhile p).takeWhile q := by
  by_cases hd : l.dropWhile p = []
  · rw [hd]; rfl
  · have hh := List.head_dropWhile_not p hd
    rcases hl : l.dropWhile p with _ | ⟨c, t⟩
    · exact absurd hl hd
    · simp only [hl, List.head_cons] at hh
      by_cases hq : q c = true
      · simp [hq, hh]
      · simp [hq]

theorem lineMatch_print {n val : Bytes} (hne : n ≠ []) (hall : ∀ c ∈ n, isNameByte c = true)
    (hval : ∀ c ∈ val, isValueByte c = true) (hws : val.dropWhile isSpaceRE = val) :
    lineMatch (n ++ 58 :: val) = some (n, val) := by
  have h58 : isNameByte 58 = false := by decide
  have htw : (n ++ 58 :: val).takeWhile isNameByte = n := by
    rw [List.takeWhile_append_of_pos hall]
    simp [h58]
  unfold lineMatch
  simp only [htw, List.drop_left]
  have : n.isEmpty = false := by
    rcases n with _ | ⟨a, n⟩
    · exact absurd rfl hne
    · rfl
  rw [this]
  simp only [Bool.false_eq_true, if_false]
  rw [wsValueMatch_eq, hws, valueMatch_of_value_bytes hval]
  rfl

/-- facts about the value of a parsed add-rule: no CR, no LF, no leading white space, made of
    bytes of the rule string -/
theorem parseRule_add {v n val : Bytes} (h : parseRule v = some (.add n val)) :
    validName n = true ∧ v.head? = n.head? ∧ v.head? ≠ some 45 ∧ v.head? ≠ some 37 ∧
      (∀ c ∈ val, isValueByte c = true) ∧ val.dropWhile isSpaceRE = val ∧ (∀ c ∈ val, c ∈ v) := by
  obtain ⟨hraw, hvalid⟩ := parseRule_some h
  obtain ⟨h45, h37, _, hlm⟩ := parseRaw_add hraw
  obtain ⟨_, hne, rest, hv, hval⟩ := lineMatch_some hlm
  refine ⟨hvalid, ?_, h45, h37, ?_, ?_, ?_⟩
  · rcases n with _ | ⟨a, n⟩
    · exact absurd rfl hne
    · rw [hv]; rfl
  · intro c hm
    rw [hval] at hm
    exact (mem_takeWhile hm).2
  · rw [hval]; exact dropWhile_takeWhile_dropWhile _ _ _
  · intro c hc
    rw [hval] at hc
    have h1 := mem_of_mem_dropWhile (mem_takeWhile hc).1
    rw [hv]
    exact List.mem_append_right _ (List.mem_cons_of_mem _ h1)

/-- the value of an accepted add-rule contains neither CR nor LF -/
theorem parseRule_add_no_crlf {v n val : Bytes} (h : parseRule v = some (.add n val)) :
    (13 : UInt8) ∉ val ∧ (10 : UInt8) ∉ val := by
  have hall := (parseRule_add h).2.2.2.2.1
  exact ⟨fun hm => ((isValueByte_iff _).mp (hall _ hm)).1 rfl,
    fun hm => ((isValueByte_iff _).mp (hall _ hm)).2 rfl⟩

/-- a string that holds a `:` before its last byte is not `name;` for a valid name: the printed
    form of an add-rule never takes the set-empty branch -/
theorem emptyBranch_print_add (n val : Bytes) :
    ((n ++ 58 :: val).getLast? == some 59 && validName (n ++ 58 :: val).dropLast) = false := by
  have h58 : isNameByte 58 = false := by decide
  rcases val with _ | ⟨b, val⟩
  · have : (n ++ [58]).getLast? = some 58 := by simp
    rw [this]; rfl
  · have hd : (n ++ 58 :: b :: val).dropLast = n ++ 58 :: (b :: val).dropLast := by
      rw [List.dropLast_append_of_ne_nil (by simp)]
      rfl
    rw [hd]
    simp [validName, List.all_append, h58]

theorem roundtrip_add {v n val : Bytes} (h : parseRule v = some (.add n val)) :
    parseRule (printRule (.add n val)) = some (.add n val) := by
  obtain ⟨hvalid, hhead, h45, h37, hvb, hws, _⟩ := parseRule_add h
  have hne := ne_nil_of_validName hvalid
  have hall := all_name_of_validName hvalid
  refine parseRule_of_parseRaw (r := .add n val) ?_ hvalid
  show parseRaw (n ++ 58 :: val) = some (.add n val)
  have hh : (n ++ 58 :: val).head? = v.head? := by
    rcases n with _ | ⟨a, n⟩
    · exact absurd rfl hne
    · rw [hhead]; rfl
  unfold parseRaw
  rw [hh, if_neg (by simpa using h45), if_neg (by simpa using h37),
    if_neg (by rw [emptyBranch_print_add]; simp), lineMatch_print hne hall hvb hws]
  rfl

/-- every accepted rule prints back to a string that parses to the same rule -/
theorem roundtrip {v : Bytes} {r : Rule} (h : parseRule v = some r) :
    parseRule (printRule r) = some r := by
  cases r with
  | add n val => exact roundtrip_add h
  | remove n =>
    rw [printRule_parseRaw (parseRule_some h).1 (fun _ _ e => Rule.noConfusion e)]; exact h
  | removePrefix n =>
    rw [printRule_parseRaw (parseRule_some h).1 (fun _ _ e => Rule.noConfusion e)]; exact h
  | empty n =>
    rw [printRule_parseRaw (parseRule_some h).1 (fun _ _ e => Rule.noConfusion e)]; exact h
  | rename n =>
    rw [printRule_parseRaw (parseRule_some h).1 (fun _ _ e => Rule.noConfusion e)]; exact h

/-- the set-empty rule is accepted exactly for `name;` with a valid name that does not start
    with `-` or `%` (those are read as removal / respelling rules) -/
theorem parseRule_empty_iff (v n : Bytes) :
    parseRule v = some (.empty n) ↔ v = n ++ [59] ∧ validName n = true ∧
      n.head? ≠ some 45 ∧ n.head? ≠ some 37 := by
  constructor
  · intro h
    obtain ⟨hraw, hvalid⟩ := parseRule_some h
    obtain ⟨hv, _⟩ := parseRaw_empty hraw
    have hne := ne_nil_of_validName hvalid
    have hh : v.head? = n.head? := by
      rcases n with _ | ⟨a, n⟩
      · exact absurd rfl hne
      · rw [hv]; rfl
    refine ⟨hv, hvalid, ?_, ?_⟩
    · intro h45
      unfold parseRaw at hraw
      rw [hh, h45] at hraw
      simp only [beq_self_eq_true, if_true] at hraw
      split at hraw <;> exact Rule.noConfusion (Option.some.inj hraw)
    · intro h37
      by_cases h45 : v.head? = some 45
      · rw [hh, h37] at h45; exact absurd h45 (by decide)
      · unfold parseRaw at hraw
        rw [if_neg (by simpa using h45), hh, h37] at hraw
        simp only [beq_self_eq_true, if_true] at hraw
        exact Rule.noConfusion (Option.some.inj hraw)
  · rintro ⟨hv, hvalid, h45, h37⟩
    have hne := ne_nil_of_validName hvalid
    have hh : v.head? = n.head? := by
      rcases n with _ | ⟨a, n⟩
      · exact absurd rfl hne
      · rw [hv]; rfl
    refine parseRule_of_parseRaw (r := .empty n) ?_ hvalid
    have hl : v.getLast? = some 59 := by rw [hv]; simp
    have hd : v.dropLast = n := by rw [hv]; simp
    unfold parseRaw
    rw [hh, if_neg (by simpa using h45), if_neg (by simpa using h37), hl, hd, hvalid]
    rfl

/-! ## §3 Header maps -/

/-- every raw key is in canonical spelling (what `net/http` guarantees for a parsed message) -/
def CanonKeys (h : HMap) : Prop := ∀ e ∈ h, canonicalKey e.1 = e.1
/-- raw keys are unique (a Go map) -/
def NodupKeys (h : HMap) : Prop := (h.map (·.1)).Nodup
def NoRename (rs : List Rule) : Prop := ∀ r ∈ rs, ∀ n, r ≠ .rename n
/-- what the parser guarantees about a rule -/
def ValidRule (r : Rule) : Prop := validName r.name = true
/-- the values stored under raw key `k`, in order -/
def valuesOf (h : HMap) (k : Bytes) : List Bytes := (h.lookup k).getD []

/-- the field lines one map entry stands for -/
def entryFields (k : Bytes) (vs : List Bytes) : List (Bytes × Bytes) := vs.map (fun v => (lower k, v))

theorem fieldsOf_nil : fieldsOf [] = [] := rfl

theorem fieldsOf_cons (e : Bytes × List Bytes) (h : HMap) :
    fieldsOf (e :: h) = entryFields e.1 e.2 ++ fieldsOf h := by
  simp [fieldsOf, entryFields]

theorem fieldsOf_append (a b : HMap) : fieldsOf (a ++ b) = fieldsOf a ++ fieldsOf b := by
  simp [fieldsOf]

theorem filter_entryFields (q : Bytes → Bool) (k : Bytes) (vs : List Bytes) :
    (entryFields k vs).filter (fun f => q f.1) = if q (lower k) then entryFields k vs else [] := by
  unfold entryFields
  induction vs with
  | nil => simp
  | cons v vs ih =>
    by_cases hq : q (lower k) = true
    · simp [hq]
    · simp [hq]

/-- filtering entries by a predicate on the folded key = filtering field lines by name -/
theorem fieldsOf_filter (q : Bytes → Bool) (p : Bytes × List Bytes → Bool) (h : HMap)
    (hp : ∀ e ∈ h, p e = q (lower e.1)) :
    fieldsOf (h.filter p) = (fieldsOf h).filter (fun f => q f.1) := by
  induction h with
  | nil => rfl
  | cons e h ih =>
    have ih := ih (fun e' he' => hp e' (List.mem_cons_of_mem _ he'))
    have he := hp e List.mem_cons_self
    rw [fieldsOf_cons, List.filter_append, filter_entryFields, ← ih]
    by_cases hq : q (lower e.1) = true
    · rw [List.filter_cons_of_pos (by rw [he]; exact hq), fieldsOf_cons, if_pos hq]
    · rw [List.filter_cons_of_neg (by rw [he]; exact hq), if_neg hq, List.nil_append]

/-! ### erase -/

theorem erase_sublist (h : HMap) (c : Bytes) : (HMap.erase h c).Sublist h := List.filter_sublist

theorem CanonKeys.sublist {h h' : HMap} (hs : h'.Sublist h) (hc : CanonKeys h) : CanonKeys h' :=
  fun e he => hc e (hs.subset he)

theorem NodupKeys.sublist {h h' : HMap} (hs : h'.Sublist h) (hn : NodupKeys h) : NodupKeys h' :=
  List.Nodup.sublist (hs.map _) hn

theorem erase_cons_ne {e : Bytes × List Bytes} {c : Bytes} (h : HMap) (hne : e.1 ≠ c) :
    HMap.erase (e :: h) c = e :: HMap.erase h c := by
  simp [HMap.erase, hne]

theorem erase_cons_eq {e : Bytes × List Bytes} {c : Bytes} (h : HMap) (heq : e.1 = c) :
    HMap.erase (e :: h) c = HMap.erase h c := by
  simp [HMap.erase, heq]

theorem erase_of_not_mem {h : HMap} {c : Bytes} (hc : c ∉ h.map (·.1)) : HMap.erase h c = h := by
  unfold HMap.erase
  rw [List.filter_eq_self]
  intro e he
  simp only [bne_iff_ne, ne_eq]
  intro heq
  exact hc (List.mem_map.mpr ⟨e, he, heq⟩)

/-- `Del(n)` on a map with canonical keys removes exactly the field lines named `n` (any case) -/
theorem fieldsOf_erase {h : HMap} {n : Bytes} (hc : CanonKeys h) (hn : n.all isTokenByte = true) :
    fieldsOf (HMap.erase h (canonicalKey n)) = (fieldsOf h).filter (fun f => f.1 != lower n) := by
  unfold HMap.erase
  apply fieldsOf_filter (fun k => k != lower n)
  intro e he
  have := lower_eq_iff_of_canon (hc e he) hn
  show (e.1 != canonicalKey n) = (lower e.1 != lower n)
  by_cases hk : e.1 = canonicalKey n
  · have hl := this.mpr hk
    have h1 : (e.1 != canonicalKey n) = false := by simpa using hk
    have h2 : (lower e.1 != lower n) = false := by simpa using hl
    rw [h1, h2]
  · have hl : lower e.1 ≠ lower n := fun hl => hk (this.mp hl)
    have h1 : (e.1 != canonicalKey n) = true := by simpa using hk
    have h2 : (lower e.1 != lower n) = true := by simpa using hl
    rw [h1, h2]

/-! ### put -/

theorem put_cons_ne {e : Bytes × List Bytes} {c : Bytes} (h : HMap) (vs : List Bytes)
    (hne : e.1 ≠ c) : HMap.put (e :: h) c vs = e :: HMap.put h c vs := by
  unfold HMap.put
  have : (e.1 == c) = false := by simpa using hne
  simp only [List.any_cons, this, Bool.false_or, List.map_cons, Bool.false_eq_true, if_false]
  split <;> rfl

theorem put_cons_eq {e : Bytes × List Bytes} {c : Bytes} (h : HMap) (vs : List Bytes)
    (heq : e.1 = c) (hc : c ∉ h.map (·.1)) : HMap.put (e :: h) c vs = (c, vs) :: h := by
  unfold HMap.put
  have : (e.1 == c) = true := by simpa using heq
  simp only [List.any_cons, this, Bool.true_or, if_true, List.map_cons]
  congr 1
  have hid : h.map (fun e => if (e.1 == c) = true then (c, vs) else e) = h.map id := by
    apply List.map_congr_left
    intro e' he'
    have : (e'.1 == c) = false := by
      simpa using (fun h' : e'.1 = c => hc (List.mem_map.mpr ⟨e', he', h'⟩))
    simp [this]
  rw [hid, List.map_id]

theorem put_of_not_mem {h : HMap} {c : Bytes} (vs : List Bytes) (hc : c ∉ h.map (·.1)) :
    HMap.put h c vs = h ++ [(c, vs)] := by
  unfold HMap.put
  rw [if_neg]
  simp only [List.any_eq_true, beq_iff_eq, not_exists, not_and]
  intro e he heq
  exact hc (List.mem_map.mpr ⟨e, he, heq⟩)

theorem mem_put {h : HMap} {c : Bytes} {vs : List Bytes} {e : Bytes × List Bytes}
    (he : e ∈ HMap.put h c vs) : e ∈ h ∨ e = (c, vs) := by
  unfold HMap.put at he
  split at he
  · obtain ⟨e', he', rfl⟩ := List.mem_map.mp he
    by_cases hk : (e'.1 == c) = true
    · right; simp [hk]
    · left; simp [hk, he']
  · rcases List.mem_append.mp he with he | he
    · exact Or.inl he
    · exact Or.inr (by simpa using he)

theorem keys_put (h : HMap) (c : Bytes) (vs : List Bytes) :
    (HMap.put h c vs).map (·.1) = if c ∈ h.map (·.1) then h.map (·.1) else h.map (·.1) ++ [c] := by
  by_cases hc : c ∈ h.map (·.1)
  · rw [if_pos hc]
    unfold HMap.put
    rw [if_pos]
    · rw [List.map_map]
      apply List.map_congr_left
      intro e _
      show (if (e.1 == c) = true then (c, vs) else e).1 = e.1
      split
      · rename_i hk; exact (beq_iff_eq.mp hk).symm
      · rfl
    · obtain ⟨e, he, heq⟩ := List.mem_map.mp hc
      simp only [List.any_eq_true, beq_iff_eq]
      exact ⟨e, he, heq⟩
  · rw [if_neg hc, put_of_not_mem vs hc]
    simp

theorem CanonKeys.put {h : HMap} {c : Bytes} (vs : List Bytes) (hc : CanonKeys h)
    (hcc : canonicalKey c = c) : CanonKeys (HMap.put h c vs) := by
  intro e he
  rcases mem_put he with he | rfl
  · exact hc e he
  · exact hcc

theorem NodupKeys.put {h : HMap} (c : Bytes) (vs : List Bytes) (hn : NodupKeys h) :
    NodupKeys (HMap.put h c vs) := by
  unfold NodupKeys
  rw [keys_put]
  split
  · exact hn
  · rename_i hc
    rw [List.nodup_append]
    refine ⟨hn, by simp, ?_⟩
    intro a ha b hb
    simp only [List.mem_singleton] at hb
    subst hb
    intro hab; subst hab
    exact hc ha

theorem lookup_put_self (h : HMap) (c : Bytes) (vs : List Bytes) :
    (HMap.put h c vs).lookup c = some vs := by
  induction h with
  | nil => simp [HMap.put]
  | cons e h ih =>
    by_cases hk : e.1 = c
    · obtain ⟨k, ws⟩ := e
      subst hk
      unfold HMap.put
      simp only [List.any_cons, beq_self_eq_true, Bool.true_or, if_true, List.map_cons]
      rw [List.lookup_cons]
      simp
    · rw [put_cons_ne h vs hk]
      obtain ⟨k, ws⟩ := e
      have : (c == k) = false := by simpa using (fun h' : c = k => hk h'.symm)
      rw [List.lookup_cons, this]
      exact ih

theorem lookup_map_replace (h : HMap) {c k : Bytes} (vs : List Bytes) (hkc : (k == c) = false) :
    (h.map (fun e => if (e.1 == c) = true then (c, vs) else e)).lookup k = h.lookup k := by
  induction h with
  | nil => rfl
  | cons e h ih =>
    obtain ⟨k', ws⟩ := e
    by_cases hk : (k' == c) = true
    · have : k' = c := by simpa using hk
      subst this
      simp only [List.map_cons, hk, if_true, List.lookup_cons, hkc]
      exact ih
    · have hk : (k' == c) = false := by simpa using hk
      simp only [List.map_cons, hk, List.lookup_cons, Bool.false_eq_true, if_false]
      rw [ih]

theorem lookup_put_ne (h : HMap) {c k : Bytes} (vs : List Bytes) (hne : k ≠ c) :
    (HMap.put h c vs).lookup k = h.lookup k := by
  have hkc : (k == c) = false := by simpa using hne
  unfold HMap.put
  split
  · exact lookup_map_replace h vs hkc
  · rw [List.lookup_append]
    simp [List.lookup_cons, hkc]

/-! ### field-line view of `put` and `lookup` -/

theorem not_mem_keys_of_nodup_cons {e : Bytes × List Bytes} {h : HMap}
    (hn : NodupKeys (e :: h)) : e.1 ∉ h.map (·.1) := by
  unfold NodupKeys at hn
  rw [List.map_cons, List.nodup_cons] at hn
  exact hn.1

theorem NodupKeys.tail {e : Bytes × List Bytes} {h : HMap} (hn : NodupKeys (e :: h)) :
    NodupKeys h := by
  unfold NodupKeys at hn
  rw [List.map_cons, List.nodup_cons] at hn
  exact hn.2

/-- on a map with unique keys: `h[c] = vs` replaces the lines stored under `c` by `vs` -/
theorem fieldsOf_put_perm {h : HMap} (c : Bytes) (vs : List Bytes) (hn : NodupKeys h) :
    (fieldsOf (HMap.put h c vs)).Perm (fieldsOf (HMap.erase h c) ++ entryFields c vs) := by
  induction h with
  | nil => simp [HMap.put, HMap.erase, fieldsOf_cons, fieldsOf_nil]
  | cons e h ih =>
    by_cases hk : e.1 = c
    · have hc : c ∉ h.map (·.1) := hk ▸ not_mem_keys_of_nodup_cons hn
      rw [put_cons_eq h vs hk hc, erase_cons_eq h hk, erase_of_not_mem hc, fieldsOf_cons]
      exact List.perm_append_comm
    · rw [put_cons_ne h vs hk, erase_cons_ne h hk, fieldsOf_cons, fieldsOf_cons, List.append_assoc]
      exact (ih hn.tail).append_left _

/-- on a map with unique keys: the lines of `h` are those stored under `c` plus the others -/
theorem fieldsOf_lookup_perm {h : HMap} (c : Bytes) (hn : NodupKeys h) :
    (fieldsOf h).Perm (fieldsOf (HMap.erase h c) ++ entryFields c (valuesOf h c)) := by
  induction h with
  | nil => simp [HMap.erase, valuesOf, entryFields, fieldsOf_nil]
  | cons e h ih =>
    obtain ⟨k, ws⟩ := e
    by_cases hk : k = c
    · subst hk
      have hc : k ∉ h.map (·.1) := not_mem_keys_of_nodup_cons hn
      have hv : valuesOf ((k, ws) :: h) k = ws := by simp [valuesOf]
      rw [erase_cons_eq h rfl, erase_of_not_mem hc, fieldsOf_cons, hv]
      exact List.perm_append_comm
    · have hck : (c == k) = false := by simpa using (fun h' : c = k => hk h'.symm)
      have hv : valuesOf ((k, ws) :: h) c = valuesOf h c := by
        simp [valuesOf, List.lookup_cons, hck]
      rw [erase_cons_ne h (e := (k, ws)) hk, fieldsOf_cons, fieldsOf_cons, List.append_assoc, hv]
      exact (ih hn.tail).append_left _

theorem entryFields_append (k : Bytes) (a b : List Bytes) :
    entryFields k (a ++ b) = entryFields k a ++ entryFields k b := by
  simp [entryFields]

theorem entryFields_lower_congr {k k' : Bytes} (h : lower k = lower k') (vs : List Bytes) :
    entryFields k vs = entryFields k' vs := by
  simp [entryFields, h]

/-! ### prefix removal -/

theorem prefixFold_eq (p k : Bytes) : prefixFold p k = (lower p).isPrefixOf (lower k) := by
  rw [Bool.eq_iff_iff, List.isPrefixOf_iff_prefix, List.prefix_iff_eq_take]
  simp only [prefixFold, eqFold, Bool.and_eq_true, decide_eq_true_eq, beq_iff_eq]
  have hl : ∀ s : Bytes, (lower s).length = s.length := fun s => by simp [lower]
  have ht : List.take (lower p).length (lower k) = lower (k.take p.length) := by
    rw [hl]; simp [lower, List.map_take]
  rw [ht]
  constructor
  · intro h; exact h.2.symm
  · intro h
    refine ⟨?_, h.symm⟩
    have := congrArg List.length h
    rw [hl, hl, List.length_take] at this
    omega

/-- with canonical keys `removeHeadersByPrefix` is a plain filter on the raw keys -/
theorem removeByPrefix_eq {h : HMap} (p : Bytes) (hc : CanonKeys h) :
    removeByPrefix h p = h.filter (fun e => !prefixFold p e.1) := by
  unfold removeByPrefix
  apply List.filter_congr
  intro e he
  congr 1
  rw [Bool.eq_iff_iff]
  simp only [List.contains_iff_mem, List.mem_map, List.mem_filter]
  constructor
  · rintro ⟨a, ⟨ha, hp⟩, hk⟩
    rw [hc a ha] at hk
    rw [← hk]; exact hp
  · intro hp
    exact ⟨e, ⟨he, hp⟩, hc e he⟩

theorem fieldsOf_removeByPrefix {h : HMap} (p : Bytes) (hc : CanonKeys h) :
    fieldsOf (removeByPrefix h p) =
      (fieldsOf h).filter (fun f => !(lower p).isPrefixOf f.1) := by
  rw [removeByPrefix_eq p hc]
  apply fieldsOf_filter (fun k => !(lower p).isPrefixOf k)
  intro e _
  show (!prefixFold p e.1) = !(lower p).isPrefixOf (lower e.1)
  rw [prefixFold_eq]

/-! ### one rule -/

/-- a rule other than `%name` maps (canonical, unique-key) maps to such maps and does on the
    field-line view what the documentation says -/
theorem applyRule_spec {h : HMap} {r : Rule} (hr : ∀ n, r ≠ .rename n) (hv : ValidRule r)
    (hc : CanonKeys h) (hn : NodupKeys h) :
    (fieldsOf (applyRule h r)).Perm (specRule (fieldsOf h) r) ∧
      CanonKeys (applyRule h r) ∧ NodupKeys (applyRule h r) := by
  cases r with
  | remove n =>
    have ht : n.all isTokenByte = true := all_token_of_validName hv
    refine ⟨?_, hc.sublist (erase_sublist _ _), hn.sublist (erase_sublist _ _)⟩
    show (fieldsOf (HMap.erase h (canonicalKey n))).Perm _
    rw [fieldsOf_erase hc ht]
    exact List.Perm.refl _
  | removePrefix p =>
    have hs : (removeByPrefix h p).Sublist h := by
      rw [removeByPrefix_eq p hc]; exact List.filter_sublist
    refine ⟨?_, hc.sublist hs, hn.sublist hs⟩
    show (fieldsOf (removeByPrefix h p)).Perm _
    rw [fieldsOf_removeByPrefix p hc]
    exact List.Perm.refl _
  | empty n =>
    have ht : n.all isTokenByte = true := all_token_of_validName hv
    refine ⟨?_, hc.put _ (canonicalKey_idem n), hn.put _ _⟩
    show (fieldsOf (HMap.put h (canonicalKey n) [[]])).Perm
      ((fieldsOf h).filter (fun f => f.1 != lower n) ++ [(lower n, [])])
    refine (fieldsOf_put_perm _ _ hn).trans ?_
    rw [fieldsOf_erase hc ht]
    simp [entryFields, lower_canonicalKey]
  | add n v =>
    have ht : n.all isTokenByte = true := all_token_of_validName hv
    refine ⟨?_, hc.put _ (canonicalKey_idem n), hn.put _ _⟩
    show (fieldsOf (HMap.put h (canonicalKey n) (valuesOf h (canonicalKey n) ++ [v]))).Perm
      (fieldsOf h ++ [(lower n, v)])
    refine (fieldsOf_put_perm _ _ hn).trans ?_
    rw [entryFields_append, ← List.append_assoc]
    refine List.Perm.append (fieldsOf_lookup_perm _ hn).symm ?_
    simp [entryFields, lower_canonicalKey]
  | rename n => exact absurd rfl (hr n)

theorem specRule_perm {fs fs' : List (Bytes × Bytes)} (r : Rule) (h : fs.Perm fs') :
    (specRule fs r).Perm (specRule fs' r) := by
  cases r with
  | remove n => exact h.filter _
  | removePrefix p => exact h.filter _
  | empty n => exact (h.filter _).append_right _
  | add n v => exact h.append_right _
  | rename n => exact h

theorem specRules_perm {fs fs' : List (Bytes × Bytes)} (rs : List Rule) (h : fs.Perm fs') :
    (specRules rs fs).Perm (specRules rs fs') := by
  induction rs generalizing fs fs' with
  | nil => exact h
  | cons r rs ih => exact ih (specRule_perm r h)

theorem applyRules_spec {rs : List Rule} {h : HMap} (hr : NoRename rs)
    (hv : ∀ r ∈ rs, ValidRule r) (hc : CanonKeys h) (hn : NodupKeys h) :
    (fieldsOf (applyRules rs h)).Perm (specRules rs (fieldsOf h)) := by
  induction rs generalizing h with
  | nil => exact List.Perm.refl _
  | cons r rs ih =>
    obtain ⟨h1, h2, h3⟩ :=
      applyRule_spec (hr r List.mem_cons_self) (hv r List.mem_cons_self) hc hn
    have := ih (fun r' hr' => hr r' (List.mem_cons_of_mem _ hr'))
      (fun r' hr' => hv r' (List.mem_cons_of_mem _ hr')) h2 h3
    exact this.trans (specRules_perm rs h1)

/-! ### rename -/

/-- `%name` whose spelling is already canonical leaves the map alone -/
theorem renameCase_of_canon (h : HMap) {n : Bytes} (hcn : canonicalKey n = n) :
    renameCase h n = h := by
  unfold renameCase
  simp only [hcn, bne_self_eq_false, Bool.false_eq_true, if_false]
  split <;> rfl

theorem fieldsOf_renameCase_perm {h : HMap} {n : Bytes}
    (hc : CanonKeys h) (hn : NodupKeys h) :
    (fieldsOf (renameCase h n)).Perm (fieldsOf h) := by
  by_cases hne : canonicalKey n = n
  · rw [renameCase_of_canon h hne]
  unfold renameCase
  simp only [HMap.get]
  split
  · exact List.Perm.refl _
  · rename_i vs hl
    have hnc : (n != canonicalKey n) = true := by
      simpa using (fun h' : n = canonicalKey n => hne h'.symm)
    rw [if_pos hnc]
    have hnk : n ∉ h.map (·.1) := by
      intro hm
      obtain ⟨e, he, hk⟩ := List.mem_map.mp hm
      have := hc e he
      rw [hk] at this
      exact hne this
    have hvs : valuesOf h (canonicalKey n) = vs := by simp [valuesOf, hl]
    rw [put_of_not_mem vs hnk]
    have : HMap.erase (h ++ [(n, vs)]) (canonicalKey n) =
        HMap.erase h (canonicalKey n) ++ [(n, vs)] := by
      simp [HMap.erase, List.filter_append, hnc]
    rw [this, fieldsOf_append, fieldsOf_cons, fieldsOf_nil, List.append_nil]
    refine List.Perm.trans ?_ (fieldsOf_lookup_perm (canonicalKey n) hn).symm
    rw [hvs, entryFields_lower_congr (lower_canonicalKey n)]

/-! ### decidability of the hypotheses (for the concrete non-vacuity examples and witnesses) -/

instance (h : HMap) : Decidable (CanonKeys h) :=
  inferInstanceAs (Decidable (∀ e ∈ h, canonicalKey e.1 = e.1))
instance (h : HMap) : Decidable (NodupKeys h) :=
  inferInstanceAs (Decidable (h.map (·.1)).Nodup)
instance (r : Rule) : Decidable (ValidRule r) :=
  inferInstanceAs (Decidable (validName r.name = true))

theorem noRename_iff (rs : List Rule) : NoRename rs ↔ renameSeen rs = false := by
  unfold NoRename renameSeen
  rw [← Bool.not_eq_true, List.any_eq_true]
  constructor
  · rintro h ⟨r, hr, hm⟩
    cases r with
    | rename n => exact h _ hr n rfl
    | _ => simp at hm
  · intro h r hr n hn
    subst hn
    exact h ⟨_, hr, rfl⟩

instance (rs : List Rule) : Decidable (NoRename rs) := decidable_of_iff _ (noRename_iff rs).symm

end C16
end FwdVerif
