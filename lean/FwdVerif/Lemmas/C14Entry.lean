/-
  C14 — lemmas for the entry-point lookup over declaration forms, residual scripts (dynamically built
  arguments) and the shared helper table.
-/
import FwdVerif.Spec.C14

namespace FwdVerif
namespace C14

/-! ## entry-point lookup -/

theorem get_declare (b1 b2 : Binding) (fn fnEx : Entry) :
    let sc := declare (declare ⟨[], []⟩ b1 .find fn) b2 .findEx fnEx
    vmGet sc .find = (if b1 != .none then fn else .absent) ∧
    vmGet sc .findEx = (if b2 != .none then fnEx else .absent) ∧
    objGet sc .find = (if b1 = .property then fn else .absent) ∧
    objGet sc .findEx = (if b2 = .property then fnEx else .absent) := by
  cases b1 <;> cases b2 <;> cases fn <;> cases fnEx <;> exact ⟨rfl, rfl, rfl, rfl⟩

/-- `vm.Get` sees exactly what the script specifies under the name, whatever the declaration form -/
theorem vmGet_scope (s : Script) (n : EName) : vmGet s.scope n = s.global n := by
  obtain ⟨fn, fnEx, f1, f2⟩ := s
  cases n
  · exact (get_declare f1.binding f2.binding fn fnEx).1
  · exact (get_declare f1.binding f2.binding fn fnEx).2.1

/-- the global object holds the name only when the form makes it a property -/
theorem objGet_scope (s : Script) (n : EName) :
    objGet s.scope n = if (s.form n).binding = .property then s.entry n else .absent := by
  obtain ⟨fn, fnEx, f1, f2⟩ := s
  cases n
  · exact (get_declare f1.binding f2.binding fn fnEx).2.2.1
  · exact (get_declare f1.binding f2.binding fn fnEx).2.2.2

/-- loading looks at what the script specifies under the two names and at nothing else -/
theorem load_eq (s : Script) : load s = loadWith (fun _ n => s.global n) s := by
  simp only [load, loadWith, vmGet_scope]

/-- forms matter only through `definesGlobal` -/
theorem load_forms (fn fnEx : Entry) (f1 f2 : DeclForm) :
    load ⟨fn, fnEx, f1, f2⟩ =
      load ⟨if definesGlobal f1 then fn else .absent, if definesGlobal f2 then fnEx else .absent, .funDecl, .funDecl⟩ := by
  have d : definesGlobal .funDecl = true := rfl
  simp only [load_eq, loadWith, Script.global, Script.form, Script.entry, d, if_true]
  rfl

theorem load_plain (fn fnEx : Entry) :
    load ⟨fn, fnEx, .funDecl, .funDecl⟩ =
      match fnEx.tree?, fn.tree? with
      | none, none => .error .missing
      | some _, some _ => .error .ambiguous
      | some t, none => .ok t
      | none, some t => .ok t := by
  cases fn <;> cases fnEx <;> rfl

/-! ## residual scripts -/

theorem evalCall_residual (hc : Helper → List Val → Res) (url host u' h' : Bytes) (c : Call) :
    evalCall hc u' h' (c.residual url host) = evalCall hc url host c := by
  unfold evalCall Call.residual
  simp only [List.map_map]
  congr 1

theorem evalCond_residual (hc : Helper → List Val → Res) (url host u' h' : Bytes) (c : Cond) :
    evalCond hc u' h' (c.residual url host) = evalCond hc url host c := by
  induction c with
  | truthy c => simp only [Cond.residual, evalCond, evalCall_residual]
  | eq c v => simp only [Cond.residual, evalCond, evalCall_residual]
  | not c ih => simp only [Cond.residual, evalCond, ih]

theorem evalRet_residual (hc : Helper → List Val → Res) (url host u' h' : Bytes) (e : RetE) :
    evalRet hc u' h' (e.residual url host) = evalRet hc url host e := by
  cases e <;> simp only [RetE.residual, evalRet, evalCall_residual]

theorem evalTree_residual (hc : Helper → List Val → Res) (url host u' h' : Bytes) (t : Tree) :
    evalTree hc u' h' (t.residual url host) = evalTree hc url host t := by
  induction t with
  | ret e => simp only [Tree.residual, evalTree, evalRet_residual]
  | ite c t e iht ihe => simp only [Tree.residual, evalTree, evalCond_residual, iht, ihe]

/-! ## evaluation depends on the helper semantics only through the values of the calls made -/

theorem evalTree_hc_ext (hc hc' : Helper → List Val → Res) (h : ∀ x a, hc' x a = hc x a) (u hst : Bytes) (t : Tree) :
    evalTree hc' u hst t = evalTree hc u hst t := by
  have : hc' = hc := funext fun x => funext fun a => h x a
  rw [this]

/-! ## the shared helper table -/

theorem memoGet_cons (k' : HKey) (v : Res) (m : HMemo) (k : HKey) :
    memoGet ((k', v) :: m) k = if k' = k then some v else memoGet m k := rfl

theorem callHelperMemo_fst (env : Env) (m : HMemo) (hm : m.sound env) (h : Helper) (args : List Val) :
    (callHelperMemo env m h args).1 = callHelper env h args := by
  unfold callHelperMemo
  cases hg : memoGet m (h, args) with
  | none => rfl
  | some v => exact (hm (h, args) v hg).symm

theorem callHelperMemo_sound (env : Env) (m : HMemo) (hm : m.sound env) (h : Helper) (args : List Val) :
    (callHelperMemo env m h args).2.sound env := by
  unfold callHelperMemo
  cases hg : memoGet m (h, args) with
  | some v => exact hm
  | none =>
    intro k v hk
    rw [memoGet_cons] at hk
    by_cases e : (h, args) = k
    · rw [if_pos e] at hk
      cases hk
      rw [← e]
    · rw [if_neg e] at hk
      exact hm k v hk

theorem memo_nil_sound (env : Env) : HMemo.sound env [] := by
  intro k v h; simp [memoGet] at h

theorem memoAfter_sound (env : Env) (ks : List HKey) : (memoAfter env ks).sound env := by
  unfold memoAfter
  suffices h : ∀ m : HMemo, m.sound env → (ks.foldl (fun m k => (callHelperMemo env m k.1 k.2).2) m).sound env from
    h [] (memo_nil_sound env)
  induction ks with
  | nil => intro m hm; exact hm
  | cons k ks ih => intro m hm; exact ih _ (callHelperMemo_sound env m hm k.1 k.2)

end C14
end FwdVerif
