-- This module serves as the root of the `FwdVerif` library.
-- Import modules here that should be built as part of the library.
import FwdVerif.Basic
