import FwdVerif.Theorems.C16
open FwdVerif FwdVerif.C16
#print axioms c16_parse_valid
#print axioms c16_parse_name_token
#print axioms c16_parse_value_no_lf
#print axioms c16_parse_value_legal
#print axioms c16_print_exact_non_add
#print axioms c16_roundtrip
#print axioms c16_parse_empty_iff
#print axioms c16_apply_spec_partial
#print axioms c16_add_appends
#print axioms c16_add_others_untouched
#print axioms c16_rename_preserves_fields
#print axioms c16_rename_canonical_identity
#print axioms c16_rule_after_rename_witness
#print axioms c16_apply_spec_full_false
#print axioms c16_dispatch
