import FwdVerif.Theorems.C16
open FwdVerif FwdVerif.C16
#print axioms c16_dispatch
