import FwdVerif.Theorems.C02
open FwdVerif FwdVerif.C02
#print axioms c02_header_only_iff
