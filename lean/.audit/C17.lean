import FwdVerif.Theorems.C17
open FwdVerif FwdVerif.C17
#print axioms c17_union_partial
#print axioms c17_flag_leak_witness
#print axioms c17_order_witness
#print axioms c17_union_wrapped
#print axioms c17_neutral_of_no_top_flag_group
#print axioms c17_inverse_negates
#print axioms c17_inverse_involutive
#print axioms c17_perm_invariant
#print axioms c17_perm_invariant_wrapped
#print axioms c17_exclude_wins
#print axioms c17_no_include_error
#print axioms c17_no_panic
#print axioms c17_no_panic_wrapped
#print axioms c17_dash_partition
#print axioms c17_list_partition
