import FwdVerif.Theorems.C19
open FwdVerif FwdVerif.C19
#print axioms c19_userinfo_redacted
#print axioms c19_proxy_redacted
#print axioms c19_proxy_redacted_bare
#print axioms c19_credentials_redacted
#print axioms c19_data_redacted
#print axioms c19_describe_public
#print axioms c19_describe_noninterference
#print axioms c19_secret_absent
#print axioms c19_secret_absent_of_fresh_byte
#print axioms c19_userinfo_keeps_user
#print axioms c19_credentials_keep_user_host_port
#print axioms c19_proxy_keeps_scheme_user_host
#print axioms c19_secret_flags_redacted
