import FwdVerif.Theorems.C01
open FwdVerif FwdVerif.C01
#print axioms c01_known_length_is_declared
