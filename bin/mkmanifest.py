#!/usr/bin/env python3
"""Regenerates MANIFEST.json from bin/manifest_src.json (per-property texts) — keeps the file valid
and the not_applicable list current: every property of properties.jsonl is either claimed or listed."""
import json, os, sys
root = os.path.dirname(os.path.dirname(os.path.abspath(__file__)))
src = json.load(open(os.path.join(root, "bin", "manifest_src.json")))
props = [json.loads(l)["id"] for l in open(os.path.join(root, "properties.jsonl")) if l.strip()]
checks, na = [], []
for p in props:
    s = src["properties"].get(p, {})
    if s.get("claimed"):
        checks.append({
            "property_id": p,
            "quick_cmd": f"bin/check {p} --tier quick",
            "thorough_cmd": f"bin/check {p} --tier thorough",
            "evidence_file": f"evidence/{p}.json",
            "replay_cmd_template": f"bin/check {p} --replay {{path}}",
            "engine": "lean4-proof+go-correspondence",
            "level_claimed": {"category": "proof", "text": s["level_text"], "design_ref": s.get("design_ref", f"DESIGN.md section 5, {p}")},
            "level_note": s["level_note"],
            "technique": s.get("technique", "Lean 4 theorems over a hand-written executable model + differential correspondence of the model with the real code"),
        })
    else:
        na.append({"property_id": p, "reason": s.get("reason", "check not built yet in this round; planned as in DESIGN.md section 5")})
for e in src["engines"]:
    e["serves_properties"] = [c["property_id"] for c in checks]
src["hooks"]["source_commits"] = src["hooks"].get("source_commits", [])
m = {
    "version": 1,
    "setup_cmd": "bin/setup",
    "hooks": src["hooks"],
    "engines": src["engines"],
    "checks": checks,
    "notes": src["notes"],
    "not_applicable": na,
}
json.dump(m, open(os.path.join(root, "MANIFEST.json"), "w"), indent=1)
try:
    import jsonschema
    jsonschema.validate(m, json.load(open("/root/.vp/MANIFEST.schema.json")))
    print("MANIFEST.json valid;", len(checks), "claimed,", len(na), "not claimed")
except ImportError:
    print("MANIFEST.json written (jsonschema not available)")
