#!/usr/bin/env python3
"""Development helper: summarise the newest replay file of a property."""
import json,glob,os,sys
prop=sys.argv[1]
fs=sorted(glob.glob(f'/verif/replays/{prop}-*.json'),key=os.path.getmtime)
d=json.load(open(fs[-1]))
from collections import Counter
c=Counter()
allf=[d['first']]+d.get('more_failing_inputs',[])+d.get('no_longer_checks',[])
for f in allf: c[(f['kind'],f['clause'],f.get('class',''))]+=1
for k,v in c.items(): print(v,k)
seen=set()
n=int(sys.argv[2]) if len(sys.argv)>2 else 900
for f in allf:
    k=(f['kind'],f['clause'],f.get('class',''))
    if k in seen: continue
    seen.add(k)
    print('---',k)
    print(' impl:',str(f.get('impl',''))[:n])
    print(' model/detail:',str(f.get('model',''))[:n//2], str(f.get('detail',''))[:n//2])
    print(' case:',json.dumps(f.get('case'))[:n])
