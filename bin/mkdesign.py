#!/usr/bin/env python3
"""Development helper: regenerates section 11 ("As built") of DESIGN.md between the AS-BUILT markers from
docs/asbuilt-part*.md, known_findings.json (repairs / open findings tables) and seeded/*/meta.json
(which check catches which seeded change).  Not used by any registered command."""
import json, os, re, subprocess, sys
root = os.path.dirname(os.path.dirname(os.path.abspath(__file__)))
rd = lambda p: open(os.path.join(root, p)).read()

def esc(s):
    return str(s).replace('|', '/').replace('\n', ' ')

kf = json.load(open(os.path.join(root, 'known_findings.json')))['findings']

def repairs():
    rows = ["| id | property | commit | what failed |", "|----|----------|--------|-------------|"]
    seen = {}
    for f in kf:
        if f['status'] != 'fixed':
            continue
        key = (f.get('commit'), f['property'])
        line = f.get('line', '')
        m = re.match(r'fixed: property=\S+ \S+ (.*)', line)
        what = m.group(1) if m else f['what']
        if key in seen:
            seen[key][0] += ', ' + f['id']
            continue
        seen[key] = [f['id'], f['property'], f.get('commit', '?'), what]
    for v in seen.values():
        rows.append(f"| {v[0]} | {v[1]} | {v[2]} | {esc(v[3])[:260]} |")
    return "\n".join(rows)

def opens():
    rows = ["| id | property | what fails (replayable witness in `corpus/`) | why recorded rather than repaired |",
            "|----|----------|----------------------------------------------|----------------------------------|"]
    for f in kf:
        if f['status'] != 'open':
            continue
        rows.append(f"| {f['id']} | {f['property']} | {esc(f['what'])[:300]} | {esc(f.get('why_recorded', ''))} |")
    return "\n".join(rows)


def status():
    import glob
    man = json.load(open(os.path.join(root, 'MANIFEST.json')))
    rows = ["| property | theorems (all discharged, axioms ⊆ {propext, Classical.choice, Quot.sound}) | quick run: cases / distinct non-trivial | open findings | repaired |",
            "|----------|------------|-----------------|---------------|----------|"]
    for c in man['checks']:
        pid = c['property_id']
        try:
            ev = json.load(open(os.path.join(root, 'evidence', pid + '.json')))['coverage']
        except Exception:
            ev = {}
        op = sorted({f['id'] for f in kf if f['property'] == pid and f['status'] == 'open'})
        fx = sorted({f['id'] for f in kf if f['property'] == pid and f['status'] == 'fixed'})
        rows.append(f"| {pid} | {ev.get('discharged', '?')}/{ev.get('obligations', '?')} | {ev.get('evaluations', '?')} / {ev.get('distinct_nontrivial', '?')} | {', '.join(op) or '–'} | {', '.join(fx) or '–'} |")
    return "\n".join(rows)

sec110 = f"""### 11.0 Status at a glance

Generated from `MANIFEST.json`, the evidence files of the last run against /repo and
`known_findings.json`. All twenty properties are claimed; every claim is "Proof (Lean 4), partial" in
the sense of §3: the theorems are about the model, the tie to the code is the correspondence run.

{status()}
"""

seedtable = subprocess.run([sys.executable, os.path.join(root, 'bin/seedtable.py')], capture_output=True, text=True).stdout

part3 = rd('docs/asbuilt-part3.md')
# the static repairs table / open list of part3 is replaced by generated ones
part3 = part3.split('### 11.4 Repairs committed')[0].rstrip() + "\n"

sec114 = f"""### 11.4 Defects: repaired in /repo (`fix:` commits) and recorded

{repairs()}

Each repair is one unguarded commit touching only what the defect requires; the 521 stable baseline
tests pass on the repaired tree (`bin/baseline-check`, timing-sensitive tests retried alone under
load). After each repair the model was changed to mirror the repaired code, the clause that had been
`_full` def + `_partial` + witness was proved at full strength and the witnesses removed, the known
class was removed from the scenario (such a failure is a VIOLATION again), the corpus witness stays
and is replayed as an ordinary case, and the entry in `known_findings.json` carries
`fixed: property=<id> <commit> <what failed>`. Run against the unrepaired tree every such check
reports a VIOLATION with the old witness as concrete input.

Recorded rather than repaired (open entries of `known_findings.json`; each prints one
`KNOWN-FINDING:` line when re-observed and never masks a different violation of the same property):

{opens()}
"""

sec115 = f"""### 11.5 Seeded changes: which check catches which change

Each change was written by a builder that saw only the property text and a scratch worktree of /repo,
compiles, passes the 521 stable baseline tests, and comes with a demonstration that fails with the
change and passes without. Each was confirmed here (`bin/confirmseed`: demonstration on the clean and
on the changed tree, build, baseline) and then the property's registered check was run against a
scratch worktree carrying the change (`VERIF_REPO=<worktree> bin/check <id>`). `patch.diff`,
demonstration and `meta.json` (what it needs to manifest, what was run, the check's verdict line) are
in `seeded/<seed>/`. "first missed" = the check as it stood when the seed arrived did not report it;
the note says what was strengthened (never a special case for the change: the generator / rig / model
was widened so that the behaviour is exercised and judged).

{seedtable}
"""

p1 = rd('docs/asbuilt-part1.md')
i11 = p1.index('### 11.1')
body = "\n".join([p1[:i11].rstrip(), "", sec110.rstrip(), "", p1[i11:].rstrip(), "", rd('docs/asbuilt-part2.md').rstrip(), "", part3.rstrip(), "",
                  sec114.rstrip(), "", sec115.rstrip(), "", rd('docs/asbuilt-part4.md').rstrip(), ""])

p = os.path.join(root, 'DESIGN.md')
s = open(p).read()
a = s.index('<!-- AS-BUILT BEGIN')
a_end = s.index('-->', a) + 3
b = s.index('<!-- AS-BUILT END -->')
s = s[:a_end] + "\n\n" + body + "\n" + s[b:]
open(p, 'w').write(s)
print("DESIGN.md section 11 regenerated:", len(body.splitlines()), "lines")
