#!/usr/bin/env python3
"""Development helper: prints the markdown table of seeded changes (seeded/*/meta.json) for DESIGN.md."""
import json,glob,os,re
rows=[]
for d in sorted(glob.glob('/verif/seeded/*/'), key=lambda p:(re.sub(r'\d+$','',os.path.basename(p[:-1]).split('-')[0]), os.path.basename(p[:-1]))):
    try: m=json.load(open(d+'meta.json'))
    except Exception: continue
    sid=os.path.basename(d[:-1])
    c=m.get('confirmed_by_main_session',{})
    title=(m.get('title') or m.get('what_breaks') or '')[:110].replace('|','/').replace('\n',' ')
    needs=(m.get('needs_to_manifest') or '')
    if isinstance(needs,list): needs='; '.join(map(str,needs))
    needs=needs[:140].replace('|','/').replace('\n',' ')
    tier='quick' if c.get('check_quick_exit')==1 else ('thorough' if c.get('check_thorough_exit')==1 else '-')
    line=(c.get('check_quick_line') or '')+(c.get('check_thorough_line') or '')
    how='concrete failing input' if ('VIOLATION' in line and 'no-failing-input-found' not in line) else ('no-failing-input-found' if 'VIOLATION' in line else 'NOT DETECTED')
    rows.append(f"| {sid} | {m.get('property','')} | {title} | {needs} | {tier} | {how} |")
print("| seed | property | change | needs to manifest | caught in tier | verdict |")
print("|------|----------|--------|-------------------|----------------|---------|")
print("\n".join(rows))
