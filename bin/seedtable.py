#!/usr/bin/env python3
"""Development helper: prints the markdown table of seeded changes (seeded/*/meta.json) for DESIGN.md."""
import json,glob,os,re
rows=[]
root=os.path.dirname(os.path.dirname(os.path.abspath(__file__)))
try: hist=json.load(open(root+'/docs/seed-history.json'))
except Exception: hist={}
for d in sorted(glob.glob(os.path.dirname(os.path.dirname(os.path.abspath(__file__)))+'/seeded/*/'), key=lambda p:(re.sub(r'\d+$','',os.path.basename(p[:-1]).split('-')[0]), os.path.basename(p[:-1]))):
    try: m=json.load(open(d+'meta.json'))
    except Exception: continue
    sid=os.path.basename(d[:-1])
    c=m.get('confirmed_by_main_session',{})
    title=(m.get('title') or m.get('what_breaks') or '')[:110].replace('|','/').replace('\n',' ')
    needs=(m.get('needs_to_manifest') or '')
    if isinstance(needs,list): needs='; '.join(map(str,needs))
    needs=needs[:140].replace('|','/').replace('\n',' ')
    tier='quick' if c.get('check_quick_exit')==1 else ('thorough' if c.get('check_thorough_exit')==1 else '-')
    line=(c.get('check_quick_line') or '')+(c.get('check_thorough_line') or '')
    how='concrete failing input' if ('VIOLATION' in line and 'no-failing-input-found' not in line) else ('no-failing-input-found' if 'VIOLATION' in line else 'NOT DETECTED')
    h=hist.get(sid,'')
    if h.startswith('as '): h=hist.get(h[3:],h)
    rows.append(f"| {sid} | {m.get('property','')} | {title} | {needs} | {tier} | {how} | {h.replace('|','/')} |")
print("| seed | property | change | needs to manifest | caught in tier | verdict | first missed? what was strengthened |")
print("|------|----------|--------|-------------------|----------------|---------|------|")
print("\n".join(rows))
