#!/usr/bin/env python3
"""Development helper: prints the prompt given to a fresh 'seeding' sub-agent for property <id>
(only the property's text and a scratch worktree; nothing from /verif)."""
import json,sys
pid=sys.argv[1]; n=sys.argv[2] if len(sys.argv)>2 else "3"; start=int(sys.argv[3]) if len(sys.argv)>3 else 1
wave="" if start==1 else f"-w{start}"
p=[json.loads(l) for l in open('/verif/properties.jsonl') if json.loads(l)['id']==pid][0]
low=pid.lower()
print(f"""You are a Go engineer helping to test a verification tool by writing realistic BUGS. The project is saucelabs/forwarder (a Go HTTP/HTTPS forward proxy). Do NOT read or use anything under /verif or /work (off limits). Never modify /repo itself.

Set up your own scratch worktree: `git -C /repo worktree add --detach /tmp/seed-{low}{wave}` and work ONLY there. Go environment for every shell call: `export GOFLAGS=-mod=mod GOPROXY=off GOTOOLCHAIN=auto` (do NOT set GOSUMDB, do not use GOTOOLCHAIN=local; there is no network; the repo's go.mod wants go 1.23.12 which is cached and auto-selected).

Here is a semantic property the project is supposed to satisfy:

---
{p['id']} — {p['title']}

Statement: {p['statement']}

Quantified over: {p['quantifier']['text']}

Anchored in files: {', '.join(p['anchors']['files'])}
---

Produce {n} different, independent changes to the forwarder source (each one a separate small patch against the unmodified tree) such that each:
 (a) breaks the property above (makes it false for some inputs / schedules / histories),
 (b) still compiles (`go build ./...`) and still passes the project's existing test suite: run `go test -vet=off -count=1 ./...` in the worktree before and after; tests that already fail on the unmodified tree may be ignored, but your change must not make any additional test fail,
 (c) is REALISTIC (the kind of slip a maintainer could make in a refactor or "optimisation") and SUBTLE: it must need something specific to manifest — a particular interleaving, a fault at a particular point, a multi-step sequence of operations, an unusual input, a specific configuration, or two cooperating sites that each look fine alone — NOT something that ordinary use or the obvious happy path would expose at once. Do not just delete a feature or invert an obvious condition. Vary the changes: touch different clauses of the property and different code sites, including the less obvious ones (helpers, constructors, option plumbing, error paths, code shared with other features) rather than only the first function that comes to mind.
 (d) comes with a DEMONSTRATION: a Go test file (or small program) that FAILS with the change applied and PASSES on the unmodified tree, exercising observable behaviour (sockets / exported API) where possible.

For each change i (numbered i = {start}, {start+1}, …) write into /tmp/seed-out/{low}-<i>/ : `patch.diff` (output of `git diff` in the worktree, applying cleanly with `git apply` to the unmodified tree), the demonstration file(s) plus a `demo.sh` that runs it given the path of a tree as $1 (exit 0 = property holds there, non-zero = broken; it may copy the demo test into the tree temporarily but must clean up), and `meta.json` {{"property":"{pid}","title":…,"what_breaks":…,"needs_to_manifest":…,"files_touched":[…],"commands_run":[…],"tests_before":…,"tests_after":…}}. Reset the worktree between changes (`git -C /tmp/seed-{low}{wave} checkout -- . && git -C /tmp/seed-{low}{wave} clean -fd`). Verify each patch yourself: apply to a clean worktree, build, run the full test suite, run the demo (fails), un-apply, run the demo (passes).

When finished remove the worktree: `git -C /repo worktree remove --force /tmp/seed-{low}{wave}`. Final report: for each change one paragraph (what, why it is subtle, what it needs to manifest) and the verification results.""")
