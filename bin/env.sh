# sourced by bin/check and bin/setup: offline Go/Lean environment for this sandbox
export VERIF_ROOT="${VERIF_ROOT:-$(cd "$(dirname "${BASH_SOURCE[0]}")/.." && pwd)}"
# /repo's go.mod wants go 1.23.12: the default go (1.23.5) switches to the cached toolchain only
# with GOTOOLCHAIN=auto and the default GOSUMDB (see DESIGN.md §2).
export GOFLAGS=-mod=mod GOPROXY=off GOTOOLCHAIN=auto
unset GOSUMDB GONOSUMDB GONOSUMCHECK GOFLAGS_EXTRA
export CARGO_NET_OFFLINE=true PIP_NO_INDEX=1
# the tree under verification (registered commands always use /repo; development copies may point elsewhere)
export VERIF_REPO="${VERIF_REPO:-/repo}"
# evidence/<id>.json describes runs against /repo only; a development run against a scratch worktree
# (seeded change, proposed repair) writes its evidence under .work/ instead
if [ "$VERIF_REPO" = /repo ]; then export VERIF_EVIDENCE_DIR="$VERIF_ROOT/evidence"; else export VERIF_EVIDENCE_DIR="$VERIF_ROOT/.work/evidence-scratch"; fi
